"""Two decision rules for C33 (Python <-> C value conversions).

C33-DICT — decision table of the dict -> struct / dict -> union converters of CConvert.pyx.
    The Tempita template is expanded (mini expander of the checker) for 1, 2 and 3 members, the Cython function is read as a
    Python AST and interpreted by an abstract interpreter that belongs to the checker over the COMPLETE partition of all
    mappings with respect to the operations the converter performs on its argument (len, `key in obj`, obj[key] for the
    member keys):   (set of member keys present) x (other keys: none / some).
    Required table:  union  -> returns exactly when one member key is present and there is no other key, with
                               result.<field of that member> = obj[<name of that member>]; every other class raises;
                     struct -> returns (every field from its own key) when all member keys are present, raises otherwise.
    Any operation on the mapping outside the modelled ones raises ANALYSIS-ERROR.

C33-ENC — encoder / decoder agreement with the default C string encoding.
    For every preprocessor configuration (limited API x limited version x ASCII / UTF-8) of the str -> char* helper(s) whose
    body depends on __PYX_DEFAULT_STRING_ENCODING_IS_ASCII: each `return <buffer>` must return a UTF-8 buffer of the
    argument, with *length set on the path; the character count (PyUnicode_GET_LENGTH / PyUnicode_GetLength) may serve
    as byte length only under an ASCII witness; and in the ASCII configuration every such return must be ASCII-witnessed:
    dominated by a positive PyUnicode_IS_ASCII(o) guard or by an exit taken when character count != UTF-8 byte count
    (the two are equal exactly for ASCII text).  The decoding macro must use the decoder of the same encoding flag.
"""
import ast, itertools, re

from ..core import Rule, AnalysisError
from ..engine import cexpr
from . import pC17

CCONV = 'Cython/Utility/CConvert.pyx'
TCONV = 'Cython/Utility/TypeConversion.c'


# ====================================================================================== mini Tempita (for .pyx utility code)
TEMPITA = re.compile(r'\{\{(.*?)\}\}', re.S)


class _O:
    def __init__(self, **kw):
        self.__dict__.update(kw)


def _tev(node, env):
    if isinstance(node, ast.Constant):
        return node.value
    if isinstance(node, ast.Name):
        if node.id in env:
            return env[node.id]
        raise AnalysisError('C33-DICT: template variable %s is not modelled' % node.id)
    if isinstance(node, ast.Attribute):
        base = _tev(node.value, env)
        if isinstance(base, _O) and hasattr(base, node.attr):
            return getattr(base, node.attr)
        raise AnalysisError('C33-DICT: template attribute .%s is not modelled' % node.attr)
    if isinstance(node, ast.Call) and isinstance(node.func, ast.Attribute) and node.func.attr == 'join' and len(node.args) == 1:
        sep = _tev(node.func.value, env)
        arg = node.args[0]
        if isinstance(sep, str) and isinstance(arg, (ast.GeneratorExp, ast.ListComp)) and len(arg.generators) == 1 and not arg.generators[0].ifs \
                and isinstance(arg.generators[0].target, ast.Name):
            g = arg.generators[0]
            return sep.join(str(_tev(arg.elt, dict(env, **{g.target.id: v}))) for v in _tev(g.iter, env))
    raise AnalysisError('C33-DICT: template expression %s is outside the modelled subset' % ast.unparse(node))


def expand(text, env):
    toks, pos = [], 0
    for m in TEMPITA.finditer(text):
        if m.start() > pos:
            toks.append(('text', text[pos:m.start()]))
        pos = m.end()
        b = m.group(1).strip()
        b2 = b[:-1].rstrip() if b.endswith(':') else b
        if b2.startswith('for '):
            mm = re.match(r'for\s+(\w+)\s+in\s+(.+)$', b2, re.S)
            if not mm:
                raise AnalysisError('C33-DICT: unsupported template loop %r' % b)
            toks.append(('for', mm.group(1), mm.group(2)))
        elif b2 == 'endfor':
            toks.append(('endfor',))
        elif re.match(r'(if|elif|else|endif|py:|def|default)\b', b2):
            raise AnalysisError('C33-DICT: template directive %r is not modelled' % b)
        else:
            toks.append(('expr', b2))
    toks.append(('text', text[pos:]))

    def run(i, env, stop):
        out = []
        while i < len(toks):
            t = toks[i]
            if t[0] == stop:
                return ''.join(out), i
            if t[0] == 'text':
                out.append(t[1])
                i += 1
            elif t[0] == 'expr':
                out.append(str(_tev(ast.parse(t[1], mode='eval').body, env)))
                i += 1
            elif t[0] == 'for':
                seq = _tev(ast.parse(t[2], mode='eval').body, env)
                end = None
                if not seq:
                    raise AnalysisError('C33-DICT: empty template loop')
                for v in seq:
                    body, end = run(i + 1, dict(env, **{t[1]: v}), 'endfor')
                    out.append(body)
                i = end + 1
            else:
                raise AnalysisError('C33-DICT: unbalanced template directive %r' % (t,))
        if stop:
            raise AnalysisError('C33-DICT: template loop not closed')
        return ''.join(out), i
    return run(0, env, None)[0]


def section(src, name):
    parts = re.split(r'^#{10,} (\S+) #{10,}[ \t]*\n', src, flags=re.M)
    d = dict(zip(parts[1::2], parts[2::2]))
    if name not in d:
        raise AnalysisError('section %s missing from CConvert.pyx' % name)
    return d[name], src.count('\n', 0, src.index(d[name])) + 1


def converter_ast(text):
    """The `cdef T name(obj) ...:` function of an expanded section as a Python FunctionDef."""
    lines = text.split('\n')
    start = None
    for i, l in enumerate(lines):
        if re.match(r'^cdef\s+.*\(\s*\w+\s*\)\s*(?:except[^:]*)?:\s*$', l):
            start = i
    if start is None:
        raise AnalysisError('C33-DICT: converter function header not found')
    m = re.search(r'\(\s*(\w+)\s*\)', lines[start])
    body = []
    for l in lines[start + 1:]:
        if l.strip() and not l.startswith((' ', '\t')):
            break
        if re.match(r'^\s+cdef\s', l):
            body.append(re.match(r'^\s+', l).group(0) + 'pass')
            continue
        body.append(l)
    src = 'def converter(%s):\n%s\n' % (m.group(1), '\n'.join(body))
    try:
        return ast.parse(src).body[0]
    except SyntaxError as e:
        raise AnalysisError('C33-DICT: expanded converter is not parsable as Python: %s' % e)


# ====================================================================================== abstract interpreter over mapping classes
class Mapping:
    pass


class Len:
    def __init__(self, n, extra):
        self.n, self.extra = n, extra

    def truth(self):
        if self.n < 0:
            raise AnalysisError('C33-DICT: the key counter becomes negative')
        return self.extra or self.n > 0


class Val:
    def __init__(self, key):
        self.key = key

    def __eq__(self, o):
        return isinstance(o, Val) and o.key == self.key

    def __hash__(self):
        return hash(('Val', self.key))

    def __repr__(self):
        return 'obj[%r]' % self.key


class Opaque:
    def __init__(self, what='text'):
        self.what = what


class Exc(Exception):
    def __init__(self, name):
        self.name = name


class _Ret(Exception):
    pass


class Result:
    def __init__(self):
        self.fields = {}


class DictInterp:
    def __init__(self, fn, present, extra):
        self.fn, self.present, self.extra = fn, frozenset(present), extra
        self.env = {fn.args.args[0].arg: Mapping()}
        self.result = Result()
        self.env['result'] = self.result

    def run(self):
        try:
            self.block(self.fn.body)
        except _Ret as r:
            v = r.args[0]
            if v is not self.result:
                raise AnalysisError('C33-DICT: the converter returns something other than `result`')
            return ('return', dict(self.result.fields))
        except Exc as e:
            return ('raise', e.name)
        return ('fall', None)

    def truth(self, v):
        if isinstance(v, Len):
            return v.truth()
        if isinstance(v, (bool, int, str, type(None))):
            return bool(v)
        if isinstance(v, (Val, Opaque)):
            raise AnalysisError('C33-DICT: truth of a run-time value decides the conversion (not modelled)')
        raise AnalysisError('C33-DICT: truth of %r is not modelled' % (v,))

    def ev(self, e):
        if isinstance(e, ast.Constant):
            return e.value
        if isinstance(e, ast.Name):
            if e.id in self.env:
                return self.env[e.id]
            if e.id in ('True', 'False', 'None'):
                return {'True': True, 'False': False, 'None': None}[e.id]
            if e.id in ('ValueError', 'TypeError', 'KeyError', 'IndexError', 'OverflowError'):
                return e.id
            if any(isinstance(n, ast.Name) and n.id == e.id and isinstance(n.ctx, ast.Store) for n in ast.walk(self.fn)):
                raise Exc('UnboundLocalError')       # a local that is assigned on another path only
            raise AnalysisError('C33-DICT: unbound name %s in the converter' % e.id)
        if isinstance(e, ast.JoinedStr):
            for v in e.values:
                if isinstance(v, ast.FormattedValue):
                    self.ev(v.value)
            return Opaque()
        if isinstance(e, ast.BinOp) and isinstance(e.op, ast.Mod):
            self.ev(e.left)
            self.ev(e.right)
            return Opaque()
        if isinstance(e, ast.UnaryOp) and isinstance(e.op, ast.Not):
            return not self.truth(self.ev(e.operand))
        if isinstance(e, ast.BoolOp):
            last = None
            for sub in e.values:
                last = self.ev(sub)
                t = self.truth(last)
                if isinstance(e.op, ast.And) and not t:
                    return last
                if isinstance(e.op, ast.Or) and t:
                    return last
            return last
        if isinstance(e, ast.Compare) and len(e.ops) == 1:
            a, b = self.ev(e.left), self.ev(e.comparators[0])
            op = e.ops[0]
            if isinstance(op, (ast.In, ast.NotIn)) and isinstance(b, Mapping):
                if not isinstance(a, str):
                    raise AnalysisError('C33-DICT: membership test of a non-constant key')
                r = a in self.present
                return r if isinstance(op, ast.In) else not r
            if isinstance(op, (ast.Is, ast.IsNot)):
                if a is None or b is None:
                    r = a is None and b is None
                    return r if isinstance(op, ast.Is) else not r
            if isinstance(op, (ast.Eq, ast.NotEq)):
                for x, y in ((a, b), (b, a)):
                    if isinstance(x, Len) and isinstance(y, int):
                        if x.extra:
                            if y <= x.n:
                                r = False
                            else:
                                raise AnalysisError('C33-DICT: comparison of the key counter with %d is not decided by the partition' % y)
                        else:
                            r = x.n == y
                        return r if isinstance(op, ast.Eq) else not r
                if isinstance(a, (str, int, type(None), bool)) and isinstance(b, (str, int, type(None), bool)):
                    return (a == b) if isinstance(op, ast.Eq) else (a != b)
            raise AnalysisError('C33-DICT: comparison %s is not modelled' % ast.unparse(e))
        if isinstance(e, ast.Subscript):
            base, k = self.ev(e.value), self.ev(e.slice)
            if isinstance(base, Mapping):
                if not isinstance(k, str):
                    raise AnalysisError('C33-DICT: subscript of the mapping with a non-constant key')
                if k in self.present:
                    return Val(k)
                raise Exc('KeyError')
            raise AnalysisError('C33-DICT: subscript %s is not modelled' % ast.unparse(e))
        if isinstance(e, ast.Call):
            f = e.func
            name = f.id if isinstance(f, ast.Name) else (f.attr if isinstance(f, ast.Attribute) else None)
            args = [self.ev(a) for a in e.args]
            if name == 'len' and len(args) == 1 and isinstance(args[0], Mapping):
                return Len(len(self.present), self.extra)
            if name == 'PyMapping_Check' and len(args) == 1 and isinstance(args[0], Mapping):
                return True
            if name in ('unlikely', 'likely') and len(args) == 1:
                return args[0]
            if name in ('repr', 'str'):
                return Opaque()
            if name in ('ValueError', 'TypeError', 'KeyError', 'IndexError', 'OverflowError'):
                return ('exc', name)
            if name and name.startswith('__Pyx_Raise'):
                raise Exc('TypeError')
            if any(isinstance(a, Mapping) for a in args):
                raise AnalysisError('C33-DICT: the converter passes the mapping to %s(), which the partition does not model' % name)
            raise AnalysisError('C33-DICT: call of %s is not modelled' % ast.unparse(f))
        raise AnalysisError('C33-DICT: expression %s is not modelled' % ast.unparse(e))

    def block(self, stmts):
        for s in stmts:
            self.stmt(s)

    def stmt(self, s):
        if isinstance(s, ast.Pass):
            return
        if isinstance(s, ast.Expr):
            self.ev(s.value)
            return
        if isinstance(s, ast.Assign) and len(s.targets) == 1:
            v = self.ev(s.value)
            t = s.targets[0]
            if isinstance(t, ast.Name):
                self.env[t.id] = v
                return
            if isinstance(t, ast.Attribute) and isinstance(t.value, ast.Name) and self.env.get(t.value.id) is self.result:
                self.result.fields[t.attr] = v
                return
            raise AnalysisError('C33-DICT: assignment target %s is not modelled' % ast.unparse(t))
        if isinstance(s, ast.AugAssign) and isinstance(s.target, ast.Name) and isinstance(s.op, (ast.Sub, ast.Add)):
            cur, d = self.env.get(s.target.id), self.ev(s.value)
            if isinstance(cur, Len) and isinstance(d, int):
                self.env[s.target.id] = Len(cur.n - d if isinstance(s.op, ast.Sub) else cur.n + d, cur.extra)
                return
            if isinstance(cur, int) and isinstance(d, int):
                self.env[s.target.id] = cur - d if isinstance(s.op, ast.Sub) else cur + d
                return
            raise AnalysisError('C33-DICT: %s is not modelled' % ast.unparse(s))
        if isinstance(s, ast.If):
            self.block(s.body if self.truth(self.ev(s.test)) else s.orelse)
            return
        if isinstance(s, ast.Return):
            raise _Ret(self.ev(s.value) if s.value is not None else None)
        if isinstance(s, ast.Raise):
            v = self.ev(s.exc) if s.exc is not None else None
            if isinstance(v, tuple) and v[0] == 'exc':
                raise Exc(v[1])
            if isinstance(v, str):
                raise Exc(v)
            raise AnalysisError('C33-DICT: raise of %s is not modelled' % ast.unparse(s))
        if isinstance(s, ast.Try) and not s.finalbody:
            try:
                self.block(s.body)
            except Exc as e:
                for h in s.handlers:
                    names = []
                    if h.type is None:
                        names = None
                    elif isinstance(h.type, ast.Name):
                        names = [h.type.id]
                    elif isinstance(h.type, ast.Tuple):
                        names = [x.id for x in h.type.elts if isinstance(x, ast.Name)]
                    if names is None or e.name in names or 'Exception' in names or 'LookupError' in names and e.name in ('KeyError', 'IndexError'):
                        self.block(h.body)
                        return
                raise
            else:
                self.block(s.orelse)
            return
        raise AnalysisError('C33-DICT: statement %s is not modelled' % type(s).__name__)


def dict_table(text, kind, n, strict_names=False):
    """-> [(present names, extra, outcome, problem or None)] for an n-member struct/union."""
    members = [_O(name='m%d' % i, cname='c%d' % i) for i in range(n)]
    src = expand(text, dict(var_entries=members, funcname='__sa_conv', struct_type='sa_struct_t'))
    fn = converter_ast(src)
    rows = []
    names = [m.name for m in members]
    cname = {m.name: m.cname for m in members}
    for k in range(n + 1):
        for present in itertools.combinations(names, k):
            for extra in (False, True):
                out = DictInterp(fn, present, extra).run()
                prob = None
                if kind == 'union':
                    want_return = len(present) == 1 and not extra
                else:
                    want_return = len(present) == n
                if out[0] == 'fall':
                    prob = 'falls off the end of the converter without returning or raising (an uninitialised value is returned)'
                elif want_return:
                    if out[0] != 'return':
                        prob = 'raises %s for a valid mapping' % out[1]
                    else:
                        # the field of member p is addressed by its Cython name or (pending FINDING: union) its C name; it must receive obj[p]
                        got = {}
                        for f, v in out[1].items():
                            owner = [p for p in names if f in (p, cname[p])]
                            got[owner[0] if owner else f] = v
                        want = {p: Val(p) for p in present}
                        if got != want:
                            prob = 'returns %s, required %s (each field from its own key)' % (
                                {k2: repr(v) for k2, v in sorted(out[1].items())}, {k2: repr(v) for k2, v in sorted(want.items())})
                        elif strict_names and any(f not in names for f in out[1]):
                            f = sorted(f for f in out[1] if f not in names)[0]
                            prob = ('stores %r into result.%s — the C name of the member; the utility is Cython code, where a struct/union field is addressed by its Cython '
                                    'name (the sibling converter uses {{member.name}}): the generated converter does not compile when a member was declared with a C name of its own'
                                    % (out[1][f], f))
                elif kind == 'struct' and extra and len(present) == n:
                    prob = None
                else:
                    if out[0] == 'return':
                        prob = 'is converted (fields %s) instead of raising' % sorted(out[1])
                    elif out[1] not in ('ValueError', 'TypeError', 'KeyError', 'OverflowError'):
                        prob = 'raises %s, not one of ValueError / TypeError / KeyError' % out[1]
                rows.append((present, extra, out, prob))
    return rows


UNION_BAD = '''
@cname("{{funcname}}")
cdef {{struct_type}} {{funcname}}(obj) except *:
    cdef {{struct_type}} result
    cdef Py_ssize_t length
    last_found = None
    length = len(obj)
    {{for member in var_entries:}}
    if length:
        if '{{member.name}}' in obj:
            if last_found is not None:
                raise ValueError("two")
            result.{{member.cname}} = obj['{{member.name}}']
            length -= 1
            last_found = '{{member.name}}'
    {{endfor}}
    if last_found is None:
        raise ValueError("none")
    return result
'''


def rule_dict(ctx):
    r = Rule('C33-DICT', 'dict -> struct / union converters of CConvert.pyx: decision table over (member keys present) x (other keys none/some) for 1..3 members: '
                         'a union converts exactly one member key and nothing else, a struct needs every member key, each field is read from its own key', floor=50)
    src = ctx.read(CCONV)
    for sec, kind in (('FromPyUnionUtility', 'union'), ('FromPyStructUtility', 'struct')):
        text, line = section(src, sec)
        reported = set()
        for n in (1, 2, 3):
            for present, extra, out, prob in dict_table(text, kind, n):
                cls = '%d of %d member keys%s' % (len(present), n, ' + other keys' if extra else '')
                key = 'dict:%s:%d:%s%s' % (sec, n, '+'.join(present) or '-', '+x' if extra else '')
                r.inst(key, sample='%s %s -> %s' % (sec, cls, out[0] if out[0] != 'raise' else 'raise ' + out[1]))
                if prob:
                    ck = 'CConvert.pyx:%s:%s' % (sec, 'extra-keys' if extra else 'member-keys')
                    if ck in reported:
                        continue
                    reported.add(ck)
                    r.violate(ck, CCONV, line, '%s (dict -> C %s) with %d members: a mapping holding {%s}%s %s' % (
                        sec, kind, n, ', '.join(present), ' plus keys that are not members' if extra else '', prob))
    pc = [p for _, _, _, p in dict_table(UNION_BAD, 'union', 2) if p]
    r.positive_control(bool(pc), 'union converter that ignores left-over keys')
    return r


def rule_dict_fields(ctx):
    # pending finding (FINDING_1.md): FromPyUnionUtility assigns result.{{member.cname}}; NOT registered in run() until the defect is fixed / listed
    r = Rule('C33-FIELD', 'dict -> struct / union converters address the fields of `result` by the Cython names of the members', floor=2)
    src = ctx.read(CCONV)
    for sec, kind in (('FromPyUnionUtility', 'union'), ('FromPyStructUtility', 'struct')):
        text, line = section(src, sec)
        r.inst('field:%s' % sec, sample=sec)
        for present, extra, out, prob in dict_table(text, kind, 1, strict_names=True):
            if prob and 'C name of the member' in prob:
                r.violate('CConvert.pyx:%s:field-name' % sec, CCONV, line, '%s (dict -> C %s) with 1 members: a mapping holding {%s} %s' % (sec, kind, ', '.join(present), prob))
                break
    return r


# ====================================================================================== C33-ENC
ASCII, UTF8 = '__PYX_DEFAULT_STRING_ENCODING_IS_ASCII', '__PYX_DEFAULT_STRING_ENCODING_IS_UTF8'
UTF8_BUF_CALLS = ('PyUnicode_AsUTF8', 'PyUnicode_AsUTF8AndSize')
CHARLEN_CALLS = ('PyUnicode_GET_LENGTH', 'PyUnicode_GetLength', '__Pyx_PyUnicode_GET_LENGTH')
ASCII_PRED = ('PyUnicode_IS_ASCII',)


def preprocess(body, env):
    """Select the lines of `body` that are active for the macro values in env (only #if / #elif / #else / #endif with integer conditions)."""
    out, stack = [], []        # stack of [any branch taken so far, this branch active, enclosing active]
    for line in body.split('\n'):
        m = re.match(r'^\s*#\s*(if|ifdef|ifndef|elif|else|endif)\b(.*)$', line)
        if not m:
            if re.match(r'^\s*#', line):
                if all(f[1] for f in stack):
                    raise AnalysisError('C33-ENC: preprocessor line %r inside the helper is not modelled' % line.strip())
                out.append('')
                continue
            out.append(line if all(f[1] for f in stack) else '')
            continue
        d, rest = m.group(1), m.group(2).strip()
        outer = all(f[1] for f in stack[:-1]) if d in ('elif', 'else', 'endif') else all(f[1] for f in stack)

        def cond(text):
            try:
                return bool(cexpr.evaluate(cexpr.parse(text), env))
            except (cexpr.ParseError, cexpr.EvalError) as e:
                raise AnalysisError('C33-ENC: cannot decide `#if %s` for the configuration %s: %s' % (text, env, e))
        if d == 'if':
            v = cond(rest) if outer else False
            stack.append([v, v])
        elif d in ('ifdef', 'ifndef'):
            raise AnalysisError('C33-ENC: #%s is not modelled' % d)
        elif d == 'elif':
            if not stack:
                raise AnalysisError('C33-ENC: #elif without #if')
            f = stack[-1]
            v = (not f[0]) and outer and cond(rest)
            f[1] = v
            f[0] = f[0] or v
        elif d == 'else':
            f = stack[-1]
            v = (not f[0]) and outer
            f[1] = v
            f[0] = True
        else:
            if not stack:
                raise AnalysisError('C33-ENC: #endif without #if')
            stack.pop()
        out.append('')
    if stack:
        raise AnalysisError('C33-ENC: unbalanced #if in helper body')
    return '\n'.join(out)


def _strip_likely(e):
    while e[0] == 'call' and e[1] in ('likely', 'unlikely') and len(e[2]) == 1:
        e = e[2][0]
    return e


def _conjuncts(e, positive=True):
    """[(atom, polarity)] that hold when e is true (positive) / false (not positive); only the sound decompositions."""
    e = _strip_likely(e)
    if e[0] == 'un' and e[1] == '!':
        return _conjuncts(e[2], not positive)
    if e[0] == 'bin' and e[1] == '&&' and positive:
        return _conjuncts(e[2], True) + _conjuncts(e[3], True)
    if e[0] == 'bin' and e[1] == '||' and not positive:
        return _conjuncts(e[2], False) + _conjuncts(e[3], False)
    if e[0] == 'bin' and e[1] in ('&&', '||'):
        return []
    return [(e, positive)]


class EncWalk:
    """Path walk over the statements of one configuration of a str -> char* helper."""

    def __init__(self, obj, length_param, ascii_cfg):
        self.obj, self.lenp, self.ascii_cfg = obj, length_param, ascii_cfg
        self.returns = []       # (expression text, problems)

    def is_obj(self, e):
        return e == ('id', self.obj)

    def walk(self, stmts, st):
        """st: dict(ascii=bool, charlen=set(names), bytelen_set=bool, charlen_as_len=bool, utf8bufs=set(names)); returns the state that falls through or None."""
        for s in stmts:
            if st is None:
                return None
            st = self.stmt(s, st)
        return st

    def expr(self, text):
        text = re.sub(r'"(?:\\.|[^"\\])*"', '__sa_string_literal', text)
        try:
            return cexpr.parse(text)
        except cexpr.ParseError:
            return None

    def scan_calls(self, e, st, target=None):
        """Effects of the calls inside expression e (buffer / length producers)."""
        for n in cexpr.walk(e):
            if n[0] != 'call':
                continue
            name, args = n[1], n[2]
            if name == 'PyUnicode_AsUTF8AndSize' and len(args) == 2 and self.is_obj(args[0]):
                if args[1] == ('id', self.lenp):
                    st['len'] = 'bytes'
            if name == 'PyArg_Parse' and len(args) >= 4 and self.is_obj(args[0]):
                if args[-1] == ('id', self.lenp):
                    st['len'] = 'bytes'
                a = args[-2]
                if a[0] == 'un' and a[1] == '&' and a[2][0] == 'id':
                    st['utf8bufs'] = st['utf8bufs'] | {a[2][1]}

    def is_utf8_buffer(self, e, st):
        e = _strip_likely(e)
        while e[0] == 'cast':
            e = e[2]
        if e[0] == 'call' and e[1] in UTF8_BUF_CALLS and e[2] and self.is_obj(e[2][0]):
            return True
        if e[0] == 'id' and e[1] in st['utf8bufs']:
            return True
        return False

    def is_charlen(self, e, st):
        while e[0] == 'cast':
            e = e[2]
        if e[0] == 'call' and e[1] in CHARLEN_CALLS and len(e[2]) == 1 and self.is_obj(e[2][0]):
            return True
        return e[0] == 'id' and e[1] in st['charlen']

    def is_bytelen(self, e, st):
        while e[0] == 'cast':
            e = e[2]
        return e == ('un', '*', ('id', self.lenp)) and st['len'] == 'bytes'

    def refine(self, cond, st, branch):
        """State for the true (branch=True) / false branch of `if (cond)`."""
        st = dict(st)
        if cond is None:
            return st
        for atom, pol in _conjuncts(cond, branch):
            a = _strip_likely(atom)
            if a[0] == 'call' and a[1] in ASCII_PRED and len(a[2]) == 1 and self.is_obj(a[2][0]) and pol:
                st['ascii'] = True
            if a[0] == 'bin' and a[1] in ('==', '!='):
                eq = (a[1] == '==') == pol
                x, y = a[2], a[3]
                if eq and ((self.is_charlen(x, st) and self.is_bytelen(y, st)) or (self.is_charlen(y, st) and self.is_bytelen(x, st))):
                    st['ascii'] = True
        return st

    def stmt(self, s, st):
        k = s.kind
        if k == 'block':
            return self.walk(s.body, st)
        if k == 'if':
            cond = self.expr(s.text)
            if cond is not None:
                self.scan_calls(cond, st)
            a = self.walk(pC17.as_list(s.body), self.refine(cond, st, True))
            b_in = self.refine(cond, st, False)
            b = self.walk(pC17.as_list(s.orelse), b_in) if s.orelse is not None else b_in
            if a is None:
                return b
            if b is None:
                return a
            return {'ascii': a['ascii'] and b['ascii'], 'charlen': a['charlen'] & b['charlen'], 'utf8bufs': a['utf8bufs'] & b['utf8bufs'],
                    'len': a['len'] if a['len'] == b['len'] else None}
        if k == 'simple':
            t = s.text.strip().rstrip(';').strip()
            if not t:
                return st
            m = re.match(r'^return\b\s*(.*)$', t, re.S)
            if m:
                self.ret(m.group(1).strip(), st)
                return None
            if re.match(r'^(goto|break|continue)\b', t):
                raise AnalysisError('C33-ENC: jump statement `%s` in the helper is not modelled' % t)
            st = dict(st)
            # declarations: `T name;` / `T name = init;`
            md = re.match(r'^(?:const\s+)?[A-Za-z_][\w\s\*]*?[\s\*]([A-Za-z_]\w*)\s*(?:=\s*(.+))?$', t, re.S)
            ma = re.match(r'^(\*?\s*[A-Za-z_]\w*)\s*=(?!=)\s*(.+)$', t, re.S)
            if ma:
                lhs, rhs = ma.group(1).replace(' ', ''), self.expr(ma.group(2))
                if rhs is None:
                    raise AnalysisError('C33-ENC: cannot parse `%s`' % t)
                self.scan_calls(rhs, st)
                if lhs == '*' + self.lenp:
                    st['len'] = 'chars' if self.is_charlen(rhs, st) else ('bytes' if self.is_bytelen(rhs, st) else 'other')
                elif not lhs.startswith('*'):
                    st['charlen'] = (st['charlen'] | {lhs}) if self.is_charlen(rhs, st) else (st['charlen'] - {lhs})
                    st['utf8bufs'] = (st['utf8bufs'] | {lhs}) if self.is_utf8_buffer(rhs, st) else (st['utf8bufs'] - {lhs})
                return st
            if md and md.group(2) is None:
                return st
            if md and md.group(2) is not None:
                rhs = self.expr(md.group(2))
                if rhs is not None:
                    self.scan_calls(rhs, st)
                    n = md.group(1)
                    if self.is_charlen(rhs, st):
                        st['charlen'] = st['charlen'] | {n}
                    if self.is_utf8_buffer(rhs, st):
                        st['utf8bufs'] = st['utf8bufs'] | {n}
                return st
            e = self.expr(t)
            if e is not None:
                self.scan_calls(e, st)
            return st
        raise AnalysisError('C33-ENC: statement kind %s in the helper is not modelled' % k)

    def ret(self, text, st):
        if text in ('NULL', '0', '((void*)0)', ''):
            return
        e = self.expr(text)
        if e is None:
            raise AnalysisError('C33-ENC: cannot parse `return %s`' % text)
        st = dict(st)
        self.scan_calls(e, st)
        probs = []
        if not self.is_utf8_buffer(e, st):
            probs.append(('source', 'returns `%s`, which is not a UTF-8 buffer of the argument (PyUnicode_AsUTF8 / PyUnicode_AsUTF8AndSize / "s#")' % text))
        if st['len'] is None or st['len'] == 'other':
            probs.append(('length', 'returns a buffer without having stored its byte length through the length parameter on this path'))
        if st['len'] == 'chars' and not st['ascii']:
            probs.append(('length', 'stores the CHARACTER count as the byte length of a UTF-8 buffer without an ASCII witness: the two differ for every non-ASCII string'))
        if self.ascii_cfg and not st['ascii']:
            probs.append(('ascii', 'returns the UTF-8 buffer although nothing on the path establishes that the string is ASCII (a positive PyUnicode_IS_ASCII(%s) guard, or an '
                                   'exit taken when character count != UTF-8 byte count): with c_string_encoding=ascii a non-ASCII str is converted instead of raising' % self.obj))
        self.returns.append((text, probs))


def enc_function_problems(body, params, cfgs):
    """-> {cfg description: [(return text, [(kind, problem)])]}"""
    names = [re.findall(r'[A-Za-z_]\w*', p)[-1] for p in params]
    if len(names) != 2:
        raise AnalysisError('C33-ENC: str -> char* helper takes %d parameters, expected (object, length*)' % len(names))
    obj, lenp = names
    res = {}
    for desc, env in cfgs:
        active = preprocess(body, env)
        w = EncWalk(obj, lenp, bool(env.get(ASCII)))
        end = w.walk(pC17.parse_body(active), {'ascii': False, 'charlen': frozenset(), 'utf8bufs': frozenset(), 'len': None})
        if end is not None:
            w.returns.append(('<end of function>', [('source', 'control reaches the end of the helper without a return')]))
        if not w.returns:
            raise AnalysisError('C33-ENC: configuration %s of the helper returns no buffer' % desc)
        res[desc] = w.returns
    return res


ENC_BAD = '''{
#if __PYX_DEFAULT_STRING_ENCODING_IS_ASCII
    if (likely(__Pyx_PyUnicode_KIND(o) == PyUnicode_1BYTE_KIND)) {
        *length = PyUnicode_GET_LENGTH(o);
        return PyUnicode_AsUTF8(o);
    } else {
        PyUnicode_AsASCIIString(o);
        return NULL;
    }
#else
    return PyUnicode_AsUTF8AndSize(o, length);
#endif
}'''


def rule_enc(ctx):
    r = Rule('C33-ENC', 'str -> char* helpers that depend on the default C string encoding: every returned buffer is the UTF-8 buffer of the argument with its byte length stored, '
                        'is ASCII-witnessed in the ASCII configuration, and the decoding macro uses the decoder of the same encoding flag', floor=8)
    cat = ctx.cat
    funcs = []
    for name, decls in cat.decls.items():
        for d in decls:
            # an encoder: returns char*, depends on the ASCII flag and produces a UTF-8 buffer itself (dispatchers that only forward are not encoders)
            if d.kind == 'func' and d.body and ASCII in d.body and re.search(r'char\s*\*', d.ret or '') \
                    and re.search(r'\b(?:%s)\s*\(|"s#"' % '|'.join(UTF8_BUF_CALLS), d.body):
                funcs.append((name, d))
    if not funcs:
        raise AnalysisError('C33-ENC: no str -> char* helper in Cython/Utility depends on %s any more; adapt the rule' % ASCII)
    for name, d in funcs:
        macros = set(re.findall(r'^\s*#\s*(?:el)?if\b(.*)$', d.body, re.M))
        idents = set()
        for c in macros:
            idents |= set(re.findall(r'(?<![\w])[A-Za-z_]\w*', c))
        known = {ASCII, UTF8, 'CYTHON_COMPILING_IN_LIMITED_API', '__PYX_LIMITED_VERSION_HEX'}
        if idents - known:
            raise AnalysisError('C33-ENC: %s depends on preprocessor symbols %s the configuration space does not model' % (name, sorted(idents - known)))
        cfgs = []
        for asc in (1, 0):
            for lim, ver in ((0, 0), (1, 0x03090000), (1, 0x030D0000)):
                env = {ASCII: asc, UTF8: 1 - asc, 'CYTHON_COMPILING_IN_LIMITED_API': lim, '__PYX_LIMITED_VERSION_HEX': ver}
                desc = '%s,%s' % ('ascii' if asc else 'utf8', 'limited-api-%x' % ver if lim else 'cpython')
                cfgs.append((desc, env))
        res = enc_function_problems(d.body, d.params, cfgs)
        for desc, rets in sorted(res.items()):
            key = 'enc:%s:%s' % (name, desc)
            r.inst(key, sample='%s [%s]: returns %s' % (name, desc, ', '.join(t for t, _ in rets)))
            for text, probs in rets:
                for kind, pb in probs:
                    r.violate('TypeConversion.c:%s:%s:%s' % (name, desc.split(',')[0], kind), 'Cython/Utility/' + d.file, d.line,
                              '%s, configuration [%s], `return %s`: %s' % (name, desc, text, pb))
    # ---- decoder agreement
    dname = '__Pyx_PyUnicode_FromStringAndSize'
    decls = [d for d in cat.decls.get(dname, []) if d.kind == 'macro']
    if len(decls) < 2:
        raise AnalysisError('C33-ENC: %s is no longer selected per encoding flag' % dname)
    for enc, env in (('utf8', {UTF8: 1, ASCII: 0}), ('ascii', {UTF8: 0, ASCII: 1}), ('other', {UTF8: 0, ASCII: 0})):
        chosen = [d for d in decls if _conds_hold(d.conds, env)]
        key = 'dec:%s:%s' % (dname, enc)
        r.inst(key, sample='%s [%s] -> %s' % (dname, enc, chosen[0].body if chosen else None))
        if len(chosen) != 1:
            r.violate('TypeConversion.c:%s:%s' % (dname, enc), TCONV, decls[0].line, '%s has %d definitions for the %s configuration' % (dname, len(chosen), enc))
            continue
        body = chosen[0].body or ''
        calls = re.findall(r'\b(PyUnicode_Decode\w*)\s*\(', body)
        want = {'utf8': 'PyUnicode_DecodeUTF8', 'ascii': 'PyUnicode_DecodeASCII', 'other': 'PyUnicode_Decode'}[enc]
        ok = calls == [want] and (enc != 'other' or re.search(r'\b__PYX_DEFAULT_STRING_ENCODING\b', body))
        if not ok:
            r.violate('TypeConversion.c:%s:%s' % (dname, enc), TCONV, chosen[0].line,
                      '%s decodes with `%s` in the %s configuration, required %s%s: char* -> str does not invert str -> char*' % (
                          dname, ' '.join(body.split()), enc, want, ' with __PYX_DEFAULT_STRING_ENCODING' if enc == 'other' else ''))
    # ---- positive control
    pc = enc_function_problems(ENC_BAD, ['PyObject* o', 'Py_ssize_t *length'], [('ascii', {ASCII: 1, UTF8: 0}), ('utf8', {ASCII: 0, UTF8: 1})])
    bad = [k for _, ps in pc['ascii'] for k, _ in ps]
    r.positive_control('ascii' in bad and 'length' in bad and not any(ps for _, ps in pc['utf8']), '1-byte-kind test instead of PyUnicode_IS_ASCII')
    return r


def _conds_hold(conds, env):
    """conds: tuple of chains 'if A; elif B; else ' (one per nesting level) -> whether the LAST arm of every chain is the active one."""
    for chain in conds:
        arms = [a.strip() for a in chain.split(';')]
        taken = False
        val = False
        for i, a in enumerate(arms):
            m = re.match(r'^(if|elif|else)\b\s*(.*)$', a)
            if not m:
                raise AnalysisError('C33-ENC: cannot read preprocessor chain %r' % chain)
            if m.group(1) == 'else':
                v = not taken
            else:
                try:
                    v = (not taken) and bool(cexpr.evaluate(cexpr.parse(m.group(2)), env))
                except (cexpr.ParseError, cexpr.EvalError) as e:
                    raise AnalysisError('C33-ENC: cannot decide `#if %s`: %s' % (m.group(2), e))
            taken = taken or v
            val = v
        if not val:
            return False
    return True


# ====================================================================================== C33-SHAPE (fourth round)
"""C33-SHAPE — the container / string / array conversion templates of CppConvert.pyx and CConvert.pyx have the SHAPE of the
conversion they are named after.  Each template function is read as a Python AST (C declarations and casts rewritten by
the checker) and interpreted SYMBOLICALLY: loops are run once on a generic element / index / iterator position, locals are
replaced by their symbolic values, effects (push_back, insert, o[k] = v, SET_ITEM, INCREF, attribute stores) are recorded
with the loop they happen in.  The facts are compared with the specification of the conversion:

  <seq>.from_py   one loop over the Python iterable, one push_back / insert of <X>(current item) per iteration, container returned
  map.from_py     loop over o.items(), insert(pair[X,Y](<X>key, <Y>value)) — key first
  pair.from_py    pair[X,Y](<X>(1st of o), <Y>(2nd of o));   complex.from_py  std_complex[X](<X>z.real, <X>z.imag)
  string.from_py  string(data, length) with the length the buffer helper stored
  vector/list/carray.to_py  a new list/tuple of exactly size() slots, slot I <- element I for every I in [0, size()), each item
                  INCREF'ed before the reference-stealing SET_ITEM, size() range-checked before the cast to Py_ssize_t
  set.to_py {e for e in s};  pair.to_py (first, second);  map.to_py  o[first] = second for every position;
  complex.to_py  real <- real(), imag <- imag();  string.to_py  FromStringAndSize(data(), size()) behind the range check
  carray.from_py  (interpreted for array lengths 1..3 x iterables of 0..4 items x with / without len()):  returns 0 exactly
                  when the item count equals the length, having stored item i into v[i]; never writes v[i] for i >= length;
                  every other count raises IndexError.
"""
CPPCONV = 'Cython/Utility/CppConvert.pyx'


def pyx_sections(src):
    parts = re.split(r'^#{10,} (\S+) #{10,}[ \t]*\n', src, flags=re.M)
    out = {}
    for name, body in zip(parts[1::2], parts[2::2]):
        out[name] = (body, src.count('\n', 0, src.index(body)) + 1)
    return out


def template_functions(text):
    """-> [(name, FunctionDef, line offset)] for every `cdef ... name(params) ...:` function of a section (Tempita expressions -> TPL,
    C declarations and casts rewritten: `cdef T x = e` -> `x = __decl__('T', e)`, `<T>e` -> `__cast__T ** e`, `&e` -> `e`)."""
    text = re.sub(r'\{\{\s*for\b.*?\}\}|\{\{\s*endfor\s*\}\}', '', text, flags=re.S)
    text = re.sub(r'\{\{.*?\}\}', 'TPL', text, flags=re.S)
    lines = text.split('\n')
    out = []
    i = 0
    while i < len(lines):
        l = lines[i]
        m = re.match(r'^cdef\s+(?:inline\s+)?(.*?)\b([A-Za-z_]\w*)\s*\((.*)\)\s*(?:except[^:]*|noexcept)?\s*:\s*$', l)
        if not m or l.startswith('cdef extern') or 'cppclass' in l:
            i += 1
            continue
        name, params = m.group(2), []
        for a in m.group(3).split(','):
            a = a.strip()
            if a:
                ids = re.findall(r'[A-Za-z_]\w*', a.split('=')[0])
                params.append(ids[-1])
        body = []
        j = i + 1
        while j < len(lines) and (not lines[j].strip() or lines[j].startswith((' ', '\t'))):
            body.append(lines[j])
            j += 1
        src = 'def %s(%s):\n%s\n' % (name, ', '.join(params), '\n'.join(_rewrite_line(b) for b in body) or '    pass')
        try:
            fn = ast.parse(src).body[0]
        except SyntaxError as e:
            raise AnalysisError('C33-SHAPE: template function %s is not parsable after rewriting the C syntax: %s' % (name, e))
        out.append((name, fn, i))
        i = j
    return out


def _rewrite_line(l):
    if not l.strip() or l.strip().startswith('#'):
        return ''
    ind = re.match(r'^\s*', l).group(0)
    body = l[len(ind):]
    body = re.sub(r'\s+#.*$', '', body) if '"' not in body and "'" not in body else body
    m = re.match(r'^cdef\s+(.*)$', body)
    if m:
        rest = m.group(1)
        if '=' in rest and not re.search(r'[<>!=]=', rest.split('=')[0] + '='[:0]):
            lhs, rhs = rest.split('=', 1)
            ids = re.findall(r'[A-Za-z_]\w*', lhs)
            tname = ' '.join(lhs.replace('*', ' ').split()[:-1]) or 'object'
            body = '%s = __decl__(%r, %s)' % (ids[-1], tname, rhs.strip())
        else:
            body = 'pass'
    # casts
    body = re.sub(r'<\s*([A-Za-z_]\w*(?:\s+[A-Za-z_]\w*)*)\s*>\s*(?=[A-Za-z_(])', lambda mm: '__cast__%s ** ' % '_'.join(mm.group(1).split()), body)
    # address-of
    body = re.sub(r'(?<=[(,=])\s*&\s*(?=[A-Za-z_])', ' ', body)
    return ind + body


class Facts:
    def __init__(self):
        self.effects, self.returns, self.raises, self.loops, self.news = [], [], [], {}, {}
        self.problems = []


class SymInterp:
    """Symbolic interpretation of one template function.  Values are nested tuples (structural equality)."""

    def __init__(self, what):
        self.what = what
        self.f = Facts()
        self.ctx = ()
        self.nid = 0

    def fresh(self):
        self.nid += 1
        return self.nid

    def run(self, fn):
        env = {a.arg: ('param', a.arg) for a in fn.args.args}
        self.block(fn.body, env)
        return self.f

    def block(self, stmts, env):
        for s in stmts:
            if self.stmt(s, env) == 'stop':
                return 'stop'
        return None

    # ------------------------------------------------------------------ expressions
    def ev(self, e, env):
        if isinstance(e, ast.Constant):
            return ('const', e.value)
        if isinstance(e, ast.Name):
            if e.id in env:
                return env[e.id]
            return ('global', e.id)
        if isinstance(e, ast.Tuple):
            return ('tuple',) + tuple(self.ev(x, env) for x in e.elts)
        if isinstance(e, ast.Attribute):
            return ('attr', self.ev(e.value, env), e.attr)
        if isinstance(e, ast.BinOp) and isinstance(e.op, ast.Pow) and isinstance(e.left, ast.Name) and e.left.id.startswith('__cast__'):
            return ('cast', e.left.id[len('__cast__'):], self.ev(e.right, env))
        if isinstance(e, ast.BinOp):
            return ('binop', type(e.op).__name__, self.ev(e.left, env), self.ev(e.right, env))
        if isinstance(e, ast.UnaryOp):
            return ('unop', type(e.op).__name__, self.ev(e.operand, env))
        if isinstance(e, ast.Compare) and len(e.ops) == 1:
            return ('cmp', type(e.ops[0]).__name__, self.ev(e.left, env), self.ev(e.comparators[0], env))
        if isinstance(e, ast.BoolOp):
            return ('bool', type(e.op).__name__) + tuple(self.ev(v, env) for v in e.values)
        if isinstance(e, ast.IfExp):
            return ('ifexp', self.ev(e.test, env), self.ev(e.body, env), self.ev(e.orelse, env))
        if isinstance(e, ast.Subscript):
            base = self.ev(e.value, env)
            idx = self.ev(e.slice, env)
            if isinstance(e.value, ast.Name) and e.value.id not in env:
                return ('template', e.value.id, idx)                    # pair[X,Y] / vector[X]: a type expression
            return ('index', base, idx)
        if isinstance(e, ast.Dict) and not e.keys:
            n = self.fresh()
            self.f.news[n] = ('dict', None)
            return ('new', 'dict', n)
        if isinstance(e, (ast.SetComp, ast.ListComp, ast.GeneratorExp)) and len(e.generators) == 1 and not e.generators[0].ifs:
            g = e.generators[0]
            lid = self.fresh()
            src = self.ev(g.iter, env)
            self.f.loops[lid] = {'kind': 'forin', 'source': src, 'ctx': self.ctx}
            env2 = dict(env)
            self.bind(g.target, ('elem', src, lid), env2)
            return ({ast.SetComp: 'setcomp', ast.ListComp: 'listcomp', ast.GeneratorExp: 'genexp'}[type(e)], self.ev(e.elt, env2), src, lid)
        if isinstance(e, ast.JoinedStr):
            return ('text',)
        if isinstance(e, ast.Call):
            return self.call(e, env)
        raise AnalysisError('%s: expression %s is not modelled' % (self.what, ast.unparse(e)[:60]))

    def call(self, e, env):
        args = tuple(self.ev(a, env) for a in e.args)
        f = e.func
        if isinstance(f, ast.Name) and f.id == '__decl__':
            return ('decl', args[0][1], args[1])
        if isinstance(f, ast.Name) and f.id == 'range':
            return ('range',) + args
        if isinstance(f, ast.Name) and f.id in ('PyList_New', 'PyTuple_New') and len(args) == 1:
            n = self.fresh()
            self.f.news[n] = ('list' if f.id == 'PyList_New' else 'tuple', args[0])
            return ('new', self.f.news[n][0], n)
        fv = self.ev(f, env)
        # cython.operator.dereference(it) on an iterator position
        if fv == ('attr', ('attr', ('global', 'cython'), 'operator'), 'dereference') and len(args) == 1 and args[0][0] == 'pos':
            return ('elem', args[0][1], args[0][2])
        if fv[0] == 'attr' and fv[2] == 'size' and not args:
            return ('size', fv[1])
        if fv[0] == 'attr' and fv[2] == 'begin' and not args:
            return ('begin', fv[1])
        if fv[0] == 'attr' and fv[2] == 'end' and not args:
            return ('end', fv[1])
        return ('call', fv) + args

    # ------------------------------------------------------------------ statements
    def bind(self, target, v, env):
        if isinstance(target, ast.Name):
            env[target.id] = v
        elif isinstance(target, (ast.Tuple, ast.List)):
            n = len(target.elts)
            for i, t in enumerate(target.elts):
                self.bind(t, ('unpack', v, i, n), env)
        else:
            raise AnalysisError('%s: binding target %s is not modelled' % (self.what, ast.unparse(target)))

    def effect(self, op, *args):
        self.f.effects.append((op, args, self.ctx))

    def stmt(self, s, env):
        if isinstance(s, ast.Pass):
            return None
        if isinstance(s, ast.Assign) and len(s.targets) == 1:
            v = self.ev(s.value, env)
            t = s.targets[0]
            if isinstance(t, (ast.Name, ast.Tuple, ast.List)):
                self.bind(t, v, env)
            elif isinstance(t, ast.Attribute):
                self.effect('attrset', self.ev(t.value, env), t.attr, v)
            elif isinstance(t, ast.Subscript):
                self.effect('setitem', self.ev(t.value, env), self.ev(t.slice, env), v)
            else:
                raise AnalysisError('%s: assignment %s is not modelled' % (self.what, ast.unparse(s)[:60]))
            return None
        if isinstance(s, ast.AugAssign) and isinstance(s.target, ast.Name) and isinstance(s.op, (ast.Add, ast.Sub)):
            cur = env.get(s.target.id)
            inc = self.ev(s.value, env)
            if cur is not None and cur[0] == 'count' and isinstance(s.op, ast.Add) and inc == ('const', 1) and self.ctx and self.ctx[-1] == ('loop', cur[1]):
                env[s.target.id] = ('count+1', cur[1], cur[2])
            else:
                env[s.target.id] = ('binop', type(s.op).__name__, cur, inc)
            return None
        if isinstance(s, ast.Expr):
            if isinstance(s.value, ast.Constant):
                return None
            v = self.ev(s.value, env)
            if v[0] == 'call':
                fv, args = v[1], v[2:]
                if fv[0] == 'global':
                    self.effect(fv[1], *args)
                elif fv == ('attr', ('attr', ('global', 'cython'), 'operator'), 'preincrement'):
                    self.effect('advance', *args)
                elif fv[0] == 'attr':
                    self.effect('method:' + fv[2], fv[1], *args)
                else:
                    self.effect('call', fv, *args)
            return None
        if isinstance(s, ast.Return):
            self.f.returns.append((self.ev(s.value, env) if s.value is not None else None, self.ctx))
            return 'stop' if not self.ctx else None
        if isinstance(s, ast.Raise):
            exc = s.exc.func.id if isinstance(s.exc, ast.Call) and isinstance(s.exc.func, ast.Name) else (s.exc.id if isinstance(s.exc, ast.Name) else '?')
            self.f.raises.append((exc, self.ctx))
            return None
        if isinstance(s, ast.If):
            cond = self.ev(s.test, env)
            saved = self.ctx
            self.ctx = saved + (('if', cond),)
            env2 = dict(env)
            self.block(s.body, env2)
            self.ctx = saved + (('else', cond),)
            env3 = dict(env)
            self.block(s.orelse, env3)
            self.ctx = saved
            for k in set(env2) | set(env3):
                if env2.get(k) == env3.get(k):
                    env[k] = env2.get(k)
                elif env2.get(k) != env.get(k) or env3.get(k) != env.get(k):
                    env[k] = ('phi', cond, env2.get(k), env3.get(k))
            return None
        if isinstance(s, ast.For) and not s.orelse:
            it = self.ev(s.iter, env)
            lid = self.fresh()
            saved = self.ctx
            if it[0] == 'range':
                self.f.loops[lid] = {'kind': 'range', 'args': it[1:], 'ctx': saved}
                self.bind(s.target, ('idx', lid), env)
            else:
                self.f.loops[lid] = {'kind': 'forin', 'source': it, 'ctx': saved}
                self.bind(s.target, ('elem', it, lid), env)
            self.loop_body(s.body, env, lid, saved)
            return None
        if isinstance(s, ast.While) and not s.orelse:
            cond = _norm(self.ev(s.test, env))
            lid = self.fresh()
            saved = self.ctx
            if cond[0] == 'cmp' and cond[1] == 'NotEq' and cond[2][0] == 'begin' and cond[3][0] == 'end' and cond[2][1] == cond[3][1] and isinstance(s.test.left, ast.Name):
                self.f.loops[lid] = {'kind': 'iter', 'source': cond[2][1], 'ctx': saved, 'var': s.test.left.id}
                env[s.test.left.id] = ('pos', cond[2][1], lid)
            else:
                raise AnalysisError('%s: while loop with condition %s is not modelled' % (self.what, ast.unparse(s.test)))
            self.loop_body(s.body, env, lid, saved)
            return None
        raise AnalysisError('%s: statement %s is not modelled' % (self.what, ast.unparse(s)[:60]))

    def loop_body(self, body, env, lid, saved):
        # counters: `x += 1` at the top level of the body with a known constant start
        counters = {}
        for st in body:
            if isinstance(st, ast.AugAssign) and isinstance(st.target, ast.Name) and isinstance(st.op, ast.Add) and isinstance(st.value, ast.Constant) and st.value.value == 1:
                init = env.get(st.target.id)
                if init is not None and init[0] == 'decl':
                    init = init[2]
                if init is not None and init[0] == 'const' and isinstance(init[1], int):
                    counters[st.target.id] = init[1]
        for k, c0 in counters.items():
            env[k] = ('count', lid, c0)
        self.f.loops[lid]['counters'] = dict(counters)
        self.ctx = saved + (('loop', lid),)
        for st in body:
            if isinstance(st, (ast.Break, ast.Continue)):
                self.f.problems.append('a %s inside a conversion loop' % type(st).__name__.lower())
                continue
            self.stmt(st, env)
        self.ctx = saved
        for k, c0 in counters.items():
            env[k] = ('total', lid, c0)


# ---------------------------------------------------------------------------------------------- specifications
def _strip_decl(v):
    while isinstance(v, tuple) and v and v[0] == 'decl':
        v = v[2]
    return v


def _norm(v):
    """drop declaration wrappers everywhere"""
    if isinstance(v, tuple):
        if v and v[0] == 'decl':
            return _norm(v[2])
        return tuple(_norm(x) for x in v)
    return v


def _loops_of(ctx):
    return [c[1] for c in ctx if c[0] == 'loop']


def _conds_of(ctx):
    return [c for c in ctx if c[0] in ('if', 'else')]


def _size_guard(f, container):
    """a top-level `if <container>.size() > <size_t> PY_SSIZE_T_MAX: raise MemoryError()`"""
    for exc, ctx in f.raises:
        if exc == 'MemoryError' and len(ctx) == 1 and ctx[0][0] == 'if':
            c = _norm(ctx[0][1])
            if c[0] == 'cmp' and c[1] in ('Gt', 'GtE') and c[2] == ('size', container) and 'PY_SSIZE_T_MAX' in repr(c[3]):
                return True
    return False


def _ret(f, what, probs):
    rets = [r for r, ctx in f.returns if not ctx]
    if len(rets) != 1 or len(f.returns) != 1:
        probs.append('%s does not end in exactly one unconditional return' % what)
        return None
    return _norm(rets[0])


def _ctor(v, name, nargs):
    """v = <name>[..](args) -> args or None"""
    if v and v[0] == 'call' and len(v) == 2 + nargs:
        f = v[1]
        if (f[0] == 'template' and f[1] == name) or f == ('global', name):
            return v[2:]
    return None


def spec_seq_from(f, what, param, methods, elem_type='X'):
    probs = list(f.problems)
    ret = _ret(f, what, probs)
    adds = [e for e in f.effects if e[0].startswith('method:') and e[0].split(':')[1] in methods]
    loops = [l for l, d in f.loops.items() if d['kind'] == 'forin' and _norm(d['source']) == ('param', param) and not d['ctx']]
    if len(loops) != 1:
        probs.append('%s does not iterate its argument in exactly one top-level loop' % what)
        return probs
    lid = loops[0]
    if len(adds) != 1:
        probs.append('%s performs %d insertions (%s) instead of one per item' % (what, len(adds), '/'.join(methods)))
        return probs
    op, args, ctx = adds[0]
    if ctx != (('loop', lid),):
        probs.append('the insertion of %s is not executed exactly once per item of the loop over its argument' % what)
    want = ('cast', elem_type, ('elem', ('param', param), lid))
    if _norm(args[1]) != want:
        probs.append('%s inserts %s instead of <%s>(the current item): the container does not receive the converted elements of the iterable' % (what, show(_norm(args[1])), elem_type))
    if ret is not None and ret != _norm(args[0]):
        probs.append('%s returns %s, not the container it filled' % (what, show(ret)))
    return probs


def spec_map_from(f, what):
    probs = list(f.problems)
    ret = _ret(f, what, probs)
    src = ('call', ('attr', ('param', 'o'), 'items'))
    loops = [l for l, d in f.loops.items() if d['kind'] == 'forin' and _norm(d['source']) == src and not d['ctx']]
    if len(loops) != 1:
        probs.append('%s does not loop over o.items() (the key/value pairs of the mapping)' % what)
        return probs
    lid = loops[0]
    adds = [e for e in f.effects if e[0] == 'method:insert']
    if len(adds) != 1 or adds[0][2] != (('loop', lid),):
        probs.append('%s does not insert exactly once per item' % what)
        return probs
    el = ('elem', src, lid)
    a = _ctor(_norm(adds[0][1][1]), 'pair', 2)
    want = (('cast', 'X', ('unpack', el, 0, 2)), ('cast', 'Y', ('unpack', el, 1, 2)))
    if a != want:
        probs.append('%s inserts %s instead of pair[X,Y](<X>key, <Y>value) of the current (key, value) item: keys and values of the dict do not arrive as first / second' % (what, show(_norm(adds[0][1][1]))))
    if ret is not None and ret != _norm(adds[0][1][0]):
        probs.append('%s returns %s, not the map it filled' % (what, show(ret)))
    return probs


def spec_pair_from(f, what):
    probs = list(f.problems)
    ret = _ret(f, what, probs)
    if ret is None:
        return probs
    a = _ctor(ret, 'pair', 2)
    o = ('param', 'o')
    if a != (('cast', 'X', ('unpack', o, 0, 2)), ('cast', 'Y', ('unpack', o, 1, 2))):
        probs.append('%s returns %s instead of pair[X,Y](<X>(first of o), <Y>(second of o))' % (what, show(ret)))
    return probs


def spec_complex_from(f, what):
    probs = list(f.problems)
    ret = _ret(f, what, probs)
    if ret is None:
        return probs
    a = _ctor(ret, 'std_complex', 2)
    o = ('param', 'o')
    if a != (('cast', 'X', ('attr', o, 'real')), ('cast', 'X', ('attr', o, 'imag'))):
        probs.append('%s returns %s instead of std_complex[X](<X>z.real, <X>z.imag)' % (what, show(ret)))
    return probs


def spec_string_from(f, what):
    probs = list(f.problems)
    rets = [(r, ctx) for r, ctx in f.returns]
    if len(rets) != 1:
        probs.append('%s does not end in one return' % what)
        return probs
    raw = rets[0][0]
    a = _ctor(_norm(raw), 'string', 2)
    if a is None:
        probs.append('%s returns %s instead of string(data, length): without the length, bytes behind an embedded NUL are lost' % (what, show(_norm(raw))))
        return probs
    data, length = a
    if not (data[0] == 'call' and data[1][0] == 'global' and 'AsStringAndSize' in data[1][1] and data[2] == ('param', 'o')):
        probs.append('%s does not take the buffer from __Pyx_PyObject_AsStringAndSize(o, &length)' % what)
        return probs
    # the length variable handed to the helper is the one used for the constructor
    if length[0] != 'cast' or length[2] != data[3]:
        probs.append('%s passes %s as size, not the length variable the buffer helper filled (%s)' % (what, show(length), show(data[3])))
    return probs


def spec_indexed_to(f, what, kind, size_of, source, need_guard):
    """new list/tuple of size N; for I in range(N): INCREF(src[I]); SET_ITEM(new, I, src[I]); return new.   size_of(N) checks N; source(I) is the element read."""
    probs = list(f.problems)
    ret = _ret(f, what, probs)
    if ret is None:
        return probs
    if not (ret[0] == 'new' and ret[1] == kind):
        probs.append('%s does not return a new %s' % (what, kind))
        return probs
    n = _norm(f.news[ret[2]][1])
    if not size_of(n):
        probs.append('%s allocates the %s with %s slots, not the element count' % (what, kind, show(n)))
    sets = [e for e in f.effects if e[0].endswith('_SET_ITEM')]
    if len(sets) != 1:
        probs.append('%s has %d SET_ITEM calls' % (what, len(sets)))
        return probs
    op, args, ctx = sets[0]
    lids = _loops_of(ctx)
    if len(ctx) != 1 or len(lids) != 1:
        probs.append('the SET_ITEM of %s is not executed exactly once per position' % what)
        return probs
    lid = lids[0]
    loop = f.loops[lid]
    tgt, idx, val = (_norm(a) for a in args)
    if tgt != ret:
        probs.append('%s stores the items into %s, not into the %s it returns' % (what, show(tgt), kind))
    if loop['kind'] == 'range':
        rargs = tuple(_norm(a) for a in loop['args'])
        if not (len(rargs) == 1 and rargs[0] == n or len(rargs) == 2 and rargs[0] == ('const', 0) and rargs[1] == n):
            probs.append('%s fills the slots range(%s) of a %s with %s slots: the remaining slots stay NULL (or the loop overruns)' % (what, ', '.join(show(a) for a in rargs), kind, show(n)))
        if idx != ('idx', lid):
            probs.append('%s stores every element into slot %s instead of the slot of the loop index' % (what, show(idx)))
        if val != source(('idx', lid)) and val != source(('cast', 'size_t', ('idx', lid))):
            probs.append('%s stores %s into slot I, not element I of the source' % (what, show(val)))
    elif loop['kind'] in ('iter', 'forin'):
        if idx[0] != 'count' or idx[1] != lid or idx[2] != 0:
            probs.append('%s stores the elements at index %s, which is not a counter that starts at 0 and is incremented once per element after the store: slots stay NULL / items are overwritten' % (what, show(idx)))
        if val != source(lid):
            probs.append('%s stores %s, not the element at the iterator position' % (what, show(val)))
        adv = [e for e in f.effects if e[0] == 'advance' and e[2] == (('loop', lid),)]
        if loop['kind'] == 'iter' and len(adv) != 1:
            probs.append('%s advances its iterator %d times per element' % (what, len(adv)))
    else:
        probs.append('%s fills the %s in a loop that is neither an index range nor an iterator walk' % (what, kind))
    # the reference handed to the stealing SET_ITEM must have been INCREF'ed in the same iteration, before
    k = f.effects.index(sets[0])
    inc = [e for e in f.effects[:k] if e[0] == 'Py_INCREF' and e[2] == ctx and _norm(e[1][0]) == val]
    if len(inc) != 1:
        probs.append('%s hands the item to %s (which steals a reference) %s Py_INCREF of that item in the same iteration: %s' % (
            what, op, 'without a' if not inc else 'after %d' % len(inc), 'the list ends up with references it does not own (elements freed while referenced)' if not inc else 'the items leak'))
    if need_guard is not None and not _size_guard(f, need_guard):
        probs.append('%s casts size() to Py_ssize_t without the `size() > PY_SSIZE_T_MAX -> MemoryError` check' % what)
    return probs


def show(v):
    if not isinstance(v, tuple) or not v:
        return repr(v)
    k = v[0]
    if k == 'param' or k == 'global':
        return v[1]
    if k == 'const':
        return repr(v[1])
    if k == 'cast':
        return '<%s>%s' % (v[1], show(v[2]))
    if k == 'attr':
        return '%s.%s' % (show(v[1]), v[2])
    if k == 'unpack':
        return '%s[%d of %d]' % (show(v[1]), v[2], v[3])
    if k == 'elem':
        return 'item(%s)' % show(v[1])
    if k == 'idx':
        return 'I'
    if k == 'size':
        return '%s.size()' % show(v[1])
    if k == 'index':
        return '%s[%s]' % (show(v[1]), show(v[2]))
    if k == 'call':
        return '%s(%s)' % (show(v[1]), ', '.join(show(a) for a in v[2:]))
    if k == 'template':
        return '%s[..]' % v[1]
    if k == 'tuple':
        return '(%s)' % ', '.join(show(a) for a in v[1:])
    if k in ('count', 'count+1', 'total'):
        return {'count': 'n', 'count+1': 'n+1', 'total': 'N'}[k]
    if k == 'new':
        return 'new %s' % v[1]
    return '%s(%s)' % (k, ', '.join(show(a) for a in v[1:]))


def shape_checks():
    """section -> list of (function index or None, spec(f, what) -> problems)"""
    ssize = lambda c: (lambda n: n == ('cast', 'Py_ssize_t', ('size', c)))
    v, s = ('param', 'v'), ('param', 's')
    return {
        ('CppConvert.pyx', 'vector.from_py'): [lambda f, w: spec_seq_from(f, w, 'o', ('push_back',))],
        ('CppConvert.pyx', 'list.from_py'): [lambda f, w: spec_seq_from(f, w, 'o', ('push_back',))],
        ('CppConvert.pyx', 'set.from_py'): [lambda f, w: spec_seq_from(f, w, 'o', ('insert',))],
        ('CppConvert.pyx', 'map.from_py'): [spec_map_from],
        ('CppConvert.pyx', 'pair.from_py'): [spec_pair_from],
        ('CppConvert.pyx', 'complex.from_py'): [spec_complex_from],
        ('CppConvert.pyx', 'string.from_py'): [spec_string_from],
        ('CppConvert.pyx', 'vector.to_py'): [lambda f, w: spec_indexed_to(f, w, 'list', ssize(v), lambda i: ('index', v, i), v)],
        ('CppConvert.pyx', 'list.to_py'): [lambda f, w: spec_indexed_to(f, w, 'list', ssize(v), lambda lid: ('elem', v, lid), v)],
        ('CppConvert.pyx', 'set.to_py'): [spec_set_to],
        ('CppConvert.pyx', 'pair.to_py'): [spec_pair_to],
        ('CppConvert.pyx', 'map.to_py'): [spec_map_to],
        ('CppConvert.pyx', 'complex.to_py'): [spec_complex_to],
        ('CppConvert.pyx', 'string.to_py'): [spec_string_to],
        ('CConvert.pyx', 'carray.to_py'): [lambda f, w: spec_indexed_to(f, w, 'list', lambda n: n == ('param', 'length'), lambda i: ('index', v, i), None),
                                           lambda f, w: spec_indexed_to(f, w, 'tuple', lambda n: n == ('param', 'length'), lambda i: ('index', v, i), None)],
    }


def spec_set_to(f, what):
    probs = list(f.problems)
    ret = _ret(f, what, probs)
    if ret is None:
        return probs
    s = ('param', 's')
    if not (ret[0] == 'setcomp' and ret[2] == s and ret[1] == ('elem', s, ret[3])):
        probs.append('%s returns %s instead of the set of all elements of s' % (what, show(ret)))
    return probs


def spec_pair_to(f, what):
    probs = list(f.problems)
    ret = _ret(f, what, probs)
    p = ('param', 'p')
    if ret is not None and ret != ('tuple', ('attr', p, 'first'), ('attr', p, 'second')):
        probs.append('%s returns %s instead of (p.first, p.second)' % (what, show(ret)))
    return probs


def spec_map_to(f, what):
    probs = list(f.problems)
    ret = _ret(f, what, probs)
    if ret is None:
        return probs
    s = ('param', 's')
    if not (ret[0] == 'new' and ret[1] == 'dict'):
        probs.append('%s does not return a new dict' % what)
        return probs
    sets = [e for e in f.effects if e[0] == 'setitem']
    loops = [l for l, d in f.loops.items() if d['kind'] == 'iter' and _norm(d['source']) == s and not d['ctx']]
    if len(loops) != 1 or len(sets) != 1 or sets[0][2] != (('loop', loops[0]),):
        probs.append('%s does not store exactly one item per position of a begin()..end() walk over s' % what)
        return probs
    lid = loops[0]
    tgt, key, val = (_norm(a) for a in sets[0][1])
    el = ('elem', s, lid)
    if tgt != ret or key != ('attr', el, 'first') or val != ('attr', el, 'second'):
        probs.append('%s stores o[%s] = %s instead of o[first] = second of the current element: keys and values are not preserved' % (what, show(key), show(val)))
    adv = [e for e in f.effects if e[0] == 'advance' and e[2] == (('loop', lid),)]
    if len(adv) != 1:
        probs.append('%s advances its iterator %d times per element' % (what, len(adv)))
    return probs


def spec_complex_to(f, what):
    probs = list(f.problems)
    ret = _ret(f, what, probs)
    if ret is None:
        return probs
    z = ('param', 'z')
    sets = {e[1][1]: _norm(e[1][2]) for e in f.effects if e[0] == 'attrset' and _norm(e[1][0]) == ret and not e[2]}
    for part in ('real', 'imag'):
        want = ('cast', 'double', ('call', ('attr', z, part)))
        if sets.get(part) != want:
            probs.append('%s sets the %s part of the result to %s instead of <double>z.%s()' % (what, part, show(sets.get(part)) if part in sets else 'nothing', part))
    return probs


def spec_string_to(f, what):
    probs = list(f.problems)
    ret = _ret(f, what, probs)
    if ret is None:
        return probs
    s = ('param', 's')
    ok = ret[0] == 'call' and ret[1][0] == 'global' and ret[1][1].endswith('_FromStringAndSize') and len(ret) == 4 and \
        ret[2] == ('call', ('attr', s, 'data')) and ret[3] == ('cast', 'Py_ssize_t', ('size', s))
    if not ok:
        probs.append('%s returns %s instead of <FromStringAndSize>(s.data(), <Py_ssize_t> s.size())' % (what, show(ret)))
    if not _size_guard(f, s):
        probs.append('%s casts s.size() to Py_ssize_t without the `s.size() > PY_SSIZE_T_MAX -> MemoryError` check: an oversized string yields a negative length' % what)
    return probs


# ---------------------------------------------------------------------------------------------- carray.from_py: small-scope interpretation
class _Break(Exception):
    pass


class _Ret(Exception):
    def __init__(self, v):
        self.v = v


class _PyExc(Exception):
    def __init__(self, name):
        self.name = name


class ModelIterable:
    def __init__(self, n, has_len):
        self.items, self.has_len = ['item%d' % i for i in range(n)], has_len


class ModelArray:
    def __init__(self, length):
        self.length, self.stores, self.oob = length, {}, []


class TinyPy:
    """Concrete interpretation of carray.from_py on model arguments (a C array that records its stores, an iterable with / without len())."""

    def __init__(self, what):
        self.what = what
        self.raised = None

    def run(self, fn, args):
        env = dict(args)
        try:
            self.block(fn.body, env)
        except _Ret as r:
            return ('return', r.v)
        except _PyExc as e:
            return ('raise', e.name)
        return ('fall-off', None)

    def block(self, stmts, env):
        for s in stmts:
            self.stmt(s, env)

    def ev(self, e, env):
        if isinstance(e, ast.Constant):
            return e.value
        if isinstance(e, ast.Name):
            if e.id in env:
                return env[e.id]
            return ('global', e.id)
        if isinstance(e, ast.Tuple):
            return tuple(self.ev(x, env) for x in e.elts)
        if isinstance(e, ast.BinOp) and isinstance(e.op, ast.Pow) and isinstance(e.left, ast.Name) and e.left.id.startswith('__cast__'):
            return self.ev(e.right, env)
        if isinstance(e, ast.BinOp) and isinstance(e.op, (ast.Add, ast.Sub)):
            a, b = self.ev(e.left, env), self.ev(e.right, env)
            if isinstance(a, int) and isinstance(b, int):
                return a + b if isinstance(e.op, ast.Add) else a - b
        if isinstance(e, ast.UnaryOp) and isinstance(e.op, ast.Not):
            return not self.ev(e.operand, env)
        if isinstance(e, ast.BoolOp):
            vs = [self.ev(v, env) for v in e.values]
            return all(vs) if isinstance(e.op, ast.And) else any(vs)
        if isinstance(e, ast.IfExp):
            return self.ev(e.body if self.ev(e.test, env) else e.orelse, env)
        if isinstance(e, ast.Compare) and len(e.ops) == 1:
            a, b = self.ev(e.left, env), self.ev(e.comparators[0], env)
            if isinstance(a, int) and isinstance(b, int):
                op = e.ops[0]
                return {ast.Eq: a == b, ast.NotEq: a != b, ast.Lt: a < b, ast.LtE: a <= b, ast.Gt: a > b, ast.GtE: a >= b}[type(op)]
        if isinstance(e, ast.Call) and isinstance(e.func, ast.Name):
            args = [self.ev(a, env) for a in e.args]
            f = e.func.id
            if f == '__decl__':
                return args[1]
            if f == 'len' and isinstance(args[0], ModelIterable):
                if not args[0].has_len:
                    raise _PyExc('TypeError')
                return len(args[0].items)
            if f == 'enumerate' and isinstance(args[0], ModelIterable):
                return list(enumerate(args[0].items))
            if f == 'PyErr_Format':
                if isinstance(args[0], tuple) and args[0][0] == 'global':
                    raise _PyExc(args[0][1])
        raise AnalysisError('%s: expression %s is not modelled' % (self.what, ast.unparse(e)[:60]))

    def stmt(self, s, env):
        if isinstance(s, ast.Pass):
            return
        if isinstance(s, ast.Assign) and len(s.targets) == 1:
            v = self.ev(s.value, env)
            t = s.targets[0]
            if isinstance(t, ast.Name):
                env[t.id] = v
                return
            if isinstance(t, ast.Subscript):
                arr, idx = self.ev(t.value, env), self.ev(t.slice, env)
                if isinstance(arr, ModelArray) and isinstance(idx, int):
                    if 0 <= idx < arr.length:
                        arr.stores[idx] = v
                    else:
                        arr.oob.append(idx)
                    return
        elif isinstance(s, ast.AugAssign) and isinstance(s.target, ast.Name) and isinstance(s.op, (ast.Add, ast.Sub)):
            a, b = env[s.target.id], self.ev(s.value, env)
            env[s.target.id] = a + b if isinstance(s.op, ast.Add) else a - b
            return
        elif isinstance(s, ast.Expr):
            if isinstance(s.value, ast.Constant):
                return
            self.ev(s.value, env)
            return
        elif isinstance(s, ast.If):
            self.block(s.body if self.ev(s.test, env) else s.orelse, env)
            return
        elif isinstance(s, ast.Return):
            raise _Ret(self.ev(s.value, env) if s.value is not None else None)
        elif isinstance(s, ast.Break):
            raise _Break()
        elif isinstance(s, ast.Try) and not s.finalbody and not s.orelse:
            try:
                self.block(s.body, env)
            except _PyExc as e:
                for h in s.handlers:
                    names = [h.type.id] if isinstance(h.type, ast.Name) else [x.id for x in h.type.elts] if isinstance(h.type, ast.Tuple) else []
                    if e.name in names or h.type is None:
                        self.block(h.body, env)
                        return
                raise
            return
        elif isinstance(s, ast.For):
            seq = self.ev(s.iter, env)
            if isinstance(seq, ModelIterable):
                seq = list(seq.items)
            if isinstance(seq, list):
                broke = False
                for x in seq:
                    if isinstance(s.target, ast.Name):
                        env[s.target.id] = x
                    elif isinstance(s.target, ast.Tuple) and isinstance(x, tuple) and len(x) == len(s.target.elts):
                        for t, y in zip(s.target.elts, x):
                            env[t.id] = y
                    else:
                        raise AnalysisError('%s: loop target %s is not modelled' % (self.what, ast.unparse(s.target)))
                    try:
                        self.block(s.body, env)
                    except _Break:
                        broke = True
                        break
                if not broke:
                    self.block(s.orelse, env)
                return
        raise AnalysisError('%s: statement %s is not modelled' % (self.what, ast.unparse(s)[:60]))


def carray_from_problems(fn):
    probs, n = [], 0
    params = [a.arg for a in fn.args.args]
    if len(params) != 3:
        raise AnalysisError('C33-SHAPE: carray.from_py no longer takes (o, v, length)')
    for length in (1, 2, 3):
        for count in range(0, 5):
            for has_len in (True, False):
                n += 1
                arr, it = ModelArray(length), ModelIterable(count, has_len)
                res = TinyPy('carray.from_py').run(fn, {params[0]: it, params[1]: arr, params[2]: length})
                desc = 'array length %d, iterable of %d items %s len()' % (length, count, 'with' if has_len else 'without')
                if arr.oob:
                    probs.append(('overrun', '%s: writes v[%s], outside the C array' % (desc, arr.oob[0])))
                if count == length:
                    if res != ('return', 0):
                        probs.append(('exact', '%s: does not return 0 (%s): a correctly sized sequence is rejected' % (desc, res)))
                    elif any(arr.stores.get(i) != 'item%d' % i for i in range(length)):
                        probs.append(('copy', '%s: the array receives %s instead of item i in v[i]' % (desc, arr.stores)))
                else:
                    if res[0] == 'return':
                        probs.append(('size', '%s: returns %r instead of raising IndexError: a sequence of the wrong size is converted' % (desc, res[1])))
                    elif res != ('raise', 'IndexError'):
                        probs.append(('size', '%s: ends with %s instead of IndexError' % (desc, res)))
    return n, probs


def rule_shape(ctx):
    r = Rule('C33-SHAPE', 'conversion templates of CppConvert.pyx / CConvert.pyx have the shape of the conversion they implement (symbolic interpretation: every element exactly once, '
                          'key/value and first/second roles, casts to the element types, slot I <- element I, INCREF before the stealing SET_ITEM, size range check; carray.from_py for '
                          'lengths 1..3 x 0..4 items)', floor=40)
    srcs = {'CppConvert.pyx': ctx.read(CPPCONV), 'CConvert.pyx': ctx.read(CCONV)}
    secs = {k: pyx_sections(v) for k, v in srcs.items()}
    rel = {'CppConvert.pyx': CPPCONV, 'CConvert.pyx': CCONV}
    for (fname, sname), specs in sorted(shape_checks().items()):
        if sname not in secs[fname]:
            raise AnalysisError('C33-SHAPE: section %s missing from %s' % (sname, fname))
        text, line = secs[fname][sname]
        fns = template_functions(text)
        if len(fns) != len(specs):
            raise AnalysisError('C33-SHAPE: section %s of %s has %d functions, %d expected' % (sname, fname, len(fns), len(specs)))
        for (name, fn, off), spec in zip(fns, specs):
            key = '%s:%s%s' % (fname, sname, ':%d' % fns.index((name, fn, off)) if len(fns) > 1 else '')
            what = '%s (%s)' % (sname, fname)
            facts = SymInterp(what).run(fn)
            r.inst(key, sample='%s: %d effects, %d loops' % (key, len(facts.effects), len(facts.loops)))
            probs = spec(facts, what)
            if probs:
                r.violate(key, rel[fname], line + off, probs[0])
    # carray.from_py
    text, line = secs['CConvert.pyx'].get('carray.from_py', (None, 0))
    if text is None:
        raise AnalysisError('C33-SHAPE: section carray.from_py missing from CConvert.pyx')
    fns = template_functions(text)
    if len(fns) != 1:
        raise AnalysisError('C33-SHAPE: carray.from_py has %d functions' % len(fns))
    n, probs = carray_from_problems(fns[0][1])
    for i in range(n):
        r.inst('CConvert.pyx:carray.from_py:case%d' % i)
    seen = set()
    for k, what in probs:
        if k in seen:
            continue
        seen.add(k)
        r.violate('CConvert.pyx:carray.from_py:%s' % k, CCONV, line + fns[0][2], 'carray.from_py, %s' % what)
    # positive control: a map.to_py that stores second under first swapped
    pc = template_functions('cdef object f(const map[X,Y]& s):\n    o = {}\n    cdef map[X,Y].const_iterator iter = s.begin()\n    while iter != s.end():\n'
                            '        kv = &cython.operator.dereference(iter)\n        o[kv.second] = kv.first\n        cython.operator.preincrement(iter)\n    return o\n')
    r.positive_control(bool(spec_map_to(SymInterp('pc').run(pc[0][1]), 'pc')), 'map.to_py storing o[second] = first')
    return r


# ====================================================================================== C33-OUTLEN / C33-NEGCHK (fourth round)
"""C33-OUTLEN — a C helper with a `Py_ssize_t *` out-parameter (the byte length that accompanies a returned buffer) stores through it, or
hands it to a callee, on every path that returns something other than the error value NULL / -1.
C33-NEGCHK — in TypeConversion.c the result of a call that returns a negative value exactly on failure (sizes, lengths, truth values,
PyBytes_AsStringAndSize, the file's own __Pyx_ssize_strlen) is tested before its first use: the test is true for -1, false for 0 and for a
positive value, and its true branch leaves the function."""
from . import pC35 as _cfg

STRICT_NEG = {     # CPython C-API: negative exactly on error (documented), never a legitimate result
    'PyBytes_AsStringAndSize', 'PyByteArray_Size', 'PyUnicode_GetLength', 'PyObject_IsTrue', 'PyObject_RichCompareBool', 'PyObject_Size', 'PyObject_Length',
    'PySequence_Size', 'PyList_Size', 'PyTuple_Size', 'PyDict_Size', 'PyBytes_Size', 'PyObject_Not', 'PySequence_Contains', 'PyDict_Contains', 'PySet_Contains',
}


def _tc_functions(ctx, predicate):
    for name in sorted(ctx.cat.decls):
        for d in ctx.cat.decls[name]:
            if d.kind == 'func' and d.body and d.file == 'TypeConversion.c' and predicate(d):
                yield name, d


def outlen_problems(body, pname):
    variants = _cfg.pp_variants(body)
    if variants is None:
        return None
    probs = []
    store = re.compile(r'(?<![\w.>])\*\s*%s\s*=(?!=)' % re.escape(pname))
    passed = re.compile(r'[(,]\s*%s\s*[,)]' % re.escape(pname))

    def transfer(kind, text, st):
        if store.search(text) or passed.search(text):
            return ['set']
        return [st]
    for label, text in variants:
        cfg = _cfg.CFG(text)
        for node, st in _cfg.run_dataflow(cfg, 'unset', transfer):
            t = node.text.strip()
            if not t:
                continue
            val = _cfg.strip_likely(t)
            if re.fullmatch(r'NULL|0|-1|\(\s*[\w\s\*]+\)\s*(?:NULL|0|-1)', val):
                continue
            if st != 'set' and not passed.search('(' + t + ')') and not store.search(t):
                probs.append('`return %s` [%s]' % (t, label))
    return sorted(set(probs))


def rule_outlen(ctx):
    r = Rule('C33-OUTLEN', 'TypeConversion.c helpers with a Py_ssize_t* out-parameter store the length (or pass the pointer on) on every path that returns a buffer', floor=2)
    for name, d in _tc_functions(ctx, lambda d: d.params is not None):
        for ptype, pname in zip(d.param_types(), d.param_names()):
            if ptype != 'Py_ssize_t *' or not pname or d.ret is None or 'void' == d.ret.strip():
                continue
            key = 'TypeConversion.c:%s:%s' % (name, pname)
            if '{{' in d.body:
                r.info('%s: Tempita-templated body, not analysed' % key)
                continue
            try:
                probs = outlen_problems(d.body, pname)
            except AnalysisError as e:
                r.info('%s: not analysed (%s)' % (key, e))
                continue
            if probs is None:
                r.info('%s: too many preprocessor variants' % key)
                continue
            r.inst(key, sample='%s(... Py_ssize_t *%s)' % (name, pname))
            if probs:
                r.violate(key, TCONV, d.line, '%s reaches %s without having stored *%s (and without passing %s to a callee): the caller reads an uninitialised length for the returned buffer '
                          '(std::string / bytes of arbitrary size)' % (name, '; '.join(probs[:2]), pname, pname))
    pc = '{ if (PyByteArray_Check(o)) { return PyByteArray_AS_STRING(o); } else { char *res; int r = PyBytes_AsStringAndSize(o, &res, length); if (r < 0) return NULL; return res; } }'
    r.positive_control(bool(outlen_problems(pc, 'length')), 'bytearray branch returns the buffer without storing the length')
    return r


def _own_strict_neg(ctx):
    """functions of TypeConversion.c whose negative returns are all `return -1` directly after a PyErr_Set* call, and that never return another negative constant"""
    out = set()
    for name, d in _tc_functions(ctx, lambda d: d.ret is not None and re.search(r'\b(Py_ssize_t|int)\b', d.ret or '') and '*' not in (d.ret or '')):
        negs = re.findall(r'return\s+(-\s*\d+)\s*;', d.body)
        if negs and all(n.replace(' ', '') == '-1' for n in negs) and re.search(r'PyErr_\w+\s*\([^;]*\)\s*;\s*return\s+-1\s*;', d.body) and \
                len(re.findall(r'return\s+-1\s*;', d.body)) == len(re.findall(r'PyErr_\w+\s*\([^;]*\)\s*;\s*return\s+-1\s*;', d.body)):
            out.add(name)
    return out


def negchk_problems(body, fallible):
    """-> (n sites, [problem])"""
    variants = _cfg.pp_variants(body)
    if variants is None:
        return 0, None
    n, probs = 0, []
    pat = re.compile(r'(?:^|[\s*])(\*?\s*[A-Za-z_]\w*)\s*=(?!=)\s*(?:\([^()]*\)\s*)?(%s)\s*\(' % '|'.join(re.escape(f) for f in sorted(fallible)))
    for label, text in variants:
        cfg = _cfg.CFG(text)
        for nid, node in enumerate(cfg.nodes):
            if node.kind != 'ev':
                continue
            m = pat.search(node.text)
            if not m:
                continue
            lhs, fname = ''.join(m.group(1).split()), m.group(2)
            n += 1
            use = re.compile(r'(?<![\w.>])%s(?![\w(])' % re.escape(lhs))
            seen, work = set(), list(node.succ)
            while work:
                x = work.pop()
                if x in seen:
                    continue
                seen.add(x)
                nd = cfg.nodes[x]
                if nd.kind == 'nop' or not use.search(nd.text):
                    if nd.kind == 'ret':
                        continue
                    work.extend(nd.succ)
                    continue
                if nd.kind == 'ret':
                    if _cfg.strip_likely(nd.text) == lhs:
                        continue                      # the error value is propagated as it is
                    probs.append('the result of %s (negative on failure) is used in `return %s` without a test [%s]' % (fname, nd.text, label))
                    continue
                if nd.kind == 'ev':
                    probs.append('the result of %s (negative on failure) is used in `%s` without a test [%s]' % (fname, nd.text[:60], label))
                    continue
                # a branch on the result: true for -1, false for 0 and 7, and the true branch leaves
                cond = use.sub('__v', nd.text)
                try:
                    tree = cexpr.parse(cond)
                    vals = [cexpr.evaluate(tree, {'__v': v}, calls={'unlikely': lambda a: a, 'likely': lambda a: a}) for v in (-1, 0, 7)]
                except (cexpr.ParseError, cexpr.EvalError, TypeError):
                    continue                          # a test the evaluator cannot decide: not an obligation
                tb = cfg.nodes[nd.succ[0]]
                while tb.kind == 'nop' and not tb.text.startswith('goto') and len(tb.succ) == 1:
                    tb = cfg.nodes[tb.succ[0]]
                leaves = tb.kind == 'ret' or tb.text.startswith('goto')
                if not vals[0] or vals[1]:
                    probs.append('the test `%s` after %s is %s for the error value -1 and %s for 0: %s [%s]' % (
                        nd.text, fname, 'true' if vals[0] else 'false', 'true' if vals[1] else 'false',
                        'the failure is not detected and the garbage result is used' if not vals[0] else 'a successful call is treated as a failure', label))
                elif not leaves:
                    probs.append('the error branch of `%s` after %s does not leave the function [%s]' % (nd.text, fname, label))
    return n, sorted(set(probs))


def rule_negchk(ctx):
    r = Rule('C33-NEGCHK', 'TypeConversion.c: the result of a call that is negative exactly on failure is tested (true for -1, false for 0, error branch leaves) before its first use', floor=9)
    fallible = set(STRICT_NEG) | _own_strict_neg(ctx)
    total = 0
    for name, d in _tc_functions(ctx, lambda d: True):
        if '{{' in d.body:
            continue
        try:
            n, probs = negchk_problems(d.body, fallible)
        except AnalysisError as e:
            r.info('TypeConversion.c:%s: not analysed (%s)' % (name, e))
            continue
        if probs is None:
            r.info('TypeConversion.c:%s: too many preprocessor variants' % name)
            continue
        for i in range(n):
            r.inst('TypeConversion.c:%s:site%d' % (name, i), sample='%s: %d fallible size/flag calls' % (name, n))
        total += n
        if probs:
            r.violate('TypeConversion.c:%s' % name, TCONV, d.line, '%s: %s' % (name, probs[0]))
    pc = '{ Py_ssize_t len = __Pyx_ssize_strlen(s); return PyByteArray_FromStringAndSize(s, len); }'
    pc2 = '{ int r = PyBytes_AsStringAndSize(o, &res, length); if (unlikely(r > 0)) { return NULL; } else { return res; } }'
    r.positive_control(bool(negchk_problems(pc, {'__Pyx_ssize_strlen'})[1]) and bool(negchk_problems(pc2, fallible)[1]), 'unchecked length; error test with the wrong sign')
    return r
