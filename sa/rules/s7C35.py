"""C35, seventh round: two ordering rules over the code generators (path-sensitive, engine/pyflow; nothing of the repository is run).

C35-BORROW   A C-API call that returns a *borrowed* reference (table BORROWED below, from the CPython C-API reference: "Return value:
             Borrowed reference"; a __Pyx_ macro counts when every variant of its definition in Cython/Utility is a plain call of one of
             them) and whose result is stored into a slot the generator treats as OWNED (it emits GOTREF / INCREF for it, or the slot is a
             managed temp) leaves that slot holding a pointer it does not own.  Before the generator emits anything that can fail
             (child code: generate_evaluation_code & co, an error exit that is not the NULL test of the slot itself) the slot must have become
             owned: an emitted incref of the slot, or the removal of the item from its container (`((PyVarObject*)C)->ob_size--`, the
             "steal" of starred unpacking).  Otherwise the error cleanup releases the slot AND the container releases the item: the
             object is freed while still referenced.  At the end of the function no owned slot may still be borrowed.
             #if / #else / #endif lines emitted by the generator separate the arms: a slot filled in one arm is judged in that arm.

C35-SETUP    An unmanaged temp (allocate_temp(..., manage_ref=False), local or kept in self.<attr>) for which the generator emits GOTREF
             owns a reference the function's error cleanup knows nothing about.  While it is owned, every child *expression* code
             generated and every error exit emitted (other than the NULL test of the temp itself) must run under an error label created in
             this function (code.new_error_label()), and that label must be placed (put_label) with a release of the temp, on every path
             on which it may have been used.  A child *statement* generated while a temp kept in an attribute is owned ends the obligation
             (hand-over: the nodes of the sub-tree release it, e.g. the __exit__ call of a with statement; not decided here).
"""
import ast, re

from ..core import Rule, AnalysisError, node_src
from ..engine import pyflow
from .gen import gen_functions, _code_call
from .dD4 import emission, _unmanaged_alloc, _passes_code, _is_code, CHILD_ALL, CHILD_ERR

# CPython C-API reference manual, functions documented with "Return value: Borrowed reference." (the ones an emitter could plausibly use)
BORROWED = {
    'PyList_GET_ITEM', 'PyList_GetItem', 'PyTuple_GET_ITEM', 'PyTuple_GetItem', 'PySequence_Fast_GET_ITEM',
    'PyDict_GetItem', 'PyDict_GetItemWithError', 'PyDict_GetItemString', 'PyModule_GetDict', 'PyImport_AddModule', 'PyImport_GetModuleDict',
    'PySys_GetObject', 'PyEval_GetBuiltins', 'PyEval_GetGlobals', 'PyEval_GetLocals', 'PyCell_GET', 'PyWeakref_GET_OBJECT', 'PyWeakref_GetObject',
    'PyMethod_GET_SELF', 'PyMethod_GET_FUNCTION', 'PyMethod_Self', 'PyMethod_Function', 'PyFunction_GetGlobals', 'PyFunction_GetCode',
    'PyErr_Occurred', 'PyThreadState_GetDict', 'PyObject_GetAttrString_borrowed_never',
}
BORROWED.discard('PyObject_GetAttrString_borrowed_never')
INCREF_CALLS = ('put_incref', 'put_xincref', 'put_var_incref', 'put_var_xincref')
CLAIM_CALLS = ('put_gotref', 'put_xgotref') + INCREF_CALLS
RELEASES = ('put_xdecref_clear', 'put_decref_clear', 'put_xdecref', 'put_decref')


def tkey(e):
    """the slot an expression names: X.result() / X.py_result() -> X"""
    while isinstance(e, ast.Call) and isinstance(e.func, ast.Attribute) and e.func.attr in ('result', 'py_result') and not e.args:
        e = e.func.value
    try:
        return ast.unparse(e)
    except Exception:
        return None


_TKEY = tkey


def is_borrowed_api(ctx, name, memo={}):
    """True / False / None (a __Pyx_ macro whose variants disagree)"""
    if name in BORROWED:
        return True
    if not name.startswith('__Pyx_'):
        return False
    k = (id(ctx), name)
    if k not in memo:
        ds = [d for d in ctx.cat.decls.get(name, []) if d.kind == 'macro']
        if not ds:
            memo[k] = False
        else:
            v = []
            for d in ds:
                m = re.fullmatch(r'\s*\(*\s*(\w+)\s*\(([^()]|\([^()]*\))*\)\s*\)*\s*', d.body or '')
                v.append(bool(m) and (m.group(1) in BORROWED))
            memo[k] = True if all(v) else False if not any(v) else None
    return memo[k]


STORE = re.compile(r'^\s*\0(\d+)\0\s*=\s*(?:\(\s*)*(?:\(\s*(?:struct\s+)?\w+\s*\*+\s*\)\s*)?(?:\(\s*)*(\w+)\s*\(\s*(?:\0(\d+)\0|(\w+)\s*[,)])')
STEAL = re.compile(r'\(\s*\(\s*PyVarObject\s*\*\s*\)\s*\0(\d+)\0\s*\)\s*->\s*ob_size\s*(?:--|-=)|--\s*\(\s*\(\s*PyVarObject\s*\*\s*\)\s*\0(\d+)\0\s*\)\s*->\s*ob_size')
INCREF_TXT = re.compile(r'\b(?:__Pyx_X?INCREF|Py_X?INCREF)\s*\(\s*\0(\d+)\0\s*\)')
PP = re.compile(r'^\s*#\s*(if|ifdef|ifndef|elif|else|endif)\b')


# eighth round: the error-exit emitters of CCodeWriter, derived from Code.py by s8C35.error_api (put_error_if_neg, put_error_if_unbound, ... besides error_goto*);
# filled in by rules(ctx); None = the name prefix only (analysis helpers called without a context)
ERROR_EXIT_API = None


def _fallible(call):
    """-> 'goto' | 'child' | None"""
    f = call.func
    if not isinstance(f, ast.Attribute):
        return None
    if _is_code(f.value) and (f.attr in ERROR_EXIT_API if ERROR_EXIT_API is not None else f.attr.startswith('error_goto')):
        return 'goto'
    if f.attr in (CHILD_ALL | CHILD_ERR) and _passes_code(call) and not (isinstance(f.value, ast.Name) and f.value.id == 'self'):
        return 'child'
    return None


def _null_test(call, t):
    from . import s8C35
    return s8C35.is_null_test(call, t)


def _mentions(call, key):
    return any(key and key in (ast.unparse(a) if not isinstance(a, ast.Constant) else repr(a.value)) for a in list(call.args) + [k.value for k in call.keywords])


# ================================================================================================= C35-BORROW
def borrow_analyse(ctx, fn):
    """-> (instances [(api, slot, line, owned)], violations [(slot, api, line, message)], infos)"""
    claimed, managed = set(), set()
    for n in ast.walk(fn):
        if isinstance(n, ast.Call) and isinstance(n.func, ast.Attribute):
            if _is_code(n.func.value) and n.func.attr in CLAIM_CALLS and n.args:
                claimed.add(tkey(n.args[0]))
            elif n.func.attr in ('generate_gotref', 'generate_xgotref', 'make_owned_reference') and _passes_code(n):
                claimed.add(tkey(n.func.value))
            em = emission(n)
            if em:
                for m in INCREF_TXT.finditer(em[0]):
                    claimed.add(tkey(em[1][int(m.group(1))]))
        if isinstance(n, ast.Assign) and len(n.targets) == 1 and _code_call(n.value, ('allocate_temp',)) and _unmanaged_alloc(n.value) is None:
            managed.add(tkey(n.targets[0]))
    owned = claimed | managed
    inst, viol, infos = [], {}, set()

    def bad(st, call, why):
        s = set(st)
        for f in st:
            if f[0] == 'B' and f[1] in owned:
                if why == 'goto' and _mentions(call, f[1]):
                    continue
                viol.setdefault((f[1], f[3]), (call.lineno, '%s emitted while %s still holds the borrowed result of %s(%s, ...)' % (
                    'an error exit (%s)' % node_src(call, 60) if why == 'goto' else 'child code that can fail (%s)' % node_src(call, 60), f[1], f[3], f[2])))
        return s

    def transfer(node, st):
        s = set(st)
        al = {f[1]: f[2] for f in s if f[0] == 'al'}

        def tkey(e, _tk=_TKEY):          # locals that merely rename another local (`lst = target_list`) name the same slot
            k = _tk(e)
            return al.get(k, k)
        if isinstance(node, ast.Assign) and len(node.targets) == 1 and isinstance(node.targets[0], ast.Name):
            s = set(f for f in s if not (f[0] == 'al' and node.targets[0].id in (f[1], f[2])))
            if isinstance(node.value, ast.Name):
                s.add(('al', node.targets[0].id, al.get(node.value.id, node.value.id)))
        for call in pyflow.calls_in(node):
            em = emission(call)
            if em:
                tpl, args = em
                for piece in re.split(r';|\n', tpl):
                    m = PP.match(piece)
                    if m:
                        d = m.group(1)
                        if d in ('elif', 'else'):
                            s = set(('H',) + f[1:] if f[0] == 'B' else f for f in s)
                        elif d == 'endif':
                            s = set(('B',) + f[1:] if f[0] == 'H' else f for f in s)
                        continue
                    m = STORE.match(piece)
                    if m:
                        api = m.group(2)
                        b = is_borrowed_api(ctx, api)
                        t, c = tkey(args[int(m.group(1))]), (tkey(args[int(m.group(3))]) if m.group(3) else m.group(4))
                        s = set(f for f in s if not (f[0] == 'B' and f[1] == t))
                        if b is None:
                            infos.add('%s: the variants of the macro %s disagree about borrowing; the store into %s is not decided' % (fn.name, api, t))
                        elif b:
                            inst.append((api, t, call.lineno, t in owned))
                            s.add(('B', t, c, api))
                        continue
                    for m in STEAL.finditer(piece):
                        c = tkey(args[int(m.group(1) or m.group(2))])
                        s = set(f for f in s if not (f[0] == 'B' and f[2] == c))
                    for m in INCREF_TXT.finditer(piece):
                        t = tkey(args[int(m.group(1))])
                        s = set(f for f in s if not (f[0] == 'B' and f[1] == t))
                continue
            f = call.func
            if isinstance(f, ast.Attribute):
                if (_is_code(f.value) and f.attr in INCREF_CALLS and call.args) or (f.attr == 'make_owned_reference' and _passes_code(call)):
                    t = tkey(call.args[0]) if _is_code(f.value) else tkey(f.value)
                    s = set(x for x in s if not (x[0] == 'B' and x[1] == t))
                    continue
            why = _fallible(call)
            if why:
                s = bad(s, call, why)
        return frozenset(s)

    try:
        o = pyflow.Flow(transfer).run(fn, frozenset())
    except pyflow.TooManyStates:
        infos.add('%s: too many states, not decided' % fn.name)
        return inst, [], infos
    for st in o.normal | o.returns:
        for f in st:
            if f[0] in ('B', 'H') and f[1] in owned:
                viol.setdefault((f[1], f[3]), (fn.end_lineno, 'the function ends with %s still holding the borrowed result of %s(%s, ...) on some path: no incref and no removal from the container was emitted' % (f[1], f[3], f[2])))
    return inst, [(k[0], k[1], v[0], v[1]) for k, v in sorted(viol.items())], infos


BORROW_CONTROL = '''
def generate_code(self, rhs, code):
    lst = self.target.result()
    for i, (item, coerced) in enumerate(zip(self.items, self.coerced_items)):
        code.putln("%s = PyList_GET_ITEM(%s, %s-%d); " % (item.py_result(), lst, n, i+1))
        item.generate_gotref(code)
        coerced.generate_evaluation_code(code)
    code.putln("((PyVarObject*)%s)->ob_size -= %d;" % (lst, len(self.items)))
'''


def rule_borrow(ctx):
    r = Rule('C35-BORROW', 'a borrowed C-API result stored into a slot the generator owns (GOTREF / INCREF / managed temp) becomes owned - incref, or removal of the '
             'item from its container - before any child code or foreign error exit is emitted, on every path', floor=4)
    for m, qn, owner, fn in gen_functions(ctx, ('Nodes', 'ExprNodes', 'ModuleNode', 'UtilNodes', 'FusedNode', 'MatchCaseNodes')):
        src = '\n'.join(m.src.split('\n')[fn.lineno - 1:fn.end_lineno])
        if not re.search(r'_GET_ITEM|_GetItem|PyModule_GetDict|GetObject|_GET_SELF|_GET_FUNCTION|AddModule\b|GetBuiltins', src):
            continue
        inst, viol, infos = borrow_analyse(ctx, fn)
        seen = set()
        for api, t, line, own in inst:
            key = '%s.%s:%s->%s' % (m.short, qn, api, t)
            if key in seen:
                continue
            seen.add(key)
            r.inst(key, sample='%s: %s stored into %s (%s)' % (key, api, t, 'owned slot' if own else 'plain alias, no obligation'), nontrivial=own)
        for t, api, line, msg in viol:
            r.violate('%s.%s:%s->%s' % (m.short, qn, api, t), m.rel, line,
                      '%s: %s — when that code fails (or the function ends) the slot is released although it never owned the reference: the object is freed while '
                      'its container still references it' % (qn, msg))
        for i in sorted(infos):
            r.info(i)
    _, v, _ = borrow_analyse(ctx, ast.parse(BORROW_CONTROL).body[0])
    r.positive_control(bool(v), 'list shrunk once after the loop in which the items are read and coerced')
    return r


# ================================================================================================= C35-SETUP
def setup_analyse(fn):
    """-> (temps, violations [(temp, line, message)], infos)"""
    temps = {}
    for n in ast.walk(fn):
        if isinstance(n, ast.Assign) and len(n.targets) == 1 and _unmanaged_alloc(n.value) is not None:
            temps[tkey(n.targets[0])] = isinstance(n.targets[0], ast.Attribute)
    got = set()
    for n in ast.walk(fn):
        if isinstance(n, ast.Call) and isinstance(n.func, ast.Attribute) and _is_code(n.func.value) and n.func.attr in ('put_gotref', 'put_xgotref') and n.args:
            k = tkey(n.args[0])
            if k in temps:
                got.add(k)
    temps = {k: v for k, v in temps.items() if k in got}
    if not temps:
        return {}, [], set()
    viol, infos = {}, set()

    def cur(s):
        return next((f[1] for f in s if f[0] == 'err'), 'outer')

    def setcur(s, lab):
        s = set(f for f in s if f[0] != 'err')
        s.add(('err', lab))
        return s

    def var(s, name):
        return next((f[2] for f in s if f[0] == 'var' and f[1] == name), None)

    def bind(s, name, lab):
        s = set(f for f in s if not (f[0] == 'var' and f[1] == name))
        if lab is not None:
            s.add(('var', name, lab))
        return s

    def transfer(node, st):
        s = set(st)
        newlab_prev = None
        for call in pyflow.calls_in(node):
            f = call.func
            if not isinstance(f, ast.Attribute):
                continue
            a0 = call.args[0] if call.args else None
            c = _code_call(call, ('new_error_label',))
            if c:
                newlab_prev = cur(s)
                s = setcur(s, 'L%d' % call.lineno)
                continue
            if _code_call(call, ('all_new_labels', 'set_all_labels', 'new_label_set')):
                s = setcur(s, '?')
                continue
            if _is_code(f.value) and f.attr in ('put_gotref', 'put_xgotref') and a0 is not None and tkey(a0) in temps:
                s.add(('own', tkey(a0)))
                continue
            if _is_code(f.value) and f.attr in RELEASES and a0 is not None and tkey(a0) in temps:
                t = tkey(a0)
                at = {x[1] for x in s if x[0] == 'at'}
                s = set(x for x in s if not (x[0] == 'owe' and x[1] == t and x[2] in at))
                if not at:
                    s.discard(('own', t))
                continue
            if _code_call(call, ('release_temp',)) and a0 is not None and tkey(a0) in temps:
                s.discard(('own', tkey(a0)))
                continue
            if _is_code(f.value) and f.attr == 'put_label' and isinstance(a0, ast.Name):
                lab = var(s, a0.id)
                s = set(x for x in s if x[0] != 'at')
                if lab:
                    s.add(('at', lab))
                continue
            if _is_code(f.value) and f.attr == 'put_goto':
                s = set(x for x in s if x[0] != 'at')
                continue
            why = _fallible(call)
            if why:
                stmt_child = why == 'child' and f.attr in CHILD_ALL
                for x in list(s):
                    if x[0] != 'own':
                        continue
                    t = x[1]
                    if _mentions(call, t) and (why != 'goto' or _null_test(call, t)):
                        continue          # the NULL test of the temp itself / the temp is handed to the child, which then answers for it
                    if stmt_child and temps[t]:
                        s.discard(x)          # hand-over to the sub-tree (not decided)
                        continue
                    lab = cur(s)
                    if lab == 'outer':
                        viol.setdefault((t, 'outer'), (call.lineno, '%s is emitted while the unmanaged temp %s owns a reference (GOTREF emitted) and the error label of the '
                                                       'enclosing code is still installed: when it fails nothing releases %s (leak on the error path)' % (
                                                           'an error exit (%s)' % node_src(call, 60) if why == 'goto' else 'child code that can fail (%s)' % node_src(call, 60), t, t)))
                    elif lab == '?':
                        infos.add('%s: labels replaced wholesale while %s is owned; not decided' % (fn.name, t))
                    else:
                        s.add(('owe', t, lab))
                continue
            if isinstance(f.value, ast.Name) and f.value.id == 'self' and _passes_code(call):
                # eighth round: the temp handed to a helper method of the node together with `code` (an extracted release): not decided here
                for x in list(s):
                    if x[0] == 'own' and _mentions(call, x[1]):
                        s.discard(x)
                        infos.add('%s: %s is handed to the helper %s; its release is not decided' % (fn.name, x[1], node_src(f, 40)))
            if not _is_code(f.value):
                # a label handed to something unknown: its placement is not visible here
                for a in list(call.args) + [k.value for k in call.keywords]:
                    if isinstance(a, ast.Name) and var(s, a.id) and any(x[0] == 'owe' and x[2] == var(s, a.id) for x in s):
                        infos.add('%s: label %s is handed to %s; its placement is not decided' % (fn.name, a.id, node_src(f, 40)))
                        s = set(x for x in s if not (x[0] == 'owe' and x[2] == var(s, a.id)))
        if isinstance(node, ast.Assign) and len(node.targets) == 1:
            tg, v = node.targets[0], node.value
            if isinstance(tg, ast.Name):
                if _code_call(v, ('new_error_label',)):
                    s = bind(s, tg.id, newlab_prev)
                elif isinstance(v, ast.Attribute) and _is_code(v.value) and v.attr == 'error_label':
                    s = bind(s, tg.id, cur(s))
                elif isinstance(v, ast.Name) and var(s, v.id):
                    s = bind(s, tg.id, var(s, v.id))
                else:
                    s = bind(s, tg.id, None)
            elif isinstance(tg, ast.Attribute) and _is_code(tg.value) and tg.attr == 'error_label':
                lab = var(s, v.id) if isinstance(v, ast.Name) else None
                s = setcur(s, lab or '?')
        return frozenset(s)

    def refine(test, truth, st):
        # `if code.label_used(L):` false => nothing jumped to L, nothing is owed there
        t = test
        neg = False
        while isinstance(t, ast.UnaryOp) and isinstance(t.op, ast.Not):
            t, neg = t.operand, not neg
        if _code_call(t, ('label_used',)) and t.args and isinstance(t.args[0], ast.Name) and truth == neg:
            lab = next((f[2] for f in st if f[0] == 'var' and f[1] == t.args[0].id), None)
            if lab:
                return frozenset(f for f in st if not (f[0] == 'owe' and f[2] == lab))
        return st

    try:
        o = pyflow.Flow(transfer, refine=refine).run(fn, frozenset())
    except pyflow.TooManyStates:
        return temps, [], {'%s: too many states, not decided' % fn.name}
    for st in o.normal | o.returns:
        for f in st:
            if f[0] == 'owe':
                viol.setdefault((f[1], 'owe'), (fn.lineno, 'child code / error exits emitted while the unmanaged temp %s owns a reference jump to the error label created at '
                                                'line %s, but on some path that label is not placed (put_label) with a release of %s: the reference leaks when the setup code fails' % (f[1], f[2][1:], f[1])))
    return temps, [(k[0], k[1], v[0], v[1]) for k, v in sorted(viol.items())], infos


SETUP_CONTROL = '''
def generate_execution_code(self, code):
    self.exit_var = code.funcstate.allocate_temp(py_object_type, manage_ref=False)
    code.putln("%s = lookup(%s); %s" % (self.exit_var, self.manager.py_result(), code.error_goto_if_null(self.exit_var, self.pos)))
    code.put_gotref(self.exit_var, py_object_type)
    self.enter_call.generate_evaluation_code(code)
    old_error_label = code.new_error_label()
    intermediate_error_label = code.error_label
    self.enter_call.generate_disposal_code(code)
    code.error_label = old_error_label
    self.body.generate_execution_code(code)
    if code.label_used(intermediate_error_label):
        code.put_label(intermediate_error_label)
        code.put_decref_clear(self.exit_var, py_object_type)
        code.put_goto(old_error_label)
    code.funcstate.release_temp(self.exit_var)
'''


def rule_setup(ctx):
    r = Rule('C35-SETUP', 'while an unmanaged temp owns a reference (GOTREF emitted by the generator), child expression code and error exits are emitted only under an error '
             'label created by the function, and that label is placed with a release of the temp', floor=3)
    for m, qn, owner, fn in gen_functions(ctx, ('Nodes', 'ExprNodes', 'ModuleNode', 'UtilNodes', 'FusedNode', 'MatchCaseNodes')):
        src = '\n'.join(m.src.split('\n')[fn.lineno - 1:fn.end_lineno])
        if 'manage_ref=False' not in src or 'gotref' not in src:
            continue
        temps, viol, infos = setup_analyse(fn)
        for t in sorted(temps):
            r.inst('%s.%s:%s' % (m.short, qn, t), sample='%s.%s: unmanaged temp %s owns a reference after GOTREF' % (m.short, qn, t))
        for t, kind, line, msg in viol:
            r.violate('%s.%s:%s:%s' % (m.short, qn, t, kind), m.rel, line, '%s: %s' % (qn, msg))
        for i in sorted(infos):
            r.info(i)
    _, v, _ = setup_analyse(ast.parse(SETUP_CONTROL).body[0])
    r.positive_control(any(k == 'outer' for _, k, _, _ in v), '__enter__ call generated before the cleanup label of the __exit__ temp is installed')
    return r


def rules(ctx):
    global ERROR_EXIT_API
    from . import s8C35
    ERROR_EXIT_API = set(s8C35.error_api(ctx))
    return [rule_borrow(ctx), rule_setup(ctx)]
