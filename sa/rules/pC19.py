"""Helpers for property C19 (comparisons, membership, switch): guard dominance on the paths that create C switch
statements, the duplicate detector, the comparison-helper interface, single evaluation / short-circuit structure of the
comparison nodes and the membership-equality obligation of display-flattening transforms.

Static only: Python ASTs of the repository are read, never imported or executed.
"""
import ast, re

from ..core import AnalysisError, node_src
from ..engine import pyflow, tables
from ..engine.pyindex import walk_no_nested, is_self_attr
from .iface import const_strs, local_env, str_template

INT_PREDICATES = ('is_int', 'is_enum')


def call_attr(c):
    return c.func.attr if isinstance(c, ast.Call) and isinstance(c.func, ast.Attribute) else (c.func.id if isinstance(c, ast.Call) and isinstance(c.func, ast.Name) else None)


def self_call(c, name=None):
    return isinstance(c, ast.Call) and isinstance(c.func, ast.Attribute) and isinstance(c.func.value, ast.Name) and c.func.value.id == 'self' \
        and (name is None or c.func.attr == name)


def constructs(c, clsname):
    """Nodes.X(...) / ExprNodes.X(...) / X(...)"""
    return isinstance(c, ast.Call) and call_attr(c) == clsname and (isinstance(c.func, ast.Name) or isinstance(c.func.value, ast.Name))


def kwarg(c, name, pos=None):
    for k in c.keywords:
        if k.arg == name:
            return k.value
    if pos is not None and len(c.args) > pos:
        return c.args[pos]
    return None


def local_env2(fn):
    """iface.local_env plus parallel assignments `a, b = x, y` (each name receives the element at its position) and
    conditional expressions over tuples `a, b = (x, y) if c else (u, v)`."""
    env = local_env(fn)
    extra = {}
    spoiled = set()

    def tuples(v):
        if isinstance(v, (ast.Tuple, ast.List)):
            return [v]
        if isinstance(v, ast.IfExp):
            a, b = tuples(v.body), tuples(v.orelse)
            return a + b if a and b else []
        return []
    for n in walk_no_nested(fn):
        if isinstance(n, ast.Assign):
            for t in n.targets:
                if isinstance(t, (ast.Tuple, ast.List)) and all(isinstance(x, ast.Name) for x in t.elts):
                    vs = tuples(n.value)
                    if vs and all(len(v.elts) == len(t.elts) for v in vs):
                        for i, x in enumerate(t.elts):
                            extra.setdefault(x.id, []).extend(v.elts[i] for v in vs)
                    else:
                        spoiled |= {x.id for x in t.elts}
    params = {a.arg for a in fn.args.args + fn.args.kwonlyargs}
    single = {n.targets[0].id for n in walk_no_nested(fn) if isinstance(n, ast.Assign) and len(n.targets) == 1 and isinstance(n.targets[0], ast.Name)}
    loopvars = {x.id for n in walk_no_nested(fn) if isinstance(n, (ast.For, ast.comprehension)) for x in ast.walk(n.target) if isinstance(x, ast.Name)}
    for name, vals in extra.items():
        if name in spoiled or name in params or name in loopvars:
            continue
        if name in single and name not in env:
            continue            # also assigned in a way local_env rejected
        env[name] = list(env.get(name, [])) + vals
    return env


def facts_of(state):
    return [(f[1], f[2]) for f in state if isinstance(f, tuple) and len(f) == 4 and f[0] == '?']


def known(state, text, truth):
    want = re.sub(r'\s+', '', text)
    return any(re.sub(r'\s+', '', t) == want and v is truth for t, v in facts_of(state))


# ------------------------------------------------------------------------------------------------ type test in the extractor
def _tv_not(v):
    return None if v is None else not v


def eval_under(e, assume):
    """Three-valued evaluation of a test under an assumption.
    assume = ('var', V): `V.type.<int predicate>` are all false.
    assume = ('elem', C): some element x of C has all `x.type.<int predicate>` false (any()/all() over a comprehension on C)."""
    def ev(e, elem=None):
        if isinstance(e, ast.UnaryOp) and isinstance(e.op, ast.Not):
            return _tv_not(ev(e.operand, elem))
        if isinstance(e, ast.BoolOp):
            vals = [ev(v, elem) for v in e.values]
            if isinstance(e.op, ast.And):
                return False if any(v is False for v in vals) else (True if all(v is True for v in vals) else None)
            return True if any(v is True for v in vals) else (False if all(v is False for v in vals) else None)
        if isinstance(e, ast.Attribute) and e.attr in INT_PREDICATES and isinstance(e.value, ast.Attribute) and e.value.attr == 'type' \
                and isinstance(e.value.value, ast.Name):
            n = e.value.value.id
            if assume[0] == 'var' and n == assume[1]:
                return False
            if elem is not None and n == elem:
                return False
            return None
        if isinstance(e, ast.Call) and isinstance(e.func, ast.Name) and e.func.id in ('any', 'all') and len(e.args) == 1 \
                and isinstance(e.args[0], (ast.ListComp, ast.GeneratorExp, ast.SetComp)) and assume[0] == 'elem':
            comp = e.args[0]
            g = comp.generators
            if len(g) == 1 and not g[0].ifs and isinstance(g[0].iter, ast.Name) and g[0].iter.id == assume[1] and isinstance(g[0].target, ast.Name):
                v = ev(comp.elt, g[0].target.id)     # value of the element expression for the offending element
                if e.func.id == 'any':
                    return True if v is True else None
                return False if v is False else None
        return None
    return ev(e)


def refuted(state, assume):
    """Some recorded branch fact contradicts the assumption => the assumption cannot hold on this path."""
    for text, truth in facts_of(state):
        try:
            e = ast.parse(text, mode='eval').body
        except SyntaxError:
            continue
        v = eval_under(e, assume)
        if v is not None and v != truth:
            return True
    return False


def extractor_contract(fn, no_match_attr='NO_MATCH'):
    """Analyse SwitchTransform.extract_common_conditions: the successful return `return a, V, C` (a tuple of names).
    -> (index of V, index of C, [problems]) where V is the switch variable and C the list of case values."""
    rets = []

    def transfer(node, state):
        if isinstance(node, ast.Return) and isinstance(node.value, ast.Tuple) and all(isinstance(x, ast.Name) for x in node.value.elts):
            rets.append((node, state))
        return state
    def refine(test, truth, state):
        # the engine only remembers comprehension-free tests; the type test iterates over the case values
        names = frozenset(x.id for x in ast.walk(test) if isinstance(x, ast.Name))
        return state | {('?', ast.unparse(test), truth, names)}
    pyflow.Flow(transfer, refine=refine).run(fn)
    if not rets:
        raise AnalysisError('%s: no successful `return <names>` found' % fn.name)
    problems = []
    vi = ci = None
    for node, state in rets:
        names = [x.id for x in node.value.elts]
        var_ok = [i for i, n in enumerate(names) if refuted(state, ('var', n))]
        con_ok = [i for i, n in enumerate(names) if refuted(state, ('elem', n))]
        if not var_ok:
            problems.append((node.lineno, 'returns a match (%s) on a path where no test established that the switch variable has a C integer/enum type: '
                             'a Python object or float comparison chain would be turned into a C switch' % ', '.join(names)))
        if not con_ok:
            problems.append((node.lineno, 'returns a match (%s) on a path where no test established that every case value has a C integer/enum type: '
                             'non-integer case labels would reach the C switch' % ', '.join(names)))
        if var_ok and con_ok:
            if vi is not None and (vi, ci) != (var_ok[0], con_ok[0]):
                raise AnalysisError('%s: inconsistent result layouts' % fn.name)
            vi, ci = var_ok[0], con_ok[0]
    return vi, ci, problems, len(rets)


# ------------------------------------------------------------------------------------------------ switch creation points
def switch_points(cls, extractor='extract_common_conditions', dup='has_duplicate_values', var_idx=1, conds_idx=2):
    """Obligations for every point of a SwitchTransform dispatch method that creates a SwitchStatNode, directly or through a
    helper method of the class.  -> list of (method, kind, key, line, ok, text)"""
    out = []
    # helper methods: non-dispatch methods that construct the switch; which parameter becomes the case conditions
    helpers = {}
    for name, fn in cls.methods.items():
        if name.startswith('visit_'):
            continue
        sw = [n for n in walk_no_nested(fn) if constructs(n, 'SwitchStatNode')]
        if not sw:
            continue
        params = [a.arg for a in fn.args.args]
        cparams = set()
        for n in walk_no_nested(fn):
            if constructs(n, 'SwitchCaseNode'):
                c = kwarg(n, 'conditions')
                if isinstance(c, ast.Name) and c.id in params:
                    cparams.add(c.id)
                else:
                    out.append((name, 'helper', '%s:conditions' % name, n.lineno, False,
                                '%s builds a SwitchCaseNode whose conditions (%s) are not one of its parameters: the callers\' duplicate/type tests cannot cover them'
                                % (name, node_src(c) if c is not None else 'missing')))
        if len(cparams) == 1:
            helpers[name] = (fn, params.index(cparams.pop()) - 1)
    for name, fn in sorted(cls.methods.items()):
        if not name.startswith('visit_'):
            continue
        snaps = []

        def transfer(node, state, snaps=snaps):
            s = set(state)
            if isinstance(node, ast.Assign):
                stored = {x.id for t in node.targets for x in ast.walk(t) if isinstance(x, ast.Name)}
                s = {f for f in s if not (isinstance(f, tuple) and f[0] == 'ecc' and (f[1] in stored or f[2] in stored))}
                if len(node.targets) == 1 and isinstance(node.targets[0], ast.Tuple) and self_call(node.value, extractor):
                    el = node.targets[0].elts
                    if len(el) > max(var_idx, conds_idx) and isinstance(el[var_idx], ast.Name) and isinstance(el[conds_idx], ast.Name):
                        s.add(('ecc', el[var_idx].id, el[conds_idx].id))
            for c in pyflow.calls_in(node):
                if constructs(c, 'SwitchStatNode') or constructs(c, 'SwitchCaseNode') or (self_call(c) and c.func.attr in helpers):
                    snaps.append((c, frozenset(s)))
            return frozenset(s)
        pyflow.Flow(transfer).run(fn)
        if not snaps:
            continue
        by = {}
        for c, st in snaps:
            by.setdefault(id(c), (c, []))[1].append(st)

        def all_states(c):
            return by[id(c)][1]

        def typed_ok(c, cname):
            """cname (a Name) was produced by the extractor and its switch variable was checked against None"""
            for st in all_states(c):
                ecc = [f for f in st if isinstance(f, tuple) and f[0] == 'ecc' and f[2] == cname]
                if not ecc or not any(known(st, '%s is None' % f[1], False) or known(st, '%s is not None' % f[1], True) for f in ecc):
                    return False
            return True

        def dup_ok(c, wname):
            return all(known(st, 'self.%s(%s)' % (dup, wname), False) for st in all_states(c))

        for c, _ in by.values():
            if constructs(c, 'SwitchCaseNode'):
                e = kwarg(c, 'conditions')
                key = '%s:case-type' % name
                ok = isinstance(e, ast.Name) and typed_ok(c, e.id)
                out.append((name, 'type', key, c.lineno, ok,
                            '%s builds a switch case from %s, which on some path is not the (non-None) result of self.%s(): '
                            'case values whose C integer type was never established reach the C switch' % (name, node_src(e) if e is not None else '?', extractor)))
            elif constructs(c, 'SwitchStatNode'):
                cases = kwarg(c, 'cases')
                covering = []
                if isinstance(cases, ast.Name):
                    for n in walk_no_nested(fn):
                        if isinstance(n, ast.Assign) and len(n.targets) == 1 and isinstance(n.targets[0], ast.Name) and \
                                isinstance(n.value, (ast.ListComp, ast.GeneratorExp)) and _flattens(n.value, cases.id):
                            covering.append(n.targets[0].id)
                key = '%s:switch-duplicates' % name
                ok = any(dup_ok(c, w) for w in covering)
                out.append((name, 'dup', key, c.lineno, ok,
                            '%s creates a SwitchStatNode on a path that did not pass a failing self.%s() test over all case values of %s: '
                            'duplicate case labels make the generated C switch uncompilable (or select the wrong body for overlapping cases)'
                            % (name, dup, node_src(cases) if cases is not None else '?')))
            else:
                hfn, idx = helpers[c.func.attr]
                arg = c.args[idx] if len(c.args) > idx else None
                key = '%s:%s' % (name, c.func.attr)
                ok_t = isinstance(arg, ast.Name) and typed_ok(c, arg.id)
                ok_d = isinstance(arg, ast.Name) and dup_ok(c, arg.id)
                out.append((name, 'type', key + ':type', c.lineno, ok_t,
                            '%s hands %s to %s() on a path where it is not the (non-None) result of self.%s(): values whose C integer type was never established become case labels'
                            % (name, node_src(arg) if arg is not None else '?', c.func.attr, extractor)))
                out.append((name, 'dup', key + ':duplicates', c.lineno, ok_d,
                            '%s reaches %s() without a failing self.%s(%s) test on some path: duplicate case labels make the generated C switch uncompilable'
                            % (name, c.func.attr, dup, node_src(arg) if arg is not None else '?')))
    return out, helpers


def _flattens(comp, cases_name):
    """[x for case in CASES for x in case.conditions]"""
    g = comp.generators
    if len(g) != 2 or g[0].ifs or g[1].ifs:
        return False
    if not (isinstance(g[0].iter, ast.Name) and g[0].iter.id == cases_name and isinstance(g[0].target, ast.Name)):
        return False
    it = g[1].iter
    return isinstance(it, ast.Attribute) and it.attr == 'conditions' and isinstance(it.value, ast.Name) and it.value.id == g[0].target.id \
        and isinstance(g[1].target, ast.Name) and isinstance(comp.elt, ast.Name) and comp.elt.id == g[1].target.id


def duplicate_detector(fn):
    """has_duplicate_values: every `seen.add(K)` is preceded in its block by `if K in seen: return True`; falling out of
    the analysis (except clause) returns True; -> list of (key, line, ok, text)"""
    out = []
    setname = None
    for n in walk_no_nested(fn):
        if isinstance(n, ast.Assign) and isinstance(n.value, ast.Call) and call_attr(n.value) == 'set' and isinstance(n.targets[0], ast.Name):
            setname = n.targets[0].id
    if setname is None:
        raise AnalysisError('%s: the `seen = set()` accumulator was not found' % fn.name)

    def blocks(stmts):
        yield stmts
        for s in stmts:
            for fld in ('body', 'orelse', 'finalbody'):
                b = getattr(s, fld, None)
                if isinstance(b, list) and b and isinstance(b[0], ast.stmt):
                    yield from blocks(b)
            for h in getattr(s, 'handlers', []) or []:
                yield from blocks(h.body)
    for blk in blocks(fn.body):
        for i, s in enumerate(blk):
            if isinstance(s, ast.Expr) and isinstance(s.value, ast.Call) and call_attr(s.value) == 'add' and isinstance(s.value.func, ast.Attribute) \
                    and isinstance(s.value.func.value, ast.Name) and s.value.func.value.id == setname and s.value.args:
                k = node_src(s.value.args[0])
                ok = False
                for p in blk[:i]:
                    if isinstance(p, ast.If) and isinstance(p.test, ast.Compare) and len(p.test.ops) == 1 and isinstance(p.test.ops[0], ast.In) \
                            and node_src(p.test.left) == k and node_src(p.test.comparators[0]) == setname \
                            and p.body and isinstance(p.body[0], ast.Return) and isinstance(p.body[0].value, ast.Constant) and p.body[0].value.value is True:
                        ok = True
                out.append(('seen.add(%s)' % re.sub(r'\s+', '', k), s.lineno, ok,
                            '%s records %s as seen without first answering True when it was already seen: two cases with that value would both reach the switch' % (fn.name, k)))
    for n in walk_no_nested(fn):
        if isinstance(n, ast.ExceptHandler):
            ok = any(isinstance(x, ast.Return) and isinstance(x.value, ast.Constant) and x.value.value is True for x in n.body)
            out.append(('unknown-value', n.lineno, ok, '%s does not answer True ("play safe") for a case value whose identity it cannot determine' % fn.name))
    return out


# ------------------------------------------------------------------------------------------------ comparison nodes
def eval_events(fn):
    """Path problems of one generate_evaluation_code: double evaluation of the same receiver."""
    loopvars = {x.id for n in walk_no_nested(fn) if isinstance(n, ast.For) for x in ast.walk(n.target) if isinstance(x, ast.Name)}
    seen = set()

    def transfer(node, state):
        s = set(state)
        for c in pyflow.calls_in(node):
            if isinstance(c.func, ast.Attribute) and c.func.attr == 'generate_evaluation_code' and len(c.args) == 1 and not c.keywords \
                    and not (isinstance(c.func.value, ast.Name) and c.func.value.id in loopvars):
                recv = node_src(c.func.value)
                if recv in ('NumBinopNode', 'ExprNode') or recv.endswith('Node'):
                    continue
                seen.add(recv)
                if ('ev', recv) in s:
                    s.add(('BAD', recv, c.lineno))
                s.add(('ev', recv))
        return frozenset(s)
    o = pyflow.Flow(transfer).run(fn)
    bad = {}
    for st in o.normal | o.returns:
        for f in st:
            if isinstance(f, tuple) and f[0] == 'BAD':
                bad[f[1]] = f[2]
    return seen, bad


def class_disposals(ix, cls):
    """receiver texts for which some method of the class (MRO) calls generate_disposal_code / free_temps"""
    disp, free = set(), set()
    for k in ix.mro(cls):
        for fn in k.methods.values():
            for n in walk_no_nested(fn):
                if isinstance(n, ast.Call) and isinstance(n.func, ast.Attribute):
                    if n.func.attr in ('generate_disposal_code', 'generate_post_assignment_code'):
                        disp.add(node_src(n.func.value))
                    elif n.func.attr == 'free_temps':
                        free.add(node_src(n.func.value))
    return disp, free


def short_circuit(fn, result_param='result'):
    """CascadedCmpNode.generate_evaluation_code: every operand evaluation and the comparison itself are emitted after an
    `if (<result>) {` guard was opened, and a closing brace is emitted afterwards on every path."""
    def is_guard(c):
        if isinstance(c, ast.Call) and isinstance(c.func, ast.Attribute) and c.func.attr in ('putln', 'put') and c.args:
            t = str_template(c.args[0])
            if t and re.match(r'\s*if\s*\(', t[0]) and t[0].rstrip().endswith('{') and \
                    any(isinstance(p, ast.Name) and p.id == result_param for p in t[1] if p is not None):
                return True
        return False

    def is_close(c):
        if isinstance(c, ast.Call) and isinstance(c.func, ast.Attribute) and c.func.attr in ('putln', 'put') and c.args:
            v = tables.literal(c.args[0])
            return isinstance(v, str) and v.strip() == '}'
        return False
    problems = {}

    def transfer(node, state):
        s = set(state)
        for c in pyflow.calls_in(node):
            if is_guard(c):
                s.add('open')
            elif is_close(c):
                if 'open' in s:
                    s.discard('open')
                    s.add('closed')
            elif isinstance(c.func, ast.Attribute) and c.func.attr in ('generate_evaluation_code', 'generate_operation_code'):
                if 'open' not in s:
                    problems['unguarded:' + node_src(c.func.value) + '.' + c.func.attr] = (
                        c.lineno, '%s.%s(...) is emitted outside the `if (%s) {` guard: the next link of a chained comparison would be evaluated '
                        'although an earlier link was false' % (node_src(c.func.value), c.func.attr, result_param))
        return frozenset(s)
    o = pyflow.Flow(transfer).run(fn)
    for st in o.normal | o.returns:
        if 'open' in st or 'closed' not in st:
            problems['unclosed'] = (fn.lineno, 'the `if (%s) {` guard is not closed (or never opened) on some path' % result_param)
    return problems


# ------------------------------------------------------------------------------------------------ compare helper interface
def special_function_bindings(fn, attr='special_bool_cmp_function'):
    """(helper names, category of operand1 as returned, line) for every successful return of
    find_special_bool_compare_function, by dataflow: `self.<attr> = "name"`; `operand1 = operand1.coerce_to(T, env)`;
    `return True, operand1[.coerce_to_pyobject(env)]`."""
    from .typed import py_category
    p1 = fn.args.args[2].arg if len(fn.args.args) > 2 else 'operand1'
    env = local_env(fn)
    out = []

    def coercion(e):
        if isinstance(e, ast.Call) and isinstance(e.func, ast.Attribute) and isinstance(e.func.value, ast.Name) and e.func.value.id == p1:
            if e.func.attr == 'coerce_to_pyobject':
                return 'object'
            if e.func.attr == 'coerce_to' and e.args:
                return py_category(node_src(e.args[0])) or '?'
        return None

    def transfer(node, state):
        s = set(state)
        if isinstance(node, ast.Assign) and len(node.targets) == 1:
            t = node.targets[0]
            if is_self_attr(t) and t.attr == attr:
                names = const_strs(node.value, env)
                s = {f for f in s if not (isinstance(f, tuple) and f[0] == 'fn')}
                s.add(('fn', frozenset(names) if names else None, node.lineno))
            elif isinstance(t, ast.Name) and t.id == p1:
                c = coercion(node.value)
                s = {f for f in s if not (isinstance(f, tuple) and f[0] == 'op1')}
                if c:
                    s.add(('op1', c))
        if isinstance(node, ast.Return) and isinstance(node.value, ast.Tuple) and len(node.value.elts) == 2 and \
                isinstance(node.value.elts[0], ast.Constant) and node.value.elts[0].value is True:
            fnf = [f for f in s if isinstance(f, tuple) and f[0] == 'fn']
            e = node.value.elts[1]
            cat = coercion(e)
            if cat is None and isinstance(e, ast.Name) and e.id == p1:
                c = [f[1] for f in s if isinstance(f, tuple) and f[0] == 'op1']
                cat = c[0] if c else None
            for f in fnf:
                out.append((f[1], cat, f[2]))
        return frozenset(s)
    pyflow.Flow(transfer).run(fn)
    uniq = []
    for x in out:
        if x not in uniq:
            uniq.append(x)
    return uniq
