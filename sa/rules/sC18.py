"""Strengthening rules for C18 (string formatting).

C18-MEMO   Cache-key completeness of the per-type memo slots in PyrexTypes.  A C type object is a process-wide singleton; a method that memoises a
           computed value on it (`if self.X is None: ... self.X = V` / `if self.X is not None: use self.X`) may only depend on `self` - or every
           further parameter the memoised value is computed from (def-use closure over the local assignments of the method) must take part in the
           decision to USE the slot (a branch fact on the path to every read that is not preceded by a write) and in the decision to FILL it (a
           branch fact on the path to the store).  Otherwise the value computed for one argument is served for another one: the conversion helper
           instantiated for plain `int` is reused for an external `ctypedef int wide_t` (really 64 bit) and f"{wide}" prints truncated numbers.

C18-STRNONE  Decision table of the `!s` / str() elision.  A value whose static type is `str` may still be None, and str(None) == 'None' is not None.
           Every function of the formatting mechanism that can drop the conversion step - FormattedValueNode.analyse_types (returns the operand itself),
           FormattedValueNode.generate_result_code (does not wrap the operand in the conversion call), OptimizeBuiltinCalls._handle_simple_function_unicode
           (returns the argument itself) and OptimizeBuiltinCalls.visit_FormattedValueNode (replaces the node by the str() optimisation) - is executed by a
           small symbolic interpreter (of the checker; no repository code runs) over the complete valuation space of its atomic tests, with the conversion
           character ranging over {None, 's', 'r', 'a', 'd'}; the observed outcome (conversion kept / dropped) is compared with the reference
           "dropped only if conversion in (None*, 's') and the operand is statically str and cannot be None [and there is no format spec where the
           outcome is the bare operand]".
"""
import ast, itertools

from ..core import Rule, AnalysisError, node_src
from ..engine import pyflow
from ..engine.pyindex import walk_no_nested

PYREX = 'Cython/Compiler/PyrexTypes.py'
EXPRNODES = 'Cython/Compiler/ExprNodes.py'
OPTIMIZE = 'Cython/Compiler/Optimize.py'


# =================================================================================================== C18-MEMO
def _is_self_attr(n, attr=None):
    return isinstance(n, ast.Attribute) and isinstance(n.value, ast.Name) and n.value.id == 'self' and (attr is None or n.attr == attr)


def _none_test_of(n):
    """`self.A is None` / `self.A is not None` -> A"""
    if isinstance(n, ast.Compare) and len(n.ops) == 1 and isinstance(n.ops[0], (ast.Is, ast.IsNot)) and _is_self_attr(n.left) and \
            isinstance(n.comparators[0], ast.Constant) and n.comparators[0].value is None:
        return n.left.attr
    return None


def slot_aliases(fn):
    """single-assignment locals that merely hold a slot:  cached = self.A   ->  {cached: A}"""
    count, cand = {}, {}
    for n in walk_no_nested(fn):
        if isinstance(n, (ast.Assign, ast.AugAssign, ast.For)):
            tgts = n.targets if isinstance(n, ast.Assign) else [n.target]
            for t in tgts:
                for x in _bound_names(t):
                    count[x] = count.get(x, 0) + 1
            if isinstance(n, ast.Assign) and len(n.targets) == 1 and isinstance(n.targets[0], ast.Name) and _is_self_attr(n.value):
                cand[n.targets[0].id] = n.value.attr
    return {x: a for x, a in cand.items() if count.get(x) == 1}


def memo_slots(fn):
    """attributes of self that the method both tests against None and assigns a computed (non-constant) value"""
    tested, written = set(), {}
    alias = slot_aliases(fn)
    for n in walk_no_nested(fn):
        a = _none_test_of(n)
        if a:
            tested.add(a)
        if isinstance(n, ast.Compare) and len(n.ops) == 1 and isinstance(n.ops[0], (ast.Is, ast.IsNot)) and isinstance(n.left, ast.Name) and n.left.id in alias and \
                isinstance(n.comparators[0], ast.Constant) and n.comparators[0].value is None:
            tested.add(alias[n.left.id])
        if isinstance(n, ast.Assign):
            for t in n.targets:
                if _is_self_attr(t) and not isinstance(n.value, ast.Constant):
                    written.setdefault(t.attr, []).append(n)
    return {a: written[a] for a in tested & set(written)}


def _names(e):
    return {n.id for n in ast.walk(e) if isinstance(n, ast.Name)}


def _bound_names(t):
    """local names an assignment target binds (not the objects whose attributes / items it stores into)"""
    if isinstance(t, ast.Name):
        return [t.id]
    if isinstance(t, (ast.Tuple, ast.List)):
        return [x for e in t.elts for x in _bound_names(e)]
    if isinstance(t, ast.Starred):
        return _bound_names(t.value)
    return []


def dependency_closure(fn, value):
    """names the value (an expression, or an iterable of names) is computed from, through the local assignments of the method (flow-insensitive)"""
    defs = {}
    for n in walk_no_nested(fn):
        if isinstance(n, ast.Assign):
            for t in n.targets:
                for x in _bound_names(t):
                    defs.setdefault(x, set()).update(_names(n.value))
        elif isinstance(n, ast.AugAssign) and isinstance(n.target, ast.Name):
            defs.setdefault(n.target.id, set()).update(_names(n.value) | {n.target.id})
        elif isinstance(n, (ast.For, ast.comprehension)):
            for x in _bound_names(n.target):
                defs.setdefault(x, set()).update(_names(n.iter))
    seen, todo = set(), list(_names(value) if isinstance(value, ast.AST) else value)
    while todo:
        x = todo.pop()
        if x in seen:
            continue
        seen.add(x)
        todo += list(defs.get(x, ()))
    return seen


def memo_check(fn, attr, stores):
    """-> (param deps, [(kind 'use'|'fill', node, missing params)])"""
    params = [a.arg for a in fn.args.args[1:]] + [a.arg for a in fn.args.kwonlyargs]
    deps = set()
    for st in stores:
        # a store of the slot's own previous value (unpacking / re-store) is not a computation
        deps |= dependency_closure(fn, st.value)
    pdeps = sorted(p for p in params if p in deps)
    if not pdeps:
        return pdeps, []
    events = []

    alias = {x for x, a in slot_aliases(fn).items() if a == attr}

    def is_slot(x):
        return (_is_self_attr(x, attr) or (isinstance(x, ast.Name) and x.id in alias)) and isinstance(x.ctx, ast.Load)

    def reads_slot(node):
        if isinstance(node, ast.Assign) and len(node.targets) == 1 and isinstance(node.targets[0], ast.Name) and node.targets[0].id in alias:
            return False            # copying the slot into its alias is not yet a use
        tests = {id(x.left) for x in ast.walk(node) if isinstance(x, ast.Compare) and len(x.ops) == 1 and isinstance(x.ops[0], (ast.Is, ast.IsNot))
                 and isinstance(x.comparators[0], ast.Constant) and x.comparators[0].value is None}
        for x in ast.walk(node):
            if is_slot(x) and id(x) not in tests:
                return True
        return False

    def transfer(node, state):
        if isinstance(node, ast.Assign) and any(_is_self_attr(t, attr) for t in node.targets):
            events.append(('fill', node, state))
            return state | {('W', attr)}
        if isinstance(node, (ast.stmt, ast.expr)) and not isinstance(node, (ast.If, ast.While, ast.For)) and ('W', attr) not in state and reads_slot(node):
            events.append(('use', node, state))
        return state
    pyflow.Flow(transfer).run(fn)
    out = []
    for kind, node, state in events:
        mentioned = set()
        for f in state:
            if isinstance(f, tuple) and len(f) == 4 and f[0] == '?':
                for nm in f[3]:
                    mentioned.add(nm.split('.', 1)[0])
        mentioned = dependency_closure(fn, mentioned)        # a test of a local flag is a test of what the flag was computed from
        missing = [p for p in pdeps if p not in mentioned]
        out.append((kind, node, missing))
    return pdeps, out


MEMO_POSITIVE = '''
class CIntLike:
    def convert_to_pystring(self, cvalue, code, format_spec=None, name_type=None):
        if self.to_pyunicode_utility is not None:
            cname, util = self.to_pyunicode_utility
        else:
            if name_type is None:
                name_type = self
            cname = "__Pyx_PyUnicode_From_" + name_type.specialization_name()
            util = load("CIntToPyUnicode", context={"TYPE": name_type.empty_declaration_code(), "TO_PY_FUNCTION": cname})
            if name_type is self:
                self.to_pyunicode_utility = (cname, util)
        code.globalstate.use_utility_code(util)
        return "%s(%s)" % (cname, cvalue)
'''


def _memo_eval(r, clsname, fn, rel, exempt=()):
    n = 0
    for attr, stores in sorted(memo_slots(fn).items()):
        key = 'PyrexTypes.%s.%s:%s' % (clsname, fn.name, attr)
        pdeps, events = memo_check(fn, attr, stores)
        n += 1
        r.inst(key, sample='%s: memo slot self.%s, value depends on parameter(s) %s' % (key, attr, pdeps or '-'), nontrivial=bool(pdeps))
        bad_use = [(node, missing) for kind, node, missing in events if kind == 'use' and missing]
        bad_fill = [(node, missing) for kind, node, missing in events if kind == 'fill' and missing]
        if bad_use:
            node, missing = bad_use[0]
            r.violate(key + ':use', rel, node.lineno,
                      '%s.%s serves the memoised self.%s (`%s`) on a path that never looks at parameter %s, but the memoised value is computed from it: the value built '
                      'for one %s is reused for every other one (the C helper instantiated for the declared base type formats an external typedef\'d value of a different '
                      'real width: wrong digits)' % (clsname, fn.name, attr, node_src(node, 70), '/'.join(missing), '/'.join(missing)))
        if bad_fill:
            node, missing = bad_fill[0]
            r.violate(key + ':fill', rel, node.lineno,
                      '%s.%s stores self.%s (`%s`) on a path that never looks at parameter %s although the stored value is computed from it: a value that is specific to '
                      'one argument is memoised on the shared type object and served to later callers' % (clsname, fn.name, attr, node_src(node, 70), '/'.join(missing)))
    return n


def rule_memo(ctx):
    r = Rule('C18-MEMO', 'memo slots on the shared C type objects (PyrexTypes): every parameter the memoised value is computed from takes part in the decision to use '
             'and in the decision to fill the slot (cache-key completeness; convert_to_pystring memoises the integer-to-text helper per type)', floor=17)
    tree = ctx.parse(PYREX)
    total = 0
    keyed = 0
    for cls in [n for n in ast.walk(tree) if isinstance(n, ast.ClassDef)]:
        for fn in cls.body:
            if isinstance(fn, ast.FunctionDef) and fn.args.args and fn.args.args[0].arg == 'self':
                total += _memo_eval(r, cls.name, fn, PYREX)
    if not any('.convert_to_pystring:' in str(k) for k in r.nontrivial):
        raise AnalysisError('no memo slot with a parameter-dependent value found in a convert_to_pystring method (the C18 anchor of this rule)')
    # embedded positive example
    pr = Rule('pc', 'pc')
    pcls = ast.parse(MEMO_POSITIVE).body[0]
    _memo_eval(pr, pcls.name, pcls.body[0], 'pc')
    r.positive_control({f.construct for f in pr.findings} == {'PyrexTypes.CIntLike.convert_to_pystring:to_pyunicode_utility:use'},
                       'memo read without a test of name_type')
    return r


# =================================================================================================== C18-STRNONE
class NeedDecision(Exception):
    pass


class Unmodelled(Exception):
    pass


class Const:
    __slots__ = ('v',)

    def __init__(self, v):
        self.v = v

    def __repr__(self):
        return 'Const(%r)' % (self.v,)


class Obj:
    """opaque object identified by the access path it was reached through"""
    __slots__ = ('path',)

    def __init__(self, path):
        self.path = path

    def __repr__(self):
        return 'Obj(%s)' % self.path


class Text:
    """a string being assembled for emission; `marks` = provenance marks of the parts it was built from"""
    __slots__ = ('marks',)

    def __init__(self, marks=()):
        self.marks = frozenset(marks)


class PyList:
    __slots__ = ('items',)

    def __init__(self, items):
        self.items = list(items)


class _Return(Exception):
    def __init__(self, value):
        self.value = value


class Run:
    """One execution of a function under a (lazily extended) valuation of its opaque tests."""

    def __init__(self, decisions, attr_values, class_consts, inline, marks_of_call):
        self.decisions = list(decisions)
        self.cursor = 0
        self.val = {}                 # atom key -> bool, in decision order
        self.attr_values = attr_values    # access path -> Const   (scenario: e.g. self.conversion_char)
        self.class_consts = class_consts  # access path -> Const   (class-level defaults, until stored)
        self.stored = {}              # access path -> value      (attribute stores during the run)
        self.inline = inline          # method name -> FunctionDef (interpreted instead of being opaque)
        self.marks_of_call = marks_of_call    # callable(method name, [arg values]) -> marks or None
        self.events = []              # ('emit', marks)
        self.depth = 0

    # ---------------------------------------------------------------- atoms
    def decide(self, key):
        if key in self.val:
            return self.val[key]
        # truthiness and `is None` of one object are linked
        if key.startswith('T:') and self.val.get('N:' + key[2:]) is True:
            self.val[key] = False
            return False
        if key.startswith('N:') and self.val.get('T:' + key[2:]) is True:
            self.val[key] = False
            return False
        if self.cursor >= len(self.decisions):
            raise NeedDecision(key)
        v = self.decisions[self.cursor]
        self.cursor += 1
        self.val[key] = v
        return v

    def truth(self, v):
        if isinstance(v, Const):
            return bool(v.v)
        if isinstance(v, Text):
            return True
        if isinstance(v, PyList):
            return bool(v.items)
        if isinstance(v, tuple):
            return bool(v)
        if isinstance(v, Obj):
            if v.path.startswith('new:'):
                return True
            return self.decide('T:' + v.path)
        raise Unmodelled('truth of %r' % (v,))

    # ---------------------------------------------------------------- expressions
    def ev(self, n, env):
        m = getattr(self, 'ev_' + type(n).__name__, None)
        if m is None:
            raise Unmodelled('expression %s' % type(n).__name__)
        return m(n, env)

    def ev_Constant(self, n, env):
        return Const(n.value)

    def ev_Name(self, n, env):
        if n.id in env:
            return env[n.id]
        return Obj(n.id)

    def load_attr(self, base, attr):
        if isinstance(base, Obj):
            path = '%s.%s' % (base.path, attr)
            if path in self.stored:
                return self.stored[path]
            if path in self.attr_values:
                return self.attr_values[path]
            if path in self.class_consts:
                return self.class_consts[path]
            return Obj(path)
        if isinstance(base, Const) and base.v is None:
            raise Unmodelled('attribute %s of None' % attr)
        return Obj('?.%s' % attr)

    def ev_Attribute(self, n, env):
        return self.load_attr(self.ev(n.value, env), n.attr)

    def ev_Tuple(self, n, env):
        return tuple(self.ev(e, env) for e in n.elts)

    def ev_List(self, n, env):
        return PyList(self.ev(e, env) for e in n.elts)

    def ev_Dict(self, n, env):
        for v in n.values:
            self.ev(v, env)
        return Obj('new:dict')

    def ev_IfExp(self, n, env):
        return self.ev(n.body if self.truth(self.ev(n.test, env)) else n.orelse, env)

    def ev_UnaryOp(self, n, env):
        v = self.ev(n.operand, env)
        if isinstance(n.op, ast.Not):
            return Const(not self.truth(v))
        raise Unmodelled('unary operator')

    def ev_BoolOp(self, n, env):
        is_and = isinstance(n.op, ast.And)
        v = None
        for e in n.values:
            v = self.ev(e, env)
            if self.truth(v) != is_and:
                return v
        return v

    def _marks(self, v):
        if isinstance(v, Text):
            return v.marks
        if isinstance(v, tuple):
            out = frozenset()
            for x in v:
                out |= self._marks(x)
            return out
        return frozenset()

    def ev_BinOp(self, n, env):
        a, b = self.ev(n.left, env), self.ev(n.right, env)
        if isinstance(n.op, (ast.Mod, ast.Add)):
            return Text(self._marks(a) | self._marks(b))
        raise Unmodelled('binary operator')

    def ev_JoinedStr(self, n, env):
        marks = frozenset()
        for v in n.values:
            if isinstance(v, ast.FormattedValue):
                marks |= self._marks(self.ev(v.value, env))
        return Text(marks)

    def ev_Subscript(self, n, env):
        v = self.ev(n.value, env)
        i = self.ev(n.slice, env) if not isinstance(n.slice, ast.Slice) else None
        if isinstance(v, (PyList, tuple)) and isinstance(i, Const) and isinstance(i.v, int):
            items = v.items if isinstance(v, PyList) else v
            if -len(items) <= i.v < len(items):
                return items[i.v]
            raise Unmodelled('index out of range')
        if isinstance(v, Obj):
            return Obj('%s[%s]' % (v.path, ast.unparse(n.slice)))
        raise Unmodelled('subscript')

    def ev_Compare(self, n, env):
        left = self.ev(n.left, env)
        for op, c in zip(n.ops, n.comparators):
            right = self.ev(c, env)
            if not self.compare(op, left, right):
                return Const(False)
            left = right
        return Const(True)

    def compare(self, op, a, b):
        neg = isinstance(op, (ast.IsNot, ast.NotEq, ast.NotIn))
        if isinstance(op, (ast.Is, ast.IsNot, ast.Eq, ast.NotEq)):
            if isinstance(a, Const) and isinstance(b, Const):
                r = (a.v is b.v or a.v == b.v) if isinstance(op, (ast.Is, ast.IsNot)) else (a.v == b.v)
            elif isinstance(a, Obj) and isinstance(b, Obj):
                if a.path == b.path:
                    r = True
                else:
                    r = self.decide('%s:%s' % ('IS' if isinstance(op, (ast.Is, ast.IsNot)) else 'EQ', '|'.join(sorted((a.path, b.path)))))
            elif isinstance(a, Obj) or isinstance(b, Obj):
                o, c = (a, b) if isinstance(a, Obj) else (b, a)
                if not isinstance(c, Const):
                    raise Unmodelled('comparison of %r and %r' % (a, b))
                if o.path.startswith('new:'):
                    r = False
                elif c.v is None:
                    r = self.decide('N:' + o.path)
                else:
                    r = self.decide('EQ:%s|%r' % (o.path, c.v))
            else:
                r = False
            return (not r) if neg else r
        if isinstance(op, (ast.In, ast.NotIn)):
            if isinstance(a, Const) and isinstance(b, Const) and isinstance(b.v, str) and isinstance(a.v, str):
                r = a.v in b.v
            elif isinstance(a, Const) and isinstance(b, (tuple, PyList)):
                items = b.items if isinstance(b, PyList) else b
                if not all(isinstance(x, Const) for x in items):
                    raise Unmodelled('membership in a non-constant sequence')
                r = any(x.v == a.v for x in items)
            elif isinstance(a, Const) and a.v is None and isinstance(b, Const) and isinstance(b.v, str):
                raise Unmodelled('None in str')
            else:
                raise Unmodelled('membership test of %r in %r' % (a, b))
            return (not r) if neg else r
        if isinstance(a, Const) and isinstance(b, Const):
            try:
                return {ast.Lt: a.v < b.v, ast.LtE: a.v <= b.v, ast.Gt: a.v > b.v, ast.GtE: a.v >= b.v}[type(op)]
            except (TypeError, KeyError):
                raise Unmodelled('ordering comparison')
        raise Unmodelled('ordering comparison of opaque values')

    def ev_Call(self, n, env):
        f = n.func
        args = [self.ev(a, env) for a in n.args]
        kwargs = {k.arg: self.ev(k.value, env) for k in n.keywords}
        if isinstance(f, ast.Name):
            if f.id == 'len' and len(args) == 1 and isinstance(args[0], (PyList, tuple)):
                return Const(len(args[0].items if isinstance(args[0], PyList) else args[0]))
            if f.id in ('isinstance', 'hasattr', 'getattr'):
                return Obj('%s(%s)' % (f.id, ', '.join(ast.unparse(a) for a in n.args)))
            return Obj('new:%s' % f.id)
        if isinstance(f, ast.Attribute):
            recv = self.ev(f.value, env)
            if isinstance(recv, Obj) and recv.path == 'self' and f.attr in self.inline:
                return self.call_function(self.inline[f.attr], [recv] + args, kwargs)
            marks = self.marks_of_call(f.attr, args)
            if marks is not None:
                return Text(marks)
            if f.attr in ('putln', 'put'):
                m = frozenset()
                for a in args:
                    m |= self._marks(a)
                self.events.append(('emit', m))
                return Const(None)
            if isinstance(recv, Obj):
                if recv.path.split('.')[0][:1].isupper() or recv.path.startswith('new:'):
                    # Module.Class(...) / Class.method(...): a fresh object
                    return Obj('new:%s.%s' % (recv.path, f.attr))
                return Obj('%s.%s()' % (recv.path, f.attr))
            if isinstance(recv, Text):
                return Text(recv.marks)
            return Obj('?.%s()' % f.attr)
        raise Unmodelled('call')

    # ---------------------------------------------------------------- statements
    def call_function(self, fn, args, kwargs=None):
        self.depth += 1
        if self.depth > 3:
            raise Unmodelled('recursion')
        env = {}
        params = [a.arg for a in fn.args.args]
        defaults = fn.args.defaults
        for i, p in enumerate(params):
            if i < len(args):
                env[p] = args[i]
            elif kwargs and p in kwargs:
                env[p] = kwargs[p]
            else:
                j = i - (len(params) - len(defaults))
                env[p] = self.ev(defaults[j], {}) if j >= 0 else Obj(p)
        try:
            self.block(fn.body, env)
            result = Const(None)
        except _Return as r:
            result = r.value
        self.depth -= 1
        return result

    def block(self, stmts, env):
        for s in stmts:
            self.stmt(s, env)

    def assign(self, target, value, env):
        if isinstance(target, ast.Name):
            env[target.id] = value
        elif isinstance(target, (ast.Tuple, ast.List)):
            if not isinstance(value, tuple) or len(value) != len(target.elts):
                for t in target.elts:
                    self.assign(t, Obj('?unpacked'), env)
                return
            for t, v in zip(target.elts, value):
                self.assign(t, v, env)
        elif isinstance(target, ast.Attribute):
            base = self.ev(target.value, env)
            if isinstance(base, Obj):
                path = '%s.%s' % (base.path, target.attr)
                if isinstance(value, Obj) and (value.path == path or value.path.startswith(path + '.')):
                    return          # x.a = x.a.analyse_types(env) / .coerce_to_pyobject(env): still "the operand x.a"
                self.stored[path] = value
        elif isinstance(target, ast.Subscript):
            self.ev(target.value, env)
        else:
            raise Unmodelled('assignment target')

    def stmt(self, s, env):
        if isinstance(s, ast.Assign):
            v = self.ev(s.value, env)
            for t in s.targets:
                self.assign(t, v, env)
        elif isinstance(s, ast.AugAssign):
            cur = self.ev(s.target, env)
            v = self.ev(s.value, env)
            if isinstance(s.op, ast.Add):
                self.assign(s.target, Text(self._marks(cur) | self._marks(v)), env)
            else:
                raise Unmodelled('augmented assignment')
        elif isinstance(s, ast.AnnAssign):
            if s.value is not None:
                self.assign(s.target, self.ev(s.value, env), env)
        elif isinstance(s, ast.If):
            self.block(s.body if self.truth(self.ev(s.test, env)) else s.orelse, env)
        elif isinstance(s, ast.Return):
            raise _Return(self.ev(s.value, env) if s.value is not None else Const(None))
        elif isinstance(s, ast.Expr):
            if not (isinstance(s.value, ast.Constant) and isinstance(s.value.value, str)):
                self.ev(s.value, env)
        elif isinstance(s, ast.Assert):
            self.truth(self.ev(s.test, env))      # a failing assert is an internal error, not an outcome
        elif isinstance(s, ast.Pass):
            pass
        else:
            raise Unmodelled('statement %s' % type(s).__name__)


def explore(fn, args, attr_values, class_consts, inline, marks_of_call, max_runs=4000):
    """All executions of fn -> [(valuation dict, return value, events)]"""
    out = []
    stack = [[]]
    while stack:
        dec = stack.pop()
        run = Run(dec, attr_values, class_consts, inline, marks_of_call)
        try:
            ret = run.call_function(fn, args)
        except NeedDecision:
            stack.append(dec + [True])
            stack.append(dec + [False])
            if len(stack) + len(out) > max_runs:
                raise AnalysisError('%s: too many paths' % fn.name)
            continue
        except Unmodelled as ex:
            raise AnalysisError('%s: cannot be interpreted: %s' % (fn.name, ex))
        out.append((dict(run.val), ret, run.events))
    return out


import re as _re
PYSTR_ATOM = _re.compile(r'^T:(?P<op>.+?)\.type(?:\.resolve\(\))?\.is_pystr_type$')
PYSTR_IS_ATOM = _re.compile(r'^IS:(?:(?P<a>.+?)\.type(?:\.resolve\(\))?\|[\w.]*(?:unicode|str)_type|[\w.]*(?:unicode|str)_type\|(?P<b>.+?)\.type(?:\.resolve\(\))?)$')
NONE_ATOM = _re.compile(r'^T:(?P<op>.+?)\.may_be_none\(\)$')


def operand_facts(val, operand):
    """-> (statically str established?, None excluded?) for the operand path on this run"""
    is_str = none_excluded = False
    for k, v in val.items():
        m = PYSTR_ATOM.match(k)
        if m and m.group('op') == operand and v is True:
            is_str = True
        m = PYSTR_IS_ATOM.match(k)
        if m and (m.group('a') or m.group('b')) == operand and v is True:
            is_str = True
        m = NONE_ATOM.match(k)
        if m and m.group('op') == operand and v is False:
            none_excluded = True
    return is_str, none_excluded


def _class_consts(cls, prefix):
    out = {}
    for n in cls.body:
        if isinstance(n, ast.Assign) and isinstance(n.value, ast.Constant):
            for t in n.targets:
                if isinstance(t, ast.Name):
                    out['%s.%s' % (prefix, t.id)] = Const(n.value.value)
    return out


def _find_class(tree, name, rel):
    for n in tree.body:
        if isinstance(n, ast.ClassDef) and n.name == name:
            return n
    raise AnalysisError('%s: class %s not found' % (rel, name))


def _find_method(cls, name, rel):
    hit = None
    for n in cls.body:
        if isinstance(n, ast.FunctionDef) and n.name == name:
            hit = n
        if isinstance(n, ast.Assign) and any(isinstance(t, ast.Name) and t.id == name for t in n.targets) and isinstance(n.value, ast.Name):
            return _find_method(cls, n.value.id, rel)
    if hit is None:
        raise AnalysisError('%s: %s.%s not found' % (rel, cls.name, name))
    return hit


def conversion_domain(cls):
    """conversion characters FormattedValueNode knows (keys of its find_conversion_func table) + None"""
    for n in cls.body:
        if isinstance(n, ast.Assign) and any(isinstance(t, ast.Name) and t.id == 'find_conversion_func' for t in n.targets):
            d = n.value.value if isinstance(n.value, ast.Attribute) else n.value
            if isinstance(d, ast.Dict) and all(isinstance(k, ast.Constant) for k in d.keys):
                return [None] + [k.value for k in d.keys]
    raise AnalysisError('FormattedValueNode.find_conversion_func table not found')


def _conv_marks(name, args):
    if name == 'find_conversion_func' and len(args) == 1:
        if isinstance(args[0], Const) and args[0].v is not None:
            return {'CONV'}
        if isinstance(args[0], Const):
            return set()
        raise Unmodelled('find_conversion_func of a non-constant')
    return None


def strnone_cases(fv_cls, opt_cls, convs):
    """-> [(key, sample, problem or None)] over all (function, conversion character, path) cases"""
    out = []
    why = ("a value statically typed str may be None at run time and str(None) is 'None': the conversion may only be dropped for conversion !s / none, "
           "a statically-str operand AND after may_be_none() was excluded")

    def describe(val):
        def one(k, v):
            kind, path = k.split(':', 1)
            if kind == 'N':
                return '%s is %sNone' % (path, '' if v else 'not ')
            if kind == 'T':
                return '%s%s' % ('' if v else 'not ', path)
            return '%s(%s)=%s' % (kind, path, v)
        return ', '.join(one(k, v) for k, v in val.items()) or 'no tests'
    # T1: FormattedValueNode.analyse_types -> returns the node, or the bare operand
    fn = _find_method(fv_cls, 'analyse_types', EXPRNODES)
    cc = _class_consts(fv_cls, 'self')
    for conv in convs:
        runs = explore(fn, [Obj('self'), Obj('env')], {'self.conversion_char': Const(conv)}, cc, {}, _conv_marks)
        for val, ret, events in runs:
            bare = isinstance(ret, Obj) and ret.path == 'self.value'
            key = 'ExprNodes.FormattedValueNode.analyse_types:conv=%s' % conv
            prob = None
            if bare:
                is_str, no_none = operand_facts(val, 'self.value')
                spec = val.get('T:self.format_spec')
                if conv not in (None, 's'):
                    prob = 'returns the bare operand although the conversion !%s must be applied' % conv
                elif spec is not False:
                    prob = 'returns the bare operand on a path that did not exclude a format spec'
                elif not (is_str and no_none):
                    prob = 'returns the bare operand (no str() / format() call at all) on a path with %s; %s' % (describe(val), why)
            out.append((key, 'analyse_types conv=%r: %s -> %s' % (conv, describe(val), 'bare operand' if bare else 'node kept'), prob, fn.lineno, EXPRNODES))
    # T2: FormattedValueNode.generate_result_code -> emitted call wraps the operand in the conversion function or not
    fn = _find_method(fv_cls, 'generate_result_code', EXPRNODES)
    for conv in convs:
        runs = explore(fn, [Obj('self'), Obj('code')], {'self.conversion_char': Const(conv)}, {}, {}, _conv_marks)
        for val, ret, events in runs:
            emits = [m for k, m in events if k == 'emit']
            if not emits:
                raise AnalysisError('FormattedValueNode.generate_result_code: a path emits nothing (%s)' % describe(val))
            c_level = any(k.startswith('T:self.value.type.is_pyobject') and v is False for k, v in val.items())
            wrapped = any('CONV' in m for m in emits)
            key = 'ExprNodes.FormattedValueNode.generate_result_code:conv=%s' % conv
            prob = None
            if not c_level and conv is not None and not wrapped:
                is_str, no_none = operand_facts(val, 'self.value')
                if conv != 's':
                    prob = 'emits the format call without the !%s conversion' % conv
                elif not (is_str and no_none):
                    prob = ('emits __Pyx_PyObject_Format*(value, spec) without piping the value through PyObject_Str on a path with %s: for a None value '
                            'NoneType.__format__ raises TypeError for a non-empty spec (CPython formats the text \'None\'); %s' % (describe(val), why))
            out.append((key, 'generate_result_code conv=%r: %s -> %s' % (conv, describe(val), 'C level' if c_level else ('converted' if wrapped else 'not converted')), prob, fn.lineno, EXPRNODES))
    # T3: the str()/unicode() call optimisation returns its argument unchanged
    fn3 = _find_method(opt_cls, '_handle_simple_function_unicode', OPTIMIZE)
    runs = explore(fn3, [Obj('self'), Obj('node'), Obj('function'), PyList([Obj('arg0')])], {}, {}, {}, _conv_marks)
    for val, ret, events in runs:
        bare = isinstance(ret, Obj) and ret.path == 'arg0'
        prob = None
        if bare:
            is_str, no_none = operand_facts(val, 'arg0')
            if not (is_str and no_none):
                prob = 'str(x) is replaced by x itself on a path with %s; %s' % (describe(val), why)
        out.append(('Optimize.OptimizeBuiltinCalls.%s:str(x)' % fn3.name, 'str(x): %s -> %s' % (describe(val), 'x itself' if bare else 'call kept'), prob, fn3.lineno, OPTIMIZE))
    # T4: OptimizeBuiltinCalls.visit_FormattedValueNode replaces the node by the str() optimisation
    fn4 = _find_method(opt_cls, 'visit_FormattedValueNode', OPTIMIZE)
    for conv in convs:
        runs = explore(fn4, [Obj('self'), Obj('node')], {'node.conversion_char': Const(conv)}, {}, {fn3.name: fn3, '_handle_simple_function_unicode': fn3, '_handle_simple_function_str': fn3}, _conv_marks)
        for val, ret, events in runs:
            kept = isinstance(ret, Obj) and ret.path == 'node'
            bare = isinstance(ret, Obj) and ret.path == 'node.value'
            key = 'Optimize.OptimizeBuiltinCalls.visit_FormattedValueNode:conv=%s' % conv
            prob = None
            if not kept:
                is_str, no_none = operand_facts(val, 'node.value')
                if conv not in (None, 's'):
                    prob = 'replaces the formatted value by str(value) although the conversion is !%s' % conv
                elif val.get('T:node.format_spec') is not False:
                    prob = 'replaces the formatted value by str(value) on a path that did not exclude a format spec'
                elif bare and not (is_str and no_none):
                    prob = 'replaces f"{x}" by x itself on a path with %s; %s' % (describe(val), why)
            out.append((key, 'visit_FormattedValueNode conv=%r: %s -> %s' % (conv, describe(val), 'node kept' if kept else ('bare operand' if bare else 'str() call')), prob, fn4.lineno, OPTIMIZE))
    return out


STRNONE_POSITIVE = '''
class FormattedValueNode:
    c_format_spec = None
    find_conversion_func = {'s': 'PyObject_Str', 'r': 'PyObject_Repr'}.get
    def analyse_types(self, env):
        self.value = self.value.analyse_types(env)
        if not self.format_spec and (not self.conversion_char or self.conversion_char == 's'):
            if self.value.type.is_pystr_type:
                return self.value
        return self
    def generate_result_code(self, code):
        value_result = self.value.py_result()
        value_is_unicode = self.value.type.is_pystr_type
        conversion_char = self.conversion_char
        if conversion_char == 's' and value_is_unicode:
            conversion_char = None
        if conversion_char:
            fn = self.find_conversion_func(conversion_char)
            value_result = '%s(%s)' % (fn, value_result)
        code.putln("%s = f(%s);" % (self.result(), value_result))

class OptimizeBuiltinCalls:
    def _handle_simple_function_unicode(self, node, function, pos_args):
        arg = pos_args[0]
        if arg.type.is_pystr_type:
            if not arg.may_be_none():
                return arg
        return ExprNodes.PythonCapiCallNode(node.pos, "f", args=pos_args)
    def visit_FormattedValueNode(self, node):
        if node.value.type.is_pystr_type and not node.format_spec:
            return self._handle_simple_function_unicode(node, None, [node.value])
        return node
'''


def rule_strnone(ctx):
    r = Rule('C18-STRNONE', 'the !s / str() conversion of a formatted value is dropped only for conversion !s / none on a statically-str operand whose may_be_none() was '
             'excluded (decision tables of FormattedValueNode.analyse_types / generate_result_code and of the str() optimisation, over all valuations of their tests)', floor=14)
    fv = _find_class(ctx.parse(EXPRNODES), 'FormattedValueNode', EXPRNODES)
    opt = _find_class(ctx.parse(OPTIMIZE), 'OptimizeBuiltinCalls', OPTIMIZE)
    convs = conversion_domain(fv)
    if not {'s', 'r', 'a'} <= set(convs):
        raise AnalysisError('FormattedValueNode.find_conversion_func lost one of s/r/a: %s' % convs)
    cases = strnone_cases(fv, opt, convs)
    dropped = 0
    seen = set()
    paths = {}
    for key, sample, prob, line, rel in cases:
        paths[key] = paths.get(key, 0) + 1
    counted = set()
    for key, sample, prob, line, rel in cases:
        if key not in counted:
            counted.add(key)
            r.inst(key, sample='%s (%d paths; first: %s)' % (key, paths[key], sample))
        if 'bare operand' in sample or 'not converted' in sample or 'x itself' in sample:
            dropped += 1
        if prob and key not in seen:
            seen.add(key)
            more = sum(1 for k, _, p, _, _ in cases if k == key and p) - 1
            r.violate(key, rel, line, prob + ('' if not more else ' (+%d more paths)' % more))
    if dropped < 3:
        raise AnalysisError('the str() elision paths were not found (%d): the model of the formatting functions is out of date' % dropped)
    ptree = ast.parse(STRNONE_POSITIVE)
    pc = strnone_cases(ptree.body[0], ptree.body[1], conversion_domain(ptree.body[0]))
    bad = {k for k, _, p, _, _ in pc if p}
    r.positive_control(bad == {'ExprNodes.FormattedValueNode.analyse_types:conv=None', 'ExprNodes.FormattedValueNode.analyse_types:conv=s',
                               'ExprNodes.FormattedValueNode.generate_result_code:conv=s', 'Optimize.OptimizeBuiltinCalls.visit_FormattedValueNode:conv=r'},
                       'str-typed operand treated as text without excluding None; !r value replaced by str()')
    return r
