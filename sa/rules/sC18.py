"""Strengthening rules for C18 (string formatting).

C18-MEMO   Cache-key completeness of the per-type memo slots in PyrexTypes.  A C type object is a process-wide singleton; a method that memoises a
           computed value on it (`if self.X is None: ... self.X = V` / `if self.X is not None: use self.X`) may only depend on `self` - or every
           further parameter the memoised value is computed from (def-use closure over the local assignments of the method) must take part in the
           decision to USE the slot (a branch fact on the path to every read that is not preceded by a write) and in the decision to FILL it (a
           branch fact on the path to the store).  Otherwise the value computed for one argument is served for another one: the conversion helper
           instantiated for plain `int` is reused for an external `ctypedef int wide_t` (really 64 bit) and f"{wide}" prints truncated numbers.

C18-STRNONE  Decision table of the `!s` / str() elision.  A value whose static type is `str` may still be None, and str(None) == 'None' is not None.
           Every function of the formatting mechanism that can drop the conversion step - FormattedValueNode.analyse_types (returns the operand itself),
           FormattedValueNode.generate_result_code (does not wrap the operand in the conversion call), OptimizeBuiltinCalls._handle_simple_function_unicode
           (returns the argument itself) and OptimizeBuiltinCalls.visit_FormattedValueNode (replaces the node by the str() optimisation) - is executed by a
           small symbolic interpreter (of the checker; no repository code runs) over the complete valuation space of its atomic tests, with the conversion
           character ranging over {None, 's', 'r', 'a', 'd'}; the observed outcome (conversion kept / dropped) is compared with the reference
           "dropped only if conversion in (None*, 's') and the operand is statically str and cannot be None [and there is no format spec where the
           outcome is the bare operand]".
"""
import ast, itertools, re

from ..core import Rule, AnalysisError, node_src
from ..engine import pyflow
from ..engine.pyindex import walk_no_nested

PYREX = 'Cython/Compiler/PyrexTypes.py'
EXPRNODES = 'Cython/Compiler/ExprNodes.py'
OPTIMIZE = 'Cython/Compiler/Optimize.py'


# =================================================================================================== C18-MEMO
def _is_self_attr(n, attr=None):
    return isinstance(n, ast.Attribute) and isinstance(n.value, ast.Name) and n.value.id == 'self' and (attr is None or n.attr == attr)


def _none_test_of(n):
    """`self.A is None` / `self.A is not None` -> A"""
    if isinstance(n, ast.Compare) and len(n.ops) == 1 and isinstance(n.ops[0], (ast.Is, ast.IsNot)) and _is_self_attr(n.left) and \
            isinstance(n.comparators[0], ast.Constant) and n.comparators[0].value is None:
        return n.left.attr
    return None


def slot_aliases(fn):
    """single-assignment locals that merely hold a slot:  cached = self.A   ->  {cached: A}"""
    count, cand = {}, {}
    for n in walk_no_nested(fn):
        if isinstance(n, (ast.Assign, ast.AugAssign, ast.For)):
            tgts = n.targets if isinstance(n, ast.Assign) else [n.target]
            for t in tgts:
                for x in _bound_names(t):
                    count[x] = count.get(x, 0) + 1
            if isinstance(n, ast.Assign) and len(n.targets) == 1 and isinstance(n.targets[0], ast.Name) and _is_self_attr(n.value):
                cand[n.targets[0].id] = n.value.attr
    return {x: a for x, a in cand.items() if count.get(x) == 1}


def memo_slots(fn):
    """attributes of self that the method both tests against None and assigns a computed (non-constant) value"""
    tested, written = set(), {}
    alias = slot_aliases(fn)
    for n in walk_no_nested(fn):
        a = _none_test_of(n)
        if a:
            tested.add(a)
        if isinstance(n, ast.Compare) and len(n.ops) == 1 and isinstance(n.ops[0], (ast.Is, ast.IsNot)) and isinstance(n.left, ast.Name) and n.left.id in alias and \
                isinstance(n.comparators[0], ast.Constant) and n.comparators[0].value is None:
            tested.add(alias[n.left.id])
        if isinstance(n, ast.Assign):
            for t in n.targets:
                if _is_self_attr(t) and not isinstance(n.value, ast.Constant):
                    written.setdefault(t.attr, []).append(n)
    return {a: written[a] for a in tested & set(written)}


def _names(e):
    return {n.id for n in ast.walk(e) if isinstance(n, ast.Name)}


def _bound_names(t):
    """local names an assignment target binds (not the objects whose attributes / items it stores into)"""
    if isinstance(t, ast.Name):
        return [t.id]
    if isinstance(t, (ast.Tuple, ast.List)):
        return [x for e in t.elts for x in _bound_names(e)]
    if isinstance(t, ast.Starred):
        return _bound_names(t.value)
    return []


def dependency_closure(fn, value):
    """names the value (an expression, or an iterable of names) is computed from, through the local assignments of the method (flow-insensitive)"""
    defs = {}
    for n in walk_no_nested(fn):
        if isinstance(n, ast.Assign):
            for t in n.targets:
                for x in _bound_names(t):
                    defs.setdefault(x, set()).update(_names(n.value))
        elif isinstance(n, ast.AugAssign) and isinstance(n.target, ast.Name):
            defs.setdefault(n.target.id, set()).update(_names(n.value) | {n.target.id})
        elif isinstance(n, (ast.For, ast.comprehension)):
            for x in _bound_names(n.target):
                defs.setdefault(x, set()).update(_names(n.iter))
    seen, todo = set(), list(_names(value) if isinstance(value, ast.AST) else value)
    while todo:
        x = todo.pop()
        if x in seen:
            continue
        seen.add(x)
        todo += list(defs.get(x, ()))
    return seen


def memo_check(fn, attr, stores):
    """-> (param deps, [(kind 'use'|'fill', node, missing params)])"""
    params = [a.arg for a in fn.args.args[1:]] + [a.arg for a in fn.args.kwonlyargs]
    deps = set()
    for st in stores:
        # a store of the slot's own previous value (unpacking / re-store) is not a computation
        deps |= dependency_closure(fn, st.value)
    pdeps = sorted(p for p in params if p in deps)
    if not pdeps:
        return pdeps, []
    events = []

    alias = {x for x, a in slot_aliases(fn).items() if a == attr}

    def is_slot(x):
        return (_is_self_attr(x, attr) or (isinstance(x, ast.Name) and x.id in alias)) and isinstance(x.ctx, ast.Load)

    def reads_slot(node):
        if isinstance(node, ast.Assign) and len(node.targets) == 1 and isinstance(node.targets[0], ast.Name) and node.targets[0].id in alias:
            return False            # copying the slot into its alias is not yet a use
        tests = {id(x.left) for x in ast.walk(node) if isinstance(x, ast.Compare) and len(x.ops) == 1 and isinstance(x.ops[0], (ast.Is, ast.IsNot))
                 and isinstance(x.comparators[0], ast.Constant) and x.comparators[0].value is None}
        for x in ast.walk(node):
            if is_slot(x) and id(x) not in tests:
                return True
        return False

    def transfer(node, state):
        if isinstance(node, ast.Assign) and any(_is_self_attr(t, attr) for t in node.targets):
            events.append(('fill', node, state))
            return state | {('W', attr)}
        if isinstance(node, (ast.stmt, ast.expr)) and not isinstance(node, (ast.If, ast.While, ast.For)) and ('W', attr) not in state and reads_slot(node):
            events.append(('use', node, state))
        return state
    pyflow.Flow(transfer).run(fn)
    out = []
    for kind, node, state in events:
        mentioned = set()
        for f in state:
            if isinstance(f, tuple) and len(f) == 4 and f[0] == '?':
                for nm in f[3]:
                    mentioned.add(nm.split('.', 1)[0])
        mentioned = dependency_closure(fn, mentioned)        # a test of a local flag is a test of what the flag was computed from
        missing = [p for p in pdeps if p not in mentioned]
        out.append((kind, node, missing))
    return pdeps, out


MEMO_POSITIVE = '''
class CIntLike:
    def convert_to_pystring(self, cvalue, code, format_spec=None, name_type=None):
        if self.to_pyunicode_utility is not None:
            cname, util = self.to_pyunicode_utility
        else:
            if name_type is None:
                name_type = self
            cname = "__Pyx_PyUnicode_From_" + name_type.specialization_name()
            util = load("CIntToPyUnicode", context={"TYPE": name_type.empty_declaration_code(), "TO_PY_FUNCTION": cname})
            if name_type is self:
                self.to_pyunicode_utility = (cname, util)
        code.globalstate.use_utility_code(util)
        return "%s(%s)" % (cname, cvalue)
'''


def _memo_eval(r, clsname, fn, rel, exempt=()):
    n = 0
    for attr, stores in sorted(memo_slots(fn).items()):
        key = 'PyrexTypes.%s.%s:%s' % (clsname, fn.name, attr)
        pdeps, events = memo_check(fn, attr, stores)
        n += 1
        r.inst(key, sample='%s: memo slot self.%s, value depends on parameter(s) %s' % (key, attr, pdeps or '-'), nontrivial=bool(pdeps))
        bad_use = [(node, missing) for kind, node, missing in events if kind == 'use' and missing]
        bad_fill = [(node, missing) for kind, node, missing in events if kind == 'fill' and missing]
        if bad_use:
            node, missing = bad_use[0]
            r.violate(key + ':use', rel, node.lineno,
                      '%s.%s serves the memoised self.%s (`%s`) on a path that never looks at parameter %s, but the memoised value is computed from it: the value built '
                      'for one %s is reused for every other one (the C helper instantiated for the declared base type formats an external typedef\'d value of a different '
                      'real width: wrong digits)' % (clsname, fn.name, attr, node_src(node, 70), '/'.join(missing), '/'.join(missing)))
        if bad_fill:
            node, missing = bad_fill[0]
            r.violate(key + ':fill', rel, node.lineno,
                      '%s.%s stores self.%s (`%s`) on a path that never looks at parameter %s although the stored value is computed from it: a value that is specific to '
                      'one argument is memoised on the shared type object and served to later callers' % (clsname, fn.name, attr, node_src(node, 70), '/'.join(missing)))
    return n


def rule_memo(ctx):
    r = Rule('C18-MEMO', 'memo slots on the shared C type objects (PyrexTypes): every parameter the memoised value is computed from takes part in the decision to use '
             'and in the decision to fill the slot (cache-key completeness; convert_to_pystring memoises the integer-to-text helper per type)', floor=17)
    tree = ctx.parse(PYREX)
    total = 0
    keyed = 0
    for cls in [n for n in ast.walk(tree) if isinstance(n, ast.ClassDef)]:
        for fn in cls.body:
            if isinstance(fn, ast.FunctionDef) and fn.args.args and fn.args.args[0].arg == 'self':
                total += _memo_eval(r, cls.name, fn, PYREX)
    if not any('.convert_to_pystring:' in str(k) for k in r.nontrivial):
        raise AnalysisError('no memo slot with a parameter-dependent value found in a convert_to_pystring method (the C18 anchor of this rule)')
    # embedded positive example
    pr = Rule('pc', 'pc')
    pcls = ast.parse(MEMO_POSITIVE).body[0]
    _memo_eval(pr, pcls.name, pcls.body[0], 'pc')
    r.positive_control({f.construct for f in pr.findings} == {'PyrexTypes.CIntLike.convert_to_pystring:to_pyunicode_utility:use'},
                       'memo read without a test of name_type')
    return r


# =================================================================================================== C18-STRNONE
class NeedDecision(Exception):
    pass


class Unmodelled(Exception):
    pass


class Const:
    __slots__ = ('v',)

    def __init__(self, v):
        self.v = v

    def __repr__(self):
        return 'Const(%r)' % (self.v,)


class Obj:
    """opaque object identified by the access path it was reached through"""
    __slots__ = ('path',)

    def __init__(self, path):
        self.path = path

    def __repr__(self):
        return 'Obj(%s)' % self.path


class Text:
    """a string being assembled for emission; `marks` = provenance marks of the parts it was built from"""
    __slots__ = ('marks',)

    def __init__(self, marks=()):
        self.marks = frozenset(marks)


class PyList:
    __slots__ = ('items',)

    def __init__(self, items):
        self.items = list(items)


class _Return(Exception):
    def __init__(self, value):
        self.value = value


class Run:
    """One execution of a function under a (lazily extended) valuation of its opaque tests."""

    def __init__(self, decisions, attr_values, class_consts, inline, marks_of_call):
        self.decisions = list(decisions)
        self.cursor = 0
        self.val = {}                 # atom key -> bool, in decision order
        self.attr_values = attr_values    # access path -> Const   (scenario: e.g. self.conversion_char)
        self.class_consts = class_consts  # access path -> Const   (class-level defaults, until stored)
        self.stored = {}              # access path -> value      (attribute stores during the run)
        self.inline = inline          # method name -> FunctionDef (interpreted instead of being opaque)
        self.marks_of_call = marks_of_call    # callable(method name, [arg values]) -> marks or None
        self.events = []              # ('emit', marks)
        self.depth = 0

    # ---------------------------------------------------------------- atoms
    def decide(self, key):
        if key in self.val:
            return self.val[key]
        # truthiness and `is None` of one object are linked
        if key.startswith('T:') and self.val.get('N:' + key[2:]) is True:
            self.val[key] = False
            return False
        if key.startswith('N:') and self.val.get('T:' + key[2:]) is True:
            self.val[key] = False
            return False
        if self.cursor >= len(self.decisions):
            raise NeedDecision(key)
        v = self.decisions[self.cursor]
        self.cursor += 1
        self.val[key] = v
        return v

    def truth(self, v):
        if isinstance(v, Const):
            return bool(v.v)
        if isinstance(v, Text):
            return True
        if isinstance(v, PyList):
            return bool(v.items)
        if isinstance(v, tuple):
            return bool(v)
        if isinstance(v, Obj):
            if v.path.startswith('new:'):
                return True
            return self.decide('T:' + v.path)
        raise Unmodelled('truth of %r' % (v,))

    # ---------------------------------------------------------------- expressions
    def ev(self, n, env):
        m = getattr(self, 'ev_' + type(n).__name__, None)
        if m is None:
            raise Unmodelled('expression %s' % type(n).__name__)
        return m(n, env)

    def ev_Constant(self, n, env):
        return Const(n.value)

    def ev_Name(self, n, env):
        if n.id in env:
            return env[n.id]
        return Obj(n.id)

    def load_attr(self, base, attr):
        if isinstance(base, Obj):
            path = '%s.%s' % (base.path, attr)
            if path in self.stored:
                return self.stored[path]
            if path in self.attr_values:
                return self.attr_values[path]
            if path in self.class_consts:
                return self.class_consts[path]
            return Obj(path)
        if isinstance(base, Const) and base.v is None:
            raise Unmodelled('attribute %s of None' % attr)
        return Obj('?.%s' % attr)

    def ev_Attribute(self, n, env):
        return self.load_attr(self.ev(n.value, env), n.attr)

    def ev_Tuple(self, n, env):
        return tuple(self.ev(e, env) for e in n.elts)

    def ev_List(self, n, env):
        return PyList(self.ev(e, env) for e in n.elts)

    def ev_Dict(self, n, env):
        for v in n.values:
            self.ev(v, env)
        return Obj('new:dict')

    def ev_IfExp(self, n, env):
        return self.ev(n.body if self.truth(self.ev(n.test, env)) else n.orelse, env)

    def ev_UnaryOp(self, n, env):
        v = self.ev(n.operand, env)
        if isinstance(n.op, ast.Not):
            return Const(not self.truth(v))
        raise Unmodelled('unary operator')

    def ev_BoolOp(self, n, env):
        is_and = isinstance(n.op, ast.And)
        v = None
        for e in n.values:
            v = self.ev(e, env)
            if self.truth(v) != is_and:
                return v
        return v

    def _marks(self, v):
        if isinstance(v, Text):
            return v.marks
        if isinstance(v, tuple):
            out = frozenset()
            for x in v:
                out |= self._marks(x)
            return out
        return frozenset()

    def ev_BinOp(self, n, env):
        a, b = self.ev(n.left, env), self.ev(n.right, env)
        if isinstance(n.op, (ast.Mod, ast.Add)):
            return Text(self._marks(a) | self._marks(b))
        raise Unmodelled('binary operator')

    def ev_JoinedStr(self, n, env):
        marks = frozenset()
        for v in n.values:
            if isinstance(v, ast.FormattedValue):
                marks |= self._marks(self.ev(v.value, env))
        return Text(marks)

    def ev_Subscript(self, n, env):
        v = self.ev(n.value, env)
        i = self.ev(n.slice, env) if not isinstance(n.slice, ast.Slice) else None
        if isinstance(v, (PyList, tuple)) and isinstance(i, Const) and isinstance(i.v, int):
            items = v.items if isinstance(v, PyList) else v
            if -len(items) <= i.v < len(items):
                return items[i.v]
            raise Unmodelled('index out of range')
        if isinstance(v, Obj):
            return Obj('%s[%s]' % (v.path, ast.unparse(n.slice)))
        raise Unmodelled('subscript')

    def ev_Compare(self, n, env):
        left = self.ev(n.left, env)
        for op, c in zip(n.ops, n.comparators):
            right = self.ev(c, env)
            if not self.compare(op, left, right):
                return Const(False)
            left = right
        return Const(True)

    def compare(self, op, a, b):
        neg = isinstance(op, (ast.IsNot, ast.NotEq, ast.NotIn))
        if isinstance(op, (ast.Is, ast.IsNot, ast.Eq, ast.NotEq)):
            if isinstance(a, Const) and isinstance(b, Const):
                r = (a.v is b.v or a.v == b.v) if isinstance(op, (ast.Is, ast.IsNot)) else (a.v == b.v)
            elif isinstance(a, Obj) and isinstance(b, Obj):
                if a.path == b.path:
                    r = True
                else:
                    r = self.decide('%s:%s' % ('IS' if isinstance(op, (ast.Is, ast.IsNot)) else 'EQ', '|'.join(sorted((a.path, b.path)))))
            elif isinstance(a, Obj) or isinstance(b, Obj):
                o, c = (a, b) if isinstance(a, Obj) else (b, a)
                if not isinstance(c, Const):
                    raise Unmodelled('comparison of %r and %r' % (a, b))
                if o.path.startswith('new:'):
                    r = False
                elif c.v is None:
                    r = self.decide('N:' + o.path)
                else:
                    r = self.decide('EQ:%s|%r' % (o.path, c.v))
            else:
                r = False
            return (not r) if neg else r
        if isinstance(op, (ast.In, ast.NotIn)):
            if isinstance(a, Const) and isinstance(b, Const) and isinstance(b.v, str) and isinstance(a.v, str):
                r = a.v in b.v
            elif isinstance(a, Const) and isinstance(b, (tuple, PyList)):
                items = b.items if isinstance(b, PyList) else b
                if not all(isinstance(x, Const) for x in items):
                    raise Unmodelled('membership in a non-constant sequence')
                r = any(x.v == a.v for x in items)
            elif isinstance(a, Const) and a.v is None and isinstance(b, Const) and isinstance(b.v, str):
                raise Unmodelled('None in str')
            else:
                raise Unmodelled('membership test of %r in %r' % (a, b))
            return (not r) if neg else r
        if isinstance(a, Const) and isinstance(b, Const):
            try:
                return {ast.Lt: a.v < b.v, ast.LtE: a.v <= b.v, ast.Gt: a.v > b.v, ast.GtE: a.v >= b.v}[type(op)]
            except (TypeError, KeyError):
                raise Unmodelled('ordering comparison')
        raise Unmodelled('ordering comparison of opaque values')

    def ev_Call(self, n, env):
        f = n.func
        args = [self.ev(a, env) for a in n.args]
        kwargs = {k.arg: self.ev(k.value, env) for k in n.keywords}
        if isinstance(f, ast.Name):
            if f.id == 'len' and len(args) == 1 and isinstance(args[0], (PyList, tuple)):
                return Const(len(args[0].items if isinstance(args[0], PyList) else args[0]))
            if f.id in ('isinstance', 'hasattr', 'getattr'):
                return Obj('%s(%s)' % (f.id, ', '.join(ast.unparse(a) for a in n.args)))
            return Obj('new:%s' % f.id)
        if isinstance(f, ast.Attribute):
            recv = self.ev(f.value, env)
            if isinstance(recv, Obj) and recv.path == 'self' and f.attr in self.inline:
                return self.call_function(self.inline[f.attr], [recv] + args, kwargs)
            marks = self.marks_of_call(f.attr, args)
            if marks is not None:
                return Text(marks)
            if f.attr in ('putln', 'put'):
                m = frozenset()
                for a in args:
                    m |= self._marks(a)
                self.events.append(('emit', m))
                return Const(None)
            if isinstance(recv, Obj):
                if recv.path.split('.')[0][:1].isupper() or recv.path.startswith('new:'):
                    # Module.Class(...) / Class.method(...): a fresh object
                    return Obj('new:%s.%s' % (recv.path, f.attr))
                return Obj('%s.%s()' % (recv.path, f.attr))
            if isinstance(recv, Text):
                return Text(recv.marks)
            return Obj('?.%s()' % f.attr)
        raise Unmodelled('call')

    # ---------------------------------------------------------------- statements
    def call_function(self, fn, args, kwargs=None):
        self.depth += 1
        if self.depth > 3:
            raise Unmodelled('recursion')
        env = {}
        params = [a.arg for a in fn.args.args]
        defaults = fn.args.defaults
        for i, p in enumerate(params):
            if i < len(args):
                env[p] = args[i]
            elif kwargs and p in kwargs:
                env[p] = kwargs[p]
            else:
                j = i - (len(params) - len(defaults))
                env[p] = self.ev(defaults[j], {}) if j >= 0 else Obj(p)
        try:
            self.block(fn.body, env)
            result = Const(None)
        except _Return as r:
            result = r.value
        self.depth -= 1
        return result

    def block(self, stmts, env):
        for s in stmts:
            self.stmt(s, env)

    def assign(self, target, value, env):
        if isinstance(target, ast.Name):
            env[target.id] = value
        elif isinstance(target, (ast.Tuple, ast.List)):
            if not isinstance(value, tuple) or len(value) != len(target.elts):
                for t in target.elts:
                    self.assign(t, Obj('?unpacked'), env)
                return
            for t, v in zip(target.elts, value):
                self.assign(t, v, env)
        elif isinstance(target, ast.Attribute):
            base = self.ev(target.value, env)
            if isinstance(base, Obj):
                path = '%s.%s' % (base.path, target.attr)
                if isinstance(value, Obj) and (value.path == path or value.path.startswith(path + '.')):
                    return          # x.a = x.a.analyse_types(env) / .coerce_to_pyobject(env): still "the operand x.a"
                self.stored[path] = value
        elif isinstance(target, ast.Subscript):
            self.ev(target.value, env)
        else:
            raise Unmodelled('assignment target')

    def stmt(self, s, env):
        if isinstance(s, ast.Assign):
            v = self.ev(s.value, env)
            for t in s.targets:
                self.assign(t, v, env)
        elif isinstance(s, ast.AugAssign):
            cur = self.ev(s.target, env)
            v = self.ev(s.value, env)
            if isinstance(s.op, ast.Add):
                self.assign(s.target, Text(self._marks(cur) | self._marks(v)), env)
            else:
                raise Unmodelled('augmented assignment')
        elif isinstance(s, ast.AnnAssign):
            if s.value is not None:
                self.assign(s.target, self.ev(s.value, env), env)
        elif isinstance(s, ast.If):
            self.block(s.body if self.truth(self.ev(s.test, env)) else s.orelse, env)
        elif isinstance(s, ast.Return):
            raise _Return(self.ev(s.value, env) if s.value is not None else Const(None))
        elif isinstance(s, ast.Expr):
            if not (isinstance(s.value, ast.Constant) and isinstance(s.value.value, str)):
                self.ev(s.value, env)
        elif isinstance(s, ast.Assert):
            self.truth(self.ev(s.test, env))      # a failing assert is an internal error, not an outcome
        elif isinstance(s, ast.Pass):
            pass
        else:
            raise Unmodelled('statement %s' % type(s).__name__)


def explore(fn, args, attr_values, class_consts, inline, marks_of_call, max_runs=4000):
    """All executions of fn -> [(valuation dict, return value, events)]"""
    out = []
    stack = [[]]
    while stack:
        dec = stack.pop()
        run = Run(dec, attr_values, class_consts, inline, marks_of_call)
        try:
            ret = run.call_function(fn, args)
        except NeedDecision:
            stack.append(dec + [True])
            stack.append(dec + [False])
            if len(stack) + len(out) > max_runs:
                raise AnalysisError('%s: too many paths' % fn.name)
            continue
        except Unmodelled as ex:
            raise AnalysisError('%s: cannot be interpreted: %s' % (fn.name, ex))
        out.append((dict(run.val), ret, run.events))
    return out


import re as _re
PYSTR_ATOM = _re.compile(r'^T:(?P<op>.+?)\.type(?:\.resolve\(\))?\.is_pystr_type$')
PYSTR_IS_ATOM = _re.compile(r'^IS:(?:(?P<a>.+?)\.type(?:\.resolve\(\))?\|[\w.]*(?:unicode|str)_type|[\w.]*(?:unicode|str)_type\|(?P<b>.+?)\.type(?:\.resolve\(\))?)$')
NONE_ATOM = _re.compile(r'^T:(?P<op>.+?)\.may_be_none\(\)$')


def operand_facts(val, operand):
    """-> (statically str established?, None excluded?) for the operand path on this run"""
    is_str = none_excluded = False
    for k, v in val.items():
        m = PYSTR_ATOM.match(k)
        if m and m.group('op') == operand and v is True:
            is_str = True
        m = PYSTR_IS_ATOM.match(k)
        if m and (m.group('a') or m.group('b')) == operand and v is True:
            is_str = True
        m = NONE_ATOM.match(k)
        if m and m.group('op') == operand and v is False:
            none_excluded = True
    return is_str, none_excluded


def _class_consts(cls, prefix):
    out = {}
    for n in cls.body:
        if isinstance(n, ast.Assign) and isinstance(n.value, ast.Constant):
            for t in n.targets:
                if isinstance(t, ast.Name):
                    out['%s.%s' % (prefix, t.id)] = Const(n.value.value)
    return out


def _find_class(tree, name, rel):
    for n in tree.body:
        if isinstance(n, ast.ClassDef) and n.name == name:
            return n
    raise AnalysisError('%s: class %s not found' % (rel, name))


def _find_method(cls, name, rel):
    hit = None
    for n in cls.body:
        if isinstance(n, ast.FunctionDef) and n.name == name:
            hit = n
        if isinstance(n, ast.Assign) and any(isinstance(t, ast.Name) and t.id == name for t in n.targets) and isinstance(n.value, ast.Name):
            return _find_method(cls, n.value.id, rel)
    if hit is None:
        raise AnalysisError('%s: %s.%s not found' % (rel, cls.name, name))
    return hit


def conversion_domain(cls):
    """conversion characters FormattedValueNode knows (keys of its find_conversion_func table) + None"""
    for n in cls.body:
        if isinstance(n, ast.Assign) and any(isinstance(t, ast.Name) and t.id == 'find_conversion_func' for t in n.targets):
            d = n.value.value if isinstance(n.value, ast.Attribute) else n.value
            if isinstance(d, ast.Dict) and all(isinstance(k, ast.Constant) for k in d.keys):
                return [None] + [k.value for k in d.keys]
    raise AnalysisError('FormattedValueNode.find_conversion_func table not found')


def _conv_marks(name, args):
    if name == 'find_conversion_func' and len(args) == 1:
        if isinstance(args[0], Const) and args[0].v is not None:
            return {'CONV'}
        if isinstance(args[0], Const):
            return set()
        raise Unmodelled('find_conversion_func of a non-constant')
    return None


def strnone_cases(fv_cls, opt_cls, convs):
    """-> [(key, sample, problem or None)] over all (function, conversion character, path) cases"""
    out = []
    why = ("a value statically typed str may be None at run time and str(None) is 'None': the conversion may only be dropped for conversion !s / none, "
           "a statically-str operand AND after may_be_none() was excluded")

    def describe(val):
        def one(k, v):
            kind, path = k.split(':', 1)
            if kind == 'N':
                return '%s is %sNone' % (path, '' if v else 'not ')
            if kind == 'T':
                return '%s%s' % ('' if v else 'not ', path)
            return '%s(%s)=%s' % (kind, path, v)
        return ', '.join(one(k, v) for k, v in val.items()) or 'no tests'
    # T1: FormattedValueNode.analyse_types -> returns the node, or the bare operand
    fn = _find_method(fv_cls, 'analyse_types', EXPRNODES)
    cc = _class_consts(fv_cls, 'self')
    for conv in convs:
        runs = explore(fn, [Obj('self'), Obj('env')], {'self.conversion_char': Const(conv)}, cc, {}, _conv_marks)
        for val, ret, events in runs:
            bare = isinstance(ret, Obj) and ret.path == 'self.value'
            key = 'ExprNodes.FormattedValueNode.analyse_types:conv=%s' % conv
            prob = None
            if bare:
                is_str, no_none = operand_facts(val, 'self.value')
                spec = val.get('T:self.format_spec')
                if conv not in (None, 's'):
                    prob = 'returns the bare operand although the conversion !%s must be applied' % conv
                elif spec is not False:
                    prob = 'returns the bare operand on a path that did not exclude a format spec'
                elif not (is_str and no_none):
                    prob = 'returns the bare operand (no str() / format() call at all) on a path with %s; %s' % (describe(val), why)
            out.append((key, 'analyse_types conv=%r: %s -> %s' % (conv, describe(val), 'bare operand' if bare else 'node kept'), prob, fn.lineno, EXPRNODES))
    # T2: FormattedValueNode.generate_result_code -> emitted call wraps the operand in the conversion function or not
    fn = _find_method(fv_cls, 'generate_result_code', EXPRNODES)
    for conv in convs:
        runs = explore(fn, [Obj('self'), Obj('code')], {'self.conversion_char': Const(conv)}, {}, {}, _conv_marks)
        for val, ret, events in runs:
            emits = [m for k, m in events if k == 'emit']
            if not emits:
                raise AnalysisError('FormattedValueNode.generate_result_code: a path emits nothing (%s)' % describe(val))
            c_level = any(k.startswith('T:self.value.type.is_pyobject') and v is False for k, v in val.items())
            wrapped = any('CONV' in m for m in emits)
            key = 'ExprNodes.FormattedValueNode.generate_result_code:conv=%s' % conv
            prob = None
            if not c_level and conv is not None and not wrapped:
                is_str, no_none = operand_facts(val, 'self.value')
                if conv != 's':
                    prob = 'emits the format call without the !%s conversion' % conv
                elif not (is_str and no_none):
                    prob = ('emits __Pyx_PyObject_Format*(value, spec) without piping the value through PyObject_Str on a path with %s: for a None value '
                            'NoneType.__format__ raises TypeError for a non-empty spec (CPython formats the text \'None\'); %s' % (describe(val), why))
            out.append((key, 'generate_result_code conv=%r: %s -> %s' % (conv, describe(val), 'C level' if c_level else ('converted' if wrapped else 'not converted')), prob, fn.lineno, EXPRNODES))
    # T3: the str()/unicode() call optimisation returns its argument unchanged
    fn3 = _find_method(opt_cls, '_handle_simple_function_unicode', OPTIMIZE)
    runs = explore(fn3, [Obj('self'), Obj('node'), Obj('function'), PyList([Obj('arg0')])], {}, {}, {}, _conv_marks)
    for val, ret, events in runs:
        bare = isinstance(ret, Obj) and ret.path == 'arg0'
        prob = None
        if bare:
            is_str, no_none = operand_facts(val, 'arg0')
            if not (is_str and no_none):
                prob = 'str(x) is replaced by x itself on a path with %s; %s' % (describe(val), why)
        out.append(('Optimize.OptimizeBuiltinCalls.%s:str(x)' % fn3.name, 'str(x): %s -> %s' % (describe(val), 'x itself' if bare else 'call kept'), prob, fn3.lineno, OPTIMIZE))
    # T4: OptimizeBuiltinCalls.visit_FormattedValueNode replaces the node by the str() optimisation
    fn4 = _find_method(opt_cls, 'visit_FormattedValueNode', OPTIMIZE)
    for conv in convs:
        runs = explore(fn4, [Obj('self'), Obj('node')], {'node.conversion_char': Const(conv)}, {}, {fn3.name: fn3, '_handle_simple_function_unicode': fn3, '_handle_simple_function_str': fn3}, _conv_marks)
        for val, ret, events in runs:
            kept = isinstance(ret, Obj) and ret.path == 'node'
            bare = isinstance(ret, Obj) and ret.path == 'node.value'
            key = 'Optimize.OptimizeBuiltinCalls.visit_FormattedValueNode:conv=%s' % conv
            prob = None
            if not kept:
                is_str, no_none = operand_facts(val, 'node.value')
                if conv not in (None, 's'):
                    prob = 'replaces the formatted value by str(value) although the conversion is !%s' % conv
                elif val.get('T:node.format_spec') is not False:
                    prob = 'replaces the formatted value by str(value) on a path that did not exclude a format spec'
                elif bare and not (is_str and no_none):
                    prob = 'replaces f"{x}" by x itself on a path with %s; %s' % (describe(val), why)
            out.append((key, 'visit_FormattedValueNode conv=%r: %s -> %s' % (conv, describe(val), 'node kept' if kept else ('bare operand' if bare else 'str() call')), prob, fn4.lineno, OPTIMIZE))
    return out


STRNONE_POSITIVE = '''
class FormattedValueNode:
    c_format_spec = None
    find_conversion_func = {'s': 'PyObject_Str', 'r': 'PyObject_Repr'}.get
    def analyse_types(self, env):
        self.value = self.value.analyse_types(env)
        if not self.format_spec and (not self.conversion_char or self.conversion_char == 's'):
            if self.value.type.is_pystr_type:
                return self.value
        return self
    def generate_result_code(self, code):
        value_result = self.value.py_result()
        value_is_unicode = self.value.type.is_pystr_type
        conversion_char = self.conversion_char
        if conversion_char == 's' and value_is_unicode:
            conversion_char = None
        if conversion_char:
            fn = self.find_conversion_func(conversion_char)
            value_result = '%s(%s)' % (fn, value_result)
        code.putln("%s = f(%s);" % (self.result(), value_result))

class OptimizeBuiltinCalls:
    def _handle_simple_function_unicode(self, node, function, pos_args):
        arg = pos_args[0]
        if arg.type.is_pystr_type:
            if not arg.may_be_none():
                return arg
        return ExprNodes.PythonCapiCallNode(node.pos, "f", args=pos_args)
    def visit_FormattedValueNode(self, node):
        if node.value.type.is_pystr_type and not node.format_spec:
            return self._handle_simple_function_unicode(node, None, [node.value])
        return node
'''


def rule_strnone(ctx):
    r = Rule('C18-STRNONE', 'the !s / str() conversion of a formatted value is dropped only for conversion !s / none on a statically-str operand whose may_be_none() was '
             'excluded (decision tables of FormattedValueNode.analyse_types / generate_result_code and of the str() optimisation, over all valuations of their tests)', floor=14)
    fv = _find_class(ctx.parse(EXPRNODES), 'FormattedValueNode', EXPRNODES)
    opt = _find_class(ctx.parse(OPTIMIZE), 'OptimizeBuiltinCalls', OPTIMIZE)
    convs = conversion_domain(fv)
    if not {'s', 'r', 'a'} <= set(convs):
        raise AnalysisError('FormattedValueNode.find_conversion_func lost one of s/r/a: %s' % convs)
    cases = strnone_cases(fv, opt, convs)
    dropped = 0
    seen = set()
    paths = {}
    for key, sample, prob, line, rel in cases:
        paths[key] = paths.get(key, 0) + 1
    counted = set()
    for key, sample, prob, line, rel in cases:
        if key not in counted:
            counted.add(key)
            r.inst(key, sample='%s (%d paths; first: %s)' % (key, paths[key], sample))
        if 'bare operand' in sample or 'not converted' in sample or 'x itself' in sample:
            dropped += 1
        if prob and key not in seen:
            seen.add(key)
            more = sum(1 for k, _, p, _, _ in cases if k == key and p) - 1
            r.violate(key, rel, line, prob + ('' if not more else ' (+%d more paths)' % more))
    if dropped < 3:
        raise AnalysisError('the str() elision paths were not found (%d): the model of the formatting functions is out of date' % dropped)
    ptree = ast.parse(STRNONE_POSITIVE)
    pc = strnone_cases(ptree.body[0], ptree.body[1], conversion_domain(ptree.body[0]))
    bad = {k for k, _, p, _, _ in pc if p}
    r.positive_control(bad == {'ExprNodes.FormattedValueNode.analyse_types:conv=None', 'ExprNodes.FormattedValueNode.analyse_types:conv=s',
                               'ExprNodes.FormattedValueNode.generate_result_code:conv=s', 'Optimize.OptimizeBuiltinCalls.visit_FormattedValueNode:conv=r'},
                       'str-typed operand treated as text without excluding None; !r value replaced by str()')
    return r


# =================================================================================================== fourth round: Python side of the f-string machinery
# C18-FOLD    decision table of ConstantFolding.visit_FormattedValueNode (the compile-time shortcut): the node is replaced by its bare operand only for a string
#             literal with conversion !s / none and no format spec, and by the text of a constant only for an int constant without format spec.
# C18-EMIT    FormattedValueNode.generate_result_code: the spec-ignoring helper (__Pyx_PyObject_FormatSimple*) is selected only on paths where the node has no
#             format spec; the emitted call passes the value first and the spec second, the order in which every helper hands them to PyObject_Format.
# C18-ARITY   the %-rewrite consumes exactly the operands of the tuple: no rewrite for `(a, b) * n`; a surplus operand makes _build_fstring give up.
# C18-JOINPY  JoinedStrNode.generate_evaluation_code: every part is counted in the result length (literal / repeated / run-time length, repetition factors applied in
#             every emitted shape) and in the result kind unless it is a C number formatted with a non-character spec; UnicodeNode.get_ustring_kind agrees with
#             CPython's kind boundaries; the "cannot get larger" shortcut is taken for the largest kind only.
# C18-TYPES   default_format_spec per C type gives str(x); bint routes exactly the falsy spec to the True/False helper; external typedefs hand themselves on.
# C18-MERGE   `lit + f-string` / `f-string + lit` / `f + f` keep the operand order.
def explore_runs(fn, args, attr_values, class_consts, inline, marks_of_call, max_runs=4000):
    """like explore(), but returns the Run objects (valuation, stores) together with the result"""
    out = []
    stack = [[]]
    while stack:
        dec = stack.pop()
        run = Run(dec, attr_values, class_consts, inline, marks_of_call)
        try:
            ret = run.call_function(fn, args)
        except NeedDecision:
            stack.append(dec + [True])
            stack.append(dec + [False])
            if len(stack) + len(out) > max_runs:
                raise AnalysisError('%s: too many paths' % fn.name)
            continue
        except Unmodelled as ex:
            raise AnalysisError('%s: cannot be interpreted: %s' % (fn.name, ex))
        out.append((run, ret))
    return out


def _describe_val(val):
    def one(k, v):
        kind, path = k.split(':', 1)
        if kind == 'N':
            return '%s is %sNone' % (path, '' if v else 'not ')
        if kind == 'T':
            return '%s%s' % ('' if v else 'not ', path)
        return '%s(%s)=%s' % (kind, path, v)
    return ', '.join(one(k, v) for k, v in val.items()) or 'no tests'


def fold_cases(cf_cls, convs, rel=OPTIMIZE):
    fn = _find_method(cf_cls, 'visit_FormattedValueNode', rel)
    out = []
    for conv in convs:
        for run, ret in explore_runs(fn, [Obj('self'), Obj('node')], {'node.conversion_char': Const(conv)}, {}, {}, _conv_marks):
            val = run.val
            key = 'Optimize.%s.visit_FormattedValueNode:conv=%s' % (cf_cls.name, conv)
            stored = run.stored.get('node.format_spec')
            no_spec = (isinstance(stored, Const) and stored.v is None) or (stored is None and val.get('N:node.format_spec') is True)
            prob = None
            if isinstance(stored, Const) and stored.v is None and val.get('N:node.format_spec') is not True and not (
                    val.get('T:node.format_spec.is_string_literal') is True and val.get('T:node.format_spec.value') is False):
                prob = "the format spec is discarded (node.format_spec = None) on a path that did not establish an empty string literal (%s): f'{x:>5}' would lose its spec" % _describe_val(val)
                out.append((key, '%s: %s -> spec discarded' % (key, _describe_val(val)), prob, fn.lineno))
                continue
            if isinstance(ret, Obj) and ret.path == 'node':
                outcome = 'node kept'
            elif isinstance(ret, Obj) and ret.path == 'node.value':
                outcome = 'bare operand'
                if conv not in (None, 's'):
                    prob = "the formatted value is replaced by its operand although the conversion !%s must be applied (f\"{'ab'!r}\" is \"'ab'\", not 'ab')" % conv
                elif not no_spec:
                    prob = 'the formatted value is replaced by its operand on a path that did not exclude a format spec'
                elif val.get('T:node.value.is_string_literal') is not True:
                    prob = 'the formatted value is replaced by its operand on a path that did not establish that the operand is a string literal (%s)' % _describe_val(val)
            elif isinstance(ret, Obj) and ret.path.startswith('new:'):
                outcome = 'folded to a literal'
                is_int = any(k.startswith('T:isinstance(') and k.rstrip(')').replace(' ', '').endswith(',int') and v is True for k, v in val.items())
                has_const = any(k.startswith('T:') and 'has_constant_result' in k and v is True for k, v in val.items())
                if not no_spec:
                    prob = "a constant operand is folded to str(value) on a path that did not exclude a format spec (f'{5:03}' is '005')"
                elif not (is_int and has_const):
                    prob = 'an operand is folded to str(value) on a path that did not establish an int constant (%s): only for int (and bool) is the text the same under every conversion' % _describe_val(val)
            else:
                raise AnalysisError('%s returns %r' % (key, ret))
            out.append((key, '%s: %s -> %s' % (key, _describe_val(val), outcome), prob, fn.lineno))
    return out


FOLD_POSITIVE = '''
class ConstantFolding:
    def visit_FormattedValueNode(self, node):
        self.visitchildren(node)
        if node.value.has_constant_result() and isinstance(node.value.constant_result, int):
            return ExprNodes.UnicodeNode(node.value.pos, value=EncodedString(str(node.value.constant_result)))
        if node.format_spec is None:
            if node.value.is_string_literal:
                return node.value
        return node
'''


def rule_fold(ctx):
    r = Rule('C18-FOLD', 'ConstantFolding.visit_FormattedValueNode: a formatted value is replaced by its bare operand only for a string literal with conversion !s / none and no format spec, '
             'and by the text of a constant only for an int constant without format spec (decision table over all valuations of its tests, per conversion character)', floor=4)
    fv = _find_class(ctx.parse(EXPRNODES), 'FormattedValueNode', EXPRNODES)
    cf = _find_class(ctx.parse(OPTIMIZE), 'ConstantFolding', OPTIMIZE)
    convs = conversion_domain(fv)
    cases = fold_cases(cf, convs)
    seen = set()
    n_short = 0
    for key, sample, prob, line in cases:
        if key not in seen:
            seen.add(key)
            r.inst(key, sample=sample)
        if 'node kept' not in sample:
            n_short += 1
    reported = set()
    for key, sample, prob, line in cases:
        if prob and key not in reported:
            reported.add(key)
            r.violate(key, OPTIMIZE, line, prob)
    if n_short < 2:
        raise AnalysisError('ConstantFolding.visit_FormattedValueNode: the folding shortcuts were not found (%d)' % n_short)
    pc = fold_cases(ast.parse(FOLD_POSITIVE).body[0], [None, 's', 'r'], 'positive-control')
    bad = {k.rsplit(':', 1)[1] for k, _, p, _ in pc if p}
    r.positive_control(bad == {'conv=None', 'conv=s', 'conv=r'}, 'constant folded in spite of a format spec; string literal unwrapped under !r')
    return r


# --------------------------------------------------------------------------------------------------- C18-EMIT
def _attr_sources(fn, name):
    """self.<attr> roots that the local `name` is computed from (through local assignments, flow-insensitive)"""
    defs = {}
    for n in walk_no_nested(fn):
        if isinstance(n, ast.Assign):
            for t in n.targets:
                for x in _bound_names(t):
                    defs.setdefault(x, []).append(n.value)
        elif isinstance(n, ast.AugAssign) and isinstance(n.target, ast.Name):
            defs.setdefault(n.target.id, []).append(n.value)
    seen, todo, roots = set(), [name], set()
    while todo:
        x = todo.pop()
        if x in seen:
            continue
        seen.add(x)
        for e in defs.get(x, ()):
            for a in ast.walk(e):
                if _is_self_attr(a):
                    roots.add(a.attr)
                elif isinstance(a, ast.Name) and a.id != 'self':
                    todo.append(a.id)
    return roots


def _emit_template(gen):
    """the emitted `<result> = <func>(<a0>, <a1>); ...` template of generate_result_code whose callee is a variable: -> (node, callee name, [arg placeholder nodes])"""
    from . import iface
    from ..engine.cutil import match_paren, split_args
    import re as _re2
    for n in walk_no_nested(gen):
        if not isinstance(n, (ast.BinOp, ast.JoinedStr)):
            continue
        t = iface.str_template(n)
        if t is None:
            continue
        text, ph = t
        m = _re2.search(r'%s\(' % iface.PLACEHOLDER, text)
        if not m:
            continue
        k = text[:m.start() + 1].count(iface.PLACEHOLDER) - 1
        rp = match_paren(text, m.end() - 1)
        if rp < 0 or not isinstance(ph[k], ast.Name):
            continue
        args = []
        idx = k + 1
        ok = True
        for a in split_args(text[m.end():rp]):
            if a.strip() != iface.PLACEHOLDER:
                ok = False
                break
            args.append(ph[idx])
            idx += 1
        if ok and len(args) == 2:
            return n, ph[k].id, args
    return None


def _c_format_roles(cat, name, depth=0):
    """for a C helper (s, f) -> does it hand parameter 0 as the object and parameter 1 as the spec to PyObject_Format (directly or through a helper)?  -> True / False / None (no call found)"""
    import re as _re2
    from ..engine.cutil import match_paren, split_args, strip_c_comments
    decls = [d for d in cat.lookup(name) if d.kind in ('func', 'macro') and d.params is not None and (d.body or d.kind == 'macro')]
    verdict = None
    for d in decls:
        names = d.param_names() if d.kind == 'func' else [p.strip() for p in d.params]
        if len(names) != 2:
            continue
        body = strip_c_comments(d.body or d.raw or '')
        for m in _re2.finditer(r'\b(PyObject_Format|__Pyx_PyObject_Format\w*|_Py\w+_FormatAdvancedWriter)\s*\(', body):
            callee = m.group(1)
            if callee == name:
                continue
            rp = match_paren(body, m.end() - 1)
            if rp < 0:
                continue
            cargs = [_re2.sub(r'[()\s]', '', a) for a in split_args(body[m.end():rp])]
            if callee.endswith('FormatAdvancedWriter'):
                ok = len(cargs) >= 3 and cargs[1] == names[0] and cargs[2] == names[1]
            else:
                ok = len(cargs) == 2 and cargs[0] == names[0] and cargs[1] == names[1]
            verdict = ok if verdict is None else (verdict and ok)
    return verdict


EMIT_POSITIVE = '''
class FormattedValueNode:
    def generate_result_code(self, code):
        value_result = self.value.py_result()
        value_is_unicode = self.value.type.is_pystr_type and not self.value.may_be_none()
        if self.format_spec and not value_is_unicode:
            format_func = '__Pyx_PyObject_Format'
            format_spec = self.format_spec.py_result()
        else:
            format_func = '__Pyx_PyObject_FormatSimple'
            format_spec = code.name_in_module_state(Naming.empty_unicode)
        code.putln("%s = %s(%s, %s); %s" % (self.result(), format_func, format_spec, value_result, code.error_goto_if_null(self.result(), self.pos)))
'''


def emit_facts(cls, cat):
    gen = _find_method(cls, 'generate_result_code', EXPRNODES)
    found = _emit_template(gen)
    if found is None:
        raise AnalysisError('FormattedValueNode.generate_result_code: the emitted `func(value, spec)` template was not found')
    node, fvar, args = found
    out = []
    key = 'ExprNodes.FormattedValueNode.generate_result_code'
    # ---- argument roles
    roots = []
    for a in args:
        if not isinstance(a, ast.Name):
            raise AnalysisError('%s: emitted argument %s is not a local name' % (key, ast.unparse(a)))
        roots.append(_attr_sources(gen, a.id))
    conv_roots = {'find_conversion_func'}
    out.append((key + ':conversion-wraps-value', bool(conv_roots & roots[0]) and not (conv_roots & roots[1]), node.lineno,
                'the !s/!r/!a conversion call is applied to %s; it must wrap the value argument (%s) and nothing else' % (
                    'the format spec argument' if conv_roots & roots[1] else 'no argument', ast.unparse(args[0]))))
    ok = 'value' in roots[0] and 'format_spec' not in roots[0] and 'format_spec' in roots[1] and 'value' not in roots[1]
    out.append((key + ':argument-order', ok, node.lineno,
                'the emitted call %s(%s, %s) passes an argument computed from self.%s first and one computed from self.%s second; every helper takes (object, format spec) and '
                'hands them to PyObject_Format in that order' % (fvar, ast.unparse(args[0]), ast.unparse(args[1]), '/'.join(sorted(roots[0])) or '?', '/'.join(sorted(roots[1])) or '?')))
    # ---- helper names and their C roles
    bases, suffixes = set(), set()
    for a in walk_no_nested(gen):
        if isinstance(a, ast.Assign) and any(isinstance(x, ast.Name) and x.id == fvar for x in a.targets) and isinstance(a.value, ast.Constant):
            bases.add(a.value.value)
        elif isinstance(a, ast.AugAssign) and isinstance(a.target, ast.Name) and a.target.id == fvar and isinstance(a.value, ast.Constant):
            suffixes.add(a.value.value)
    if cat is not None:
        for nm in sorted(bases | {b + s for b in bases for s in suffixes}):
            v = _c_format_roles(cat, nm)
            if v is None:
                continue
            out.append(('%s:c-roles:%s' % (key, nm), v, node.lineno, 'C helper %s does not hand its first parameter as the object and its second as the format spec to PyObject_Format' % nm))
    # ---- the spec-ignoring helper only without a format spec (path facts)
    simple = {b for b in bases if 'Simple' in b}
    if not simple or len(bases) < 2:
        raise AnalysisError('%s: helper names %s: the spec-ignoring helper was not recognised' % (key, sorted(bases)))
    bad_paths = []
    sites = [0]

    def transfer(n, state):
        if isinstance(n, ast.Assign) and any(isinstance(x, ast.Name) and x.id == fvar for x in n.targets) and isinstance(n.value, ast.Constant):
            return frozenset(f for f in state if not (isinstance(f, tuple) and f[0] == 'FF')) | {('FF', n.value.value)}
        if isinstance(n, ast.stmt) and any(x is node for x in ast.walk(n)):
            sites[0] += 1
            ff = [f[1] for f in state if isinstance(f, tuple) and f[0] == 'FF']
            if any(x in simple for x in ff):
                no_spec = any(isinstance(f, tuple) and len(f) == 4 and f[0] == '?' and f[1] == 'self.format_spec' and f[2] is False for f in state)
                if not no_spec:
                    bad_paths.append(sorted('%s%s' % ('' if f[2] else 'not ', f[1]) for f in state if isinstance(f, tuple) and len(f) == 4 and f[0] == '?'))
        return state
    pyflow.Flow(transfer).run(gen)
    if not sites[0]:
        raise AnalysisError('%s: the emitting statement was not reached by the flow analysis' % key)
    out.append((key + ':simple-needs-no-spec', not bad_paths, node.lineno,
                '%s is emitted on a path that did not establish `not self.format_spec` (%s): that helper returns str/int/float operands unformatted, the format spec would be ignored '
                "(f'{s:>5}' -> s)" % ('/'.join(sorted(simple)), '; '.join(', '.join(p) for p in bad_paths[:2]) or '-')))
    return out


def rule_emit(ctx):
    r = Rule('C18-EMIT', 'FormattedValueNode.generate_result_code: the spec-ignoring helper __Pyx_PyObject_FormatSimple* is selected only on paths without a format spec; the emitted call passes '
             '(value, format spec) in the order in which every helper hands them to PyObject_Format', floor=4)
    fv = _find_class(ctx.parse(EXPRNODES), 'FormattedValueNode', EXPRNODES)
    for key, ok, line, msg in emit_facts(fv, ctx.cat):
        r.inst(key, sample=key)
        if not ok:
            r.violate(key, EXPRNODES, line, msg)
    pc = emit_facts(ast.parse(EMIT_POSITIVE).body[0], None)
    r.positive_control({k.rsplit(':', 1)[1] for k, ok, _, _ in pc if not ok} == {'argument-order', 'simple-needs-no-spec', 'conversion-wraps-value'},
                       'spec and value swapped; FormatSimple chosen although a spec is present; no conversion call around the value')
    return r


# --------------------------------------------------------------------------------------------------- C18-ARITY
ARITY_POSITIVE = '''
class ConstantFolding:
    def visit_ModNode(self, node):
        self.visitchildren(node)
        if isinstance(node.operand1, ExprNodes.UnicodeNode) and isinstance(node.operand2, ExprNodes.TupleNode):
            fstring = self._build_fstring(node.operand1.pos, node.operand1.value, node.operand2.args)
            if fstring is not None:
                return fstring
        return self.visit_BinopNode(node)

    def _build_fstring(self, pos, ustring, format_args):
        args = iter(format_args)
        substrings = []
        for s in re.split(self.rx, ustring):
            substrings.append(s)
        try:
            next(args)
        except StopIteration: pass
        else:
            warning(pos, "Too many arguments for format placeholders", level=1)
        return ExprNodes.JoinedStrNode(pos, values=substrings)
'''


def _returns_none_always(stmts):
    """every path through the statements ends in `return None` / bare return"""
    state = {'ok': True, 'seen': False}

    def transfer(n, st):
        if isinstance(n, ast.Return):
            state['seen'] = True
            if not (n.value is None or (isinstance(n.value, ast.Constant) and n.value.value is None)):
                state['ok'] = False
        return st
    fl = pyflow.Flow(transfer)
    o = fl.block(stmts, {frozenset()})
    return state['ok'] and state['seen'] and not o.normal and not o.breaks and not o.continues


def arity_facts(cls):
    out = []
    mod = _find_method(cls, 'visit_ModNode', OPTIMIZE)
    key = 'Optimize.%s.visit_ModNode:tuple-multiplier' % cls.name
    sites = []

    def transfer(n, state):
        if isinstance(n, ast.stmt) and not isinstance(n, (ast.If, ast.For, ast.While, ast.Try)):
            for c in ast.walk(n):
                if isinstance(c, ast.Call) and isinstance(c.func, ast.Attribute) and c.func.attr == '_build_fstring':
                    for a in c.args:
                        if isinstance(a, ast.Attribute) and a.attr == 'args':
                            owner = ast.unparse(a.value)
                            guarded = any(isinstance(f, tuple) and len(f) == 4 and f[0] == '?' and f[1] == owner + '.mult_factor' and f[2] is False for f in state)
                            sites.append((c.lineno, owner, guarded))
        return state
    pyflow.Flow(transfer).run(mod)
    if not sites:
        raise AnalysisError('%s.visit_ModNode: no call _build_fstring(..., <tuple>.args) found' % cls.name)
    bad = [s for s in sites if not s[2]]
    out.append((key, not bad, sites[0][0],
                "the %%-format rewrite takes `%s.args` as the complete operand sequence on a path that did not exclude `%s.mult_factor`: for `'%%s %%s' %% ((a, b) * 2)` the tuple has four "
                "items and CPython raises TypeError, the rewrite formats a and b" % (sites[0][1], sites[0][1])))
    # surplus operands
    bf = _find_method(cls, '_build_fstring', OPTIMIZE)
    key2 = 'Optimize.%s._build_fstring:surplus-operand' % cls.name
    params = [a.arg for a in bf.args.args]
    iters = {}
    for n in walk_no_nested(bf):
        if isinstance(n, ast.Assign) and isinstance(n.value, ast.Call) and isinstance(n.value.func, ast.Name) and n.value.func.id == 'iter' and len(n.value.args) == 1 \
                and isinstance(n.value.args[0], ast.Name) and n.value.args[0].id in params:
            for t in n.targets:
                if isinstance(t, ast.Name):
                    iters[t.id] = n.value.args[0].id
    loops = [i for i, s in enumerate(bf.body) if isinstance(s, ast.For)]
    if not loops or not iters:
        raise AnalysisError('%s._build_fstring: the chunk loop / the operand iterator was not found' % cls.name)
    checked = None
    tail = bf.body[loops[-1] + 1:]
    for si, s in enumerate(tail):
        if isinstance(s, ast.Try) and any(isinstance(c, ast.Call) and isinstance(c.func, ast.Name) and c.func.id == 'next' and c.args and isinstance(c.args[0], ast.Name) and c.args[0].id in iters
                                          for b in s.body for c in ast.walk(b)):
            catches = any(h.type is None or 'StopIteration' in ast.unparse(h.type) for h in s.handlers)
            body_rest = [b for b in s.body if not (isinstance(b, ast.Expr) and isinstance(b.value, ast.Call) and isinstance(b.value.func, ast.Name) and b.value.func.id == 'next')]
            success = body_rest + list(s.orelse) + tail[si + 1:]        # what runs when next() found a surplus operand
            checked = (s.lineno, catches and bool(success) and _returns_none_always(success))
        elif isinstance(s, ast.If) and any(isinstance(c, ast.Call) and isinstance(c.func, ast.Name) and c.func.id == 'len' for c in ast.walk(s.test)) \
                and any(isinstance(x, ast.Name) and x.id in set(iters.values()) for x in ast.walk(s.test)):
            checked = (s.lineno, _returns_none_always(s.body) or (bool(s.orelse) and _returns_none_always(s.orelse)))
    out.append((key2, bool(checked and checked[1]), checked[0] if checked else bf.lineno,
                "after the last placeholder _build_fstring does not give up when an operand is left over (no `next(%s)` whose success path returns None): '%%s' %% (a, b) is rewritten to "
                "f'{a}' although CPython raises TypeError('not all arguments converted')" % '/'.join(sorted(iters))))
    return out


def rule_arity(ctx):
    r = Rule('C18-ARITY', "the %-format rewrite consumes exactly the operands of the tuple: visit_ModNode rewrites only tuples without a multiplier, _build_fstring gives up when an operand is left "
             "over after the last placeholder (too few operands and starred operands are part of C18-TRN's give-up obligation)", floor=2)
    cf = _find_class(ctx.parse(OPTIMIZE), 'ConstantFolding', OPTIMIZE)
    for key, ok, line, msg in arity_facts(cf):
        r.inst(key, sample=key)
        if not ok:
            r.violate(key, OPTIMIZE, line, msg)
    pc = arity_facts(ast.parse(ARITY_POSITIVE).body[0])
    r.positive_control(all(not ok for _, ok, _, _ in pc) and len(pc) == 2, 'tuple multiplier ignored; surplus operand only warned about')
    return r


# --------------------------------------------------------------------------------------------------- C18-MERGE
def merge_facts(cls):
    fn = _find_method(cls, 'visit_AddNode', OPTIMIZE)
    side = {}
    for n in walk_no_nested(fn):
        if isinstance(n, ast.Assign) and len(n.targets) == 1:
            t, v = n.targets[0], n.value
            pairs = list(zip(t.elts, v.elts)) if isinstance(t, ast.Tuple) and isinstance(v, ast.Tuple) and len(t.elts) == len(v.elts) else [(t, v)]
            for a, b in pairs:
                if isinstance(a, ast.Name) and isinstance(b, ast.Attribute) and isinstance(b.value, ast.Name) and b.value.id == fn.args.args[1].arg and b.attr in ('operand1', 'operand2'):
                    side[a.id] = 'left' if b.attr == 'operand1' else 'right'

    def side_of(e):
        s = {side[x.id] for x in ast.walk(e) if isinstance(x, ast.Name) and x.id in side}
        return s.pop() if len(s) == 1 else None
    out = []

    def values_of(e):
        return side[e.value.id] if isinstance(e, ast.Attribute) and e.attr == 'values' and isinstance(e.value, ast.Name) and e.value.id in side else None
    for n in walk_no_nested(fn):
        cont = meth = item = where = None
        if isinstance(n, ast.Call) and isinstance(n.func, ast.Attribute) and values_of(n.func.value) and n.func.attr in ('append', 'extend', 'insert'):
            cont, meth, item = values_of(n.func.value), n.func.attr, (n.args[-1] if n.args else None)
            if meth == 'insert':
                where = 'front' if isinstance(n.args[0], ast.Constant) and n.args[0].value == 0 else 'position %s' % ast.unparse(n.args[0])
            else:
                where = 'back'
        elif isinstance(n, ast.AugAssign) and isinstance(n.op, ast.Add) and values_of(n.target):
            cont, meth, item, where = values_of(n.target), 'extend', n.value, 'back'
        elif isinstance(n, ast.Assign) and len(n.targets) == 1 and isinstance(n.targets[0], ast.Subscript) and values_of(n.targets[0].value) and isinstance(n.targets[0].slice, ast.Slice):
            sl = n.targets[0].slice
            cont, meth, item = values_of(n.targets[0].value), 'insert', n.value
            zero = lambda x: x is None or (isinstance(x, ast.Constant) and x.value == 0)
            where = 'front' if zero(sl.lower) and isinstance(sl.upper, ast.Constant) and sl.upper.value == 0 else 'slice %s' % ast.unparse(sl)
        if cont is None:
            continue
        other = side_of(item) if item is not None else None
        if other is None or other == cont:
            continue
        ok = (cont == 'left' and where == 'back') or (cont == 'right' and where == 'front')
        key = 'Optimize.%s.visit_AddNode:%s-into-%s:%s' % (cls.name, other, cont, meth)
        out.append((key, ok, n.lineno, "`%s`: the parts of the %s operand are put at the %s of the parts of the %s operand; string concatenation keeps the operand order"
                    % (ast.unparse(n)[:80], other, where, cont)))
    return out


def rule_merge(ctx):
    r = Rule('C18-MERGE', "ConstantFolding.visit_AddNode joins `f-string + f-string`, `f-string + literal` and `literal + f-string` into one f-string: the parts of the left operand stay in "
             "front of the parts of the right operand", floor=3)
    cf = _find_class(ctx.parse(OPTIMIZE), 'ConstantFolding', OPTIMIZE)
    facts = merge_facts(cf)
    for key, ok, line, msg in facts:
        r.inst(key, sample=key)
        if not ok:
            r.violate(key, OPTIMIZE, line, msg)
    pc = merge_facts(ast.parse('class C:\n    def visit_AddNode(self, node):\n        operand1, operand2 = node.operand1, node.operand2\n        operand2.values.append(operand1)\n        return operand2\n').body[0])
    r.positive_control(len(pc) == 1 and not pc[0][1], 'left operand appended behind the parts of the right operand')
    return r


# --------------------------------------------------------------------------------------------------- C18-JOINPY
# CPython (unicodeobject.h): a str is stored with 1, 2 or 4 bytes per character - the smallest that holds its largest character (0xff, 0xffff, 0x10ffff); ASCII-only
# strings (<= 0x7f) are a sub-case of kind 1.  __Pyx_PyUnicode_KIND_04 / get_ustring_kind use 0 for ASCII.
def kind_of_char(c):
    return 0 if c < 0x80 else 1 if c < 0x100 else 2 if c < 0x10000 else 4


class _KEval:
    """evaluator of UnicodeNode.get_ustring_kind for one class of `largest character` (a checker-side interpreter of the if-chain)"""
    def __init__(self, c):
        self.c = c

    def ev(self, e, env):
        if isinstance(e, ast.Constant):
            return e.value
        if isinstance(e, ast.Name):
            if e.id in env:
                return env[e.id]
            raise AnalysisError('get_ustring_kind: unknown name %s' % e.id)
        if isinstance(e, ast.Call):
            src = ast.unparse(e)
            if isinstance(e.func, ast.Attribute) and e.func.attr == 'isascii' and not e.args:
                return self.c < 0x80
            if isinstance(e.func, ast.Name) and e.func.id == 'ord' and len(e.args) == 1 and isinstance(e.args[0], ast.Call) and isinstance(e.args[0].func, ast.Name) and e.args[0].func.id == 'max':
                return self.c
            if isinstance(e.func, ast.Name) and e.func.id == 'max' and len(e.args) == 1:
                return ('maxchar',)
            raise AnalysisError('get_ustring_kind: call %s is not modelled' % src)
        if isinstance(e, ast.Compare) and len(e.ops) == 1:
            a, b = self.ev(e.left, env), self.ev(e.comparators[0], env)
            if not (isinstance(a, (int, bool)) and isinstance(b, (int, bool))):
                raise AnalysisError('get_ustring_kind: comparison %s is not modelled' % ast.unparse(e))
            op = type(e.ops[0])
            table = {ast.Lt: a < b, ast.LtE: a <= b, ast.Gt: a > b, ast.GtE: a >= b, ast.Eq: a == b, ast.NotEq: a != b}
            if op not in table:
                raise AnalysisError('get_ustring_kind: operator in %s' % ast.unparse(e))
            return table[op]
        if isinstance(e, ast.UnaryOp) and isinstance(e.op, ast.Not):
            return not self.ev(e.operand, env)
        if isinstance(e, ast.BoolOp):
            vals = [self.ev(v, env) for v in e.values]
            return all(vals) if isinstance(e.op, ast.And) else any(vals)
        raise AnalysisError('get_ustring_kind: expression %s is not modelled' % ast.unparse(e))

    def run(self, stmts, env):
        for s in stmts:
            if isinstance(s, ast.Return):
                return ('ret', self.ev(s.value, env))
            if isinstance(s, ast.If):
                r = self.run(s.body if self.ev(s.test, env) else s.orelse, env)
                if r is not None:
                    return r
            elif isinstance(s, ast.Assign) and len(s.targets) == 1 and isinstance(s.targets[0], ast.Name):
                env[s.targets[0].id] = self.ev(s.value, env)
            elif isinstance(s, ast.Expr) and isinstance(s.value, ast.Constant):
                pass
            else:
                raise AnalysisError('get_ustring_kind: statement %s is not modelled' % type(s).__name__)
        return None


def ustring_kind_table(fn):
    lits = {n.value for n in ast.walk(fn) if isinstance(n, ast.Constant) and isinstance(n.value, int) and not isinstance(n.value, bool) and n.value > 4}
    pts = {0, 0x7f, 0x80, 0xff, 0x100, 0xffff, 0x10000, 0x10ffff}
    for c in lits:
        pts |= {c - 1, c, c + 1}
    out = []
    for c in sorted(p for p in pts if 0 <= p <= 0x10ffff):
        r = _KEval(c).run(fn.body, {})
        if r is None:
            raise AnalysisError('get_ustring_kind returns nothing for a largest character of 0x%x' % c)
        out.append((c, r[1]))
    return out


def _and_conjuncts(e, truth=True):
    """facts implied by `e` being true: [(text, truth)]"""
    if isinstance(e, ast.BoolOp) and isinstance(e.op, ast.And):
        return [f for v in e.values for f in _and_conjuncts(v)]
    neg = False
    while isinstance(e, ast.UnaryOp) and isinstance(e.op, ast.Not):
        neg = not neg
        e = e.operand
    return [(ast.unparse(e), not neg)]


def _path_facts(state, local_ands):
    facts = set()
    for f in state:
        if isinstance(f, tuple) and len(f) == 4 and f[0] == '?':
            facts.add((f[1], f[2]))
            if f[2] and f[1] in local_ands:
                facts |= set(local_ands[f[1]])
    return facts


def _is_c_exclusion(text, truth):
    """does the fact say "the type character of the C format spec is not 'c'"?  -> True / False (says it IS 'c') / None (unrelated)"""
    m = re.fullmatch(r"(.+\.c_format_spec)\.endswith\('c'\)", text)
    if m:
        return not truth
    m = re.fullmatch(r"(.+\.c_format_spec)\[-1:?\] (==|!=) 'c'", text)
    if m:
        return (m.group(2) == '!=') == truth
    m = re.fullmatch(r"(.+\.c_format_spec) (==|!=) 'c'", text)
    if m:
        # the WHOLE spec compared with 'c': '5c', '-3c' ... are character conversions as well, so this never establishes "not a character"
        return False
    m = re.fullmatch(r"'c' (in|not in) (.+\.c_format_spec)(\[-1:?\])?", text)
    if m and m.group(3):
        return (m.group(1) == 'not in') == truth
    return None


JOINPY_POSITIVE = '''
class JoinedStrNode:
    def generate_evaluation_code(self, code):
        known_length = 0
        unknown_lengths = []
        unknown_nodes = []
        ustring_kind = 0
        node_occurrences = defaultdict(int)
        for i, node in enumerate(self.values):
            node.generate_evaluation_code(code)
            if isinstance(node, UnicodeNode):
                known_length += len(node.value)
                continue
            elif isinstance(node, CloneNode) and node.arg in node_occurrences:
                continue
            else:
                node_occurrences[node] += 1
            unknown_lengths.append(i)
            if isinstance(node, FormattedValueNode) and node.c_format_spec is not None:
                pass
            else:
                unknown_nodes.append(i)
        index_repetitions = {i: node_occurrences[node] for i, node in enumerate(self.values) if node_occurrences[node] > 1} or None
        for i, node in enumerate(self.values):
            code.putln('%s[%d] = %s;' % (values_array, i, node.py_result()))

        def aggregate(indices, result_temp, result_temp_type, initial_value, cfunc_name, op, factors):
            code.putln(f"{result_temp} = {initial_value};")
            if len(indices) == 1:
                index = indices[0]
                code.putln(f"{result_temp} {op}= {cfunc_name}({values_array}[{index}]);")
                return
            factor_strings = {index: f" * {factors[index]}" for index in factors} if factors else {}
            result = f' {op} '.join(f"{cfunc_name}({values_array}[{i}]){factor_strings.get(i, '')}" for i in indices)
            code.putln(f"{result_temp} {op}= {result};")
        aggregate(unknown_lengths, length_temp, 'Py_ssize_t', known_length, "__Pyx_PyUnicode_GET_LENGTH", '+', index_repetitions)
        if ustring_kind >= 2:
            code.putln(f"{ukind_temp} = 4;")
        else:
            aggregate(unknown_nodes, ukind_temp, 'int', ustring_kind, "__Pyx_PyUnicode_KIND_04", '|', None)
        code.putln(f'{self.result()} = __Pyx_PyUnicode_Join({values_array}, {num_items:d}, {length_temp}, {ukind_temp});')
'''


def joinpy_facts(cls, kinds):
    gen = _find_method(cls, 'generate_evaluation_code', EXPRNODES)
    key0 = 'ExprNodes.%s.generate_evaluation_code' % cls.name
    out = []
    # ---- the two aggregations:  aggregate(<index list>, <temp>, <type>, <initial>, <C function>, <op>, <factors>)
    agg_def = None
    for n in gen.body:
        if isinstance(n, ast.FunctionDef):
            agg_def = n if any(isinstance(c, ast.Call) and isinstance(c.func, ast.Attribute) and c.func.attr in ('putln', 'put') for c in ast.walk(n)) else agg_def
    roles = {}
    calls = {}
    for n in ast.walk(gen):
        if isinstance(n, ast.Call) and isinstance(n.func, ast.Name) and agg_def is not None and n.func.id == agg_def.name and len(n.args) >= 6:
            op = n.args[5].value if isinstance(n.args[5], ast.Constant) else None
            which = {'+': 'length', '|': 'kind'}.get(op)
            if which and isinstance(n.args[0], ast.Name) and isinstance(n.args[3], ast.Name):
                roles[which] = (n.args[0].id, n.args[3].id)
                calls[which] = n
    if set(roles) != {'length', 'kind'}:
        raise AnalysisError('%s: the length (+) and kind (|) aggregations were not found (%s)' % (key0, sorted(roles)))
    len_list, len_known = roles['length']
    kind_list, kind_known = roles['kind']
    # ---- the accounting loop: the first loop over enumerate(self.values)
    loop = None
    for n in gen.body:
        if isinstance(n, ast.For) and isinstance(n.iter, ast.Call) and isinstance(n.iter.func, ast.Name) and n.iter.func.id == 'enumerate' and isinstance(n.target, ast.Tuple) \
                and any(isinstance(x, ast.Attribute) and x.attr == 'append' and isinstance(x.value, ast.Name) and x.value.id == len_list for x in ast.walk(n)):
            loop = n
            break
    if loop is None:
        raise AnalysisError('%s: the accounting loop over enumerate(self.values) was not found' % key0)
    idx = loop.target.elts[0].id
    local_ands = {}
    for n in ast.walk(loop):
        if isinstance(n, ast.Assign) and len(n.targets) == 1 and isinstance(n.targets[0], ast.Name):
            local_ands[n.targets[0].id] = _and_conjuncts(n.value)

    def transfer(n, state):
        add = set()
        if isinstance(n, ast.Assign) and len(n.targets) == 1 and isinstance(n.targets[0], ast.Name) and n.targets[0].id == len_known and isinstance(n.value, ast.BinOp) \
                and isinstance(n.value.op, ast.Add) and any(isinstance(x, ast.Name) and x.id == len_known for x in (n.value.left, n.value.right)):
            other = n.value.right if isinstance(n.value.left, ast.Name) and n.value.left.id == len_known else n.value.left
            n = ast.AugAssign(target=n.targets[0], op=ast.Add(), value=other)
        if isinstance(n, ast.AugAssign) and isinstance(n.op, ast.Add):
            if isinstance(n.target, ast.Name) and n.target.id == len_known:
                add.add(('EV', 'len-known:%s' % ('len' if any(isinstance(c, ast.Call) and isinstance(c.func, ast.Name) and c.func.id == 'len' for c in ast.walk(n.value)) else 'other')))
            elif isinstance(n.target, ast.Subscript):
                add.add(('EV', 'occurrence'))
        elif isinstance(n, ast.Assign) and any(isinstance(t, ast.Name) and t.id == kind_known for t in n.targets):
            if any(isinstance(c, ast.Call) and isinstance(c.func, ast.Attribute) and c.func.attr == 'get_ustring_kind' for c in ast.walk(n.value)) and \
                    any(isinstance(x, ast.Name) and x.id == kind_known for x in ast.walk(n.value)):
                add.add(('EV', 'kind-known'))
        elif isinstance(n, ast.Expr) and isinstance(n.value, ast.Call) and isinstance(n.value.func, ast.Attribute) and n.value.func.attr == 'append' and isinstance(n.value.func.value, ast.Name) \
                and n.value.args and isinstance(n.value.args[0], ast.Name) and n.value.args[0].id == idx:
            if n.value.func.value.id == len_list:
                add.add(('EV', 'len-index'))
            elif n.value.func.value.id == kind_list:
                add.add(('EV', 'kind-index'))
        return state | add if add else state
    fl = pyflow.Flow(transfer)
    o = fl.block(loop.body, {frozenset()})
    paths = list(o.normal | o.continues)
    if o.breaks or o.returns:
        raise AnalysisError('%s: the accounting loop can be left early' % key0)
    if len(paths) < 3:
        raise AnalysisError('%s: only %d paths through the accounting loop' % (key0, len(paths)))
    bad_len, bad_kind, bad_lit = [], [], []
    for st in paths:
        ev = {f[1] for f in st if isinstance(f, tuple) and f[0] == 'EV'}
        facts = _path_facts(st, local_ands)
        desc = ', '.join(sorted('%s%s' % ('' if t else 'not ', x) for x, t in facts if len(x) < 90))
        if not (ev & {'len-known:len', 'len-index', 'occurrence'}):
            bad_len.append(desc)
        if 'len-known:len' in ev and 'kind-known' not in ev:
            bad_lit.append(desc)
        if 'len-known:other' in ev:
            bad_len.append('a literal part adds something else than len(value): ' + desc)
        if 'len-index' in ev and 'kind-index' not in ev:
            has_c = any(re.fullmatch(r'.+\.c_format_spec is not None', x) and t for x, t in facts) or any(re.fullmatch(r'.+\.c_format_spec is None', x) and not t for x, t in facts)
            excl = [v for v in (_is_c_exclusion(x, t) for x, t in facts) if v is not None]
            unknown_tests = [x for x, t in facts if 'c_format_spec' in x and ' and ' not in x and ' or ' not in x and _is_c_exclusion(x, t) is None
                             and not re.fullmatch(r'.+\.c_format_spec is (not )?None', x)]
            if unknown_tests:
                raise AnalysisError('%s: a test of c_format_spec is not understood: %s' % (key0, unknown_tests[0]))
            if not (has_c and excl and all(excl)):
                bad_kind.append(desc)
    out.append((key0 + ':length-accounting', not bad_len, loop.lineno,
                'a part of the f-string is not counted in the length of the result (neither its literal length, nor its run-time length, nor as a repetition of an earlier part) on the path: %s; '
                '__Pyx_PyUnicode_Join allocates the result with that length and copies every part' % (bad_len[0] if bad_len else '')))
    out.append((key0 + ':literal-kind', not bad_lit, loop.lineno,
                'a literal part is counted in the length but its character width (get_ustring_kind) is not folded into the known kind on the path: %s; non-ASCII literal text would be '
                'truncated to the narrower result' % (bad_lit[0] if bad_lit else '')))
    out.append((key0 + ':kind-accounting', not bad_kind, loop.lineno,
                "a part with run-time text is left out of the kind computation on a path that did not establish `c_format_spec is not None` and a type character other than 'c' (%s): only "
                "C numbers formatted as numbers are ASCII for certain (f'{i:5c}' is not)" % (bad_kind[0] if bad_kind else '')))
    # ---- repetition factors: taken from the occurrence counts, and applied by every emitted accumulation of the aggregator
    fac = calls['length'].args[6] if len(calls['length'].args) > 6 else None
    fac_ok = False
    if isinstance(fac, ast.Name):
        clo = dependency_closure(gen, fac)
        occ = {t.value.id for n in ast.walk(loop) if isinstance(n, ast.AugAssign) and isinstance(n.target, ast.Subscript) and isinstance(n.target.value, ast.Name) for t in [n.target]}
        fac_ok = bool(clo & occ)
    out.append((key0 + ':factors-from-occurrences', fac_ok, calls['length'].lineno, 'the length aggregation is not given the repetition counts of the parts that occur several times: their length is counted once'))
    # the table of repetition counts keeps every part that occurs more than once, with its count
    if isinstance(fac, ast.Name):
        for n in ast.walk(gen):
            if isinstance(n, ast.Assign) and any(isinstance(t, ast.Name) and t.id == fac.id for t in n.targets):
                comps = [c for c in ast.walk(n.value) if isinstance(c, ast.DictComp)]
                if len(comps) == 1 and len(comps[0].generators) == 1 and len(comps[0].generators[0].ifs) == 1 and isinstance(comps[0].value, ast.Subscript):
                    dc = comps[0]
                    cnt_src = ast.unparse(dc.value)

                    class _Cnt(_KEval):
                        def ev(self, e, env):
                            if ast.unparse(e) == cnt_src:
                                return self.c
                            return _KEval.ev(self, e, env)
                    kept = [(c, bool(_Cnt(c).ev(dc.generators[0].ifs[0], {}))) for c in (1, 2, 3, 4)]
                    out.append((key0 + ':repetition-table', all(k for c, k in kept if c >= 2), n.lineno,
                                'the table of repetition counts `%s` drops parts that occur %s times: their length is added once only' % (ast.unparse(dc)[:90], [c for c, k in kept if c >= 2 and not k])))
    fparam = agg_def.args.args[6].arg if len(agg_def.args.args) > 6 else None
    rparam, oparam = agg_def.args.args[1].arg, agg_def.args.args[5].arg
    if fparam is None:
        raise AnalysisError('%s: the aggregator has no factors parameter' % key0)
    emit_bad = []
    n_emit = [0]

    def tr2(n, state):
        if isinstance(n, ast.stmt) and not isinstance(n, (ast.If, ast.For, ast.While, ast.FunctionDef)):
            reads = {x.id for x in ast.walk(n) if isinstance(x, ast.Name) and isinstance(x.ctx, ast.Load)}
            if fparam in reads:
                state = state | {('USED', fparam)}
            for c in ast.walk(n):
                if isinstance(c, ast.Call) and isinstance(c.func, ast.Attribute) and c.func.attr in ('putln', 'put') and c.args and isinstance(c.args[0], ast.JoinedStr):
                    names = [v.value.id for v in c.args[0].values if isinstance(v, ast.FormattedValue) and isinstance(v.value, ast.Name)]
                    consts = ''.join(v.value for v in c.args[0].values if isinstance(v, ast.Constant))
                    if rparam in names and oparam in names and '=' in consts:
                        n_emit[0] += 1
                        tested = any(isinstance(f, tuple) and len(f) == 4 and f[0] == '?' and fparam in f[3] for f in state)
                        if ('USED', fparam) not in state and not tested:
                            emit_bad.append(ast.unparse(c)[:90])
        return state

    def refine2(test, truth, state):
        if any(isinstance(x, ast.Name) and x.id == fparam for x in ast.walk(test)):
            return frozenset(state) | {('USED', fparam)}
        return state
    pyflow.Flow(tr2, refine=refine2).run(agg_def)
    if n_emit[0] < 2:
        raise AnalysisError('%s: the accumulating statements of the aggregator were not found' % key0)
    out.append((key0 + ':factors-applied', not emit_bad, agg_def.lineno, 'the aggregator emits `%s` on a path that never looked at its `%s` argument: the length of a part that occurs several times is '
                'added once (buffer overflow in __Pyx_PyUnicode_Join)' % (emit_bad[0] if emit_bad else '', fparam)))
    # ---- the emitted call: __Pyx_PyUnicode_Join(<array>, <count>, <length temp>, <kind temp>)  (C18-JOINC verifies the C function under this order of roles)
    from . import iface
    from ..engine.cutil import match_paren, split_args
    call_seen = False
    for n in ast.walk(gen):
        if isinstance(n, (ast.JoinedStr, ast.BinOp)):
            t = iface.str_template(n)
            if t is None or '__Pyx_PyUnicode_Join(' not in t[0]:
                continue
            text, ph = t
            lp = text.index('__Pyx_PyUnicode_Join(') + len('__Pyx_PyUnicode_Join(') - 1
            rp = match_paren(text, lp)
            k = text[:lp].count(iface.PLACEHOLDER)
            argt = split_args(text[lp + 1:rp])
            names = []
            for a in argt:
                names.append(ast.unparse(ph[k]) if a.strip() == iface.PLACEHOLDER and k < len(ph) else None)
                k += a.count(iface.PLACEHOLDER)
            call_seen = True
            want_len = ast.unparse(calls['length'].args[1])
            want_kind = ast.unparse(calls['kind'].args[1])
            ok = len(names) == 4 and names[2] == want_len and names[3] == want_kind
            out.append((key0 + ':join-call-roles', ok, n.lineno, 'the emitted call passes (%s) to __Pyx_PyUnicode_Join(values, count, length, kind): the third argument must be the temp the lengths are '
                        'summed into (%s), the fourth the temp the kinds are or-ed into (%s)' % (', '.join(str(x) for x in names), want_len, want_kind)))
    if not call_seen:
        raise AnalysisError('%s: the emitted __Pyx_PyUnicode_Join call was not found' % key0)
    # ---- the values array is filled slot by slot
    fills = []
    for lp_ in [x for x in gen.body if isinstance(x, ast.For) and isinstance(x.iter, ast.Call) and isinstance(x.iter.func, ast.Name) and x.iter.func.id == 'enumerate' and isinstance(x.target, ast.Tuple)]:
        iv, nv = (e.id if isinstance(e, ast.Name) else None for e in lp_.target.elts[:2])
        for n in ast.walk(lp_):
            if isinstance(n, (ast.JoinedStr, ast.BinOp)):
                t = iface.str_template(n)
                if t is None:
                    continue
                m = re.fullmatch(r'\s*%s\[%s\]\s*=\s*%s;\s*' % ((re.escape(iface.PLACEHOLDER),) * 3), t[0])
                if m and len(t[1]) == 3:
                    fills.append((n.lineno, ast.unparse(t[1][1]) == iv and nv in {x.id for x in ast.walk(t[1][2]) if isinstance(x, ast.Name)}, ast.unparse(t[1][1]), ast.unparse(t[1][2])))
    if not fills:
        raise AnalysisError('%s: the statement that fills the values array was not found' % key0)
    out.append((key0 + ':values-array-fill', all(f[1] for f in fills), fills[0][0], 'the values array is filled with `array[%s] = %s` inside the loop over enumerate(self.values): slot and part must be the '
                'loop index and the loop item (__Pyx_PyUnicode_Join reads slots 0..count-1)' % (fills[0][2], fills[0][3])))
    # ---- "cannot get larger" shortcut
    top = max(kinds)
    sc = []
    for n in ast.walk(gen):
        if isinstance(n, ast.If) and any(isinstance(x, ast.Name) and x.id == kind_known for x in ast.walk(n.test)) and any(c is calls['kind'] for b in n.orelse for c in ast.walk(b)):
            lit = None
            for b in n.body:
                for c in ast.walk(b):
                    if isinstance(c, ast.Call) and isinstance(c.func, ast.Attribute) and c.func.attr == 'putln' and c.args and isinstance(c.args[0], ast.JoinedStr):
                        m = re.search(r'=\s*(\d+)\s*;', ''.join(v.value for v in c.args[0].values if isinstance(v, ast.Constant)))
                        if m:
                            lit = int(m.group(1))
            taken = []
            for k in sorted(kinds):
                ev = _KEval(0)
                taken.append((k, bool(ev.ev(n.test, {kind_known: k}))))
            ok = lit is not None and all((not t) or (k == top and lit == k) for k, t in taken)
            sc.append((ok, n.lineno, lit, taken))
    if sc:
        ok, line, lit, taken = sc[0]
        out.append((key0 + ':kind-shortcut', ok, line, 'the kind computation is skipped and the constant %s is emitted when the known kind is in %s; that is only right for the largest kind %d '
                    '(a narrower text allocated as kind %s is a non-canonical string that compares unequal to the same text)' % (lit, [k for k, t in taken if t], top, lit)))
    return out


def rule_joinpy(ctx):
    r = Rule('C18-JOINPY', 'JoinedStrNode.generate_evaluation_code: every part is counted in the result length and kind handed to __Pyx_PyUnicode_Join (path analysis of the accounting loop, '
             'repetition factors, the largest-kind shortcut); UnicodeNode.get_ustring_kind classifies the largest character like CPython (0 ASCII, 1, 2, 4)', floor=12)
    tree = ctx.parse(EXPRNODES)
    un = _find_class(tree, 'UnicodeNode', EXPRNODES)
    gk = _find_method(un, 'get_ustring_kind', EXPRNODES)
    kinds = set()
    bad = []
    table = ustring_kind_table(gk)
    for c, k in table:
        kinds.add(k)
        if k != kind_of_char(c):
            bad.append((c, k))
    key = 'ExprNodes.UnicodeNode.get_ustring_kind'
    for c, k in table:
        r.inst('%s:0x%x' % (key, c), sample='%s: largest character 0x%x -> kind %r' % (key, c, k))
    if bad:
        r.violate(key, EXPRNODES, gk.lineno, 'a literal whose largest character is 0x%x is classified as kind %r, CPython stores it as kind %d%s: the f-string result is allocated too narrow (characters '
                  'truncated) or too wide (non-canonical string)' % (bad[0][0], bad[0][1], kind_of_char(bad[0][0]), ' (+%d more boundary classes)' % (len(bad) - 1) if len(bad) > 1 else ''))
    js = _find_class(tree, 'JoinedStrNode', EXPRNODES)
    for k2, ok, line, msg in joinpy_facts(js, kinds if not bad else {0, 1, 2, 4}):
        r.inst(k2, sample=k2)
        if not ok:
            r.violate(k2, EXPRNODES, line, msg)
    pc = joinpy_facts(ast.parse(JOINPY_POSITIVE).body[0], {0, 1, 2, 4})
    r.positive_control({k.rsplit(':', 1)[1] for k, ok, _, _ in pc if not ok} == {'length-accounting', 'literal-kind', 'kind-accounting', 'factors-applied', 'kind-shortcut'},
                       'clone not counted, literal kind dropped, character formats treated as ASCII, factor ignored for a single index, shortcut for kind 2')
    return r


# --------------------------------------------------------------------------------------------------- C18-TYPES
# format(x, '') == str(x) for every object; format(i, 'd') == str(i) for an int but format(True, 'd') == '1' and format(1.5, 'd') raises.
DEFAULT_SPEC_OK = {'int': {'', 'd'}, 'bool': {''}, 'float': {''}}


def _class_map(tree):
    return {n.name: n for n in tree.body if isinstance(n, ast.ClassDef)}


def _mro(classes, name, seen=None):
    """depth-first, left-to-right linearisation with later duplicates removed (exact for the single-inheritance + mixin shapes of PyrexTypes)"""
    out = []
    c = classes.get(name)
    if c is None:
        return out
    out.append(name)
    for b in c.bases:
        if isinstance(b, ast.Name):
            for x in _mro(classes, b.id):
                if x in out:
                    out.remove(x)
                out.append(x)
    return out


def _class_attr(classes, mro, attr):
    for cn in mro:
        for n in classes[cn].body:
            if isinstance(n, ast.Assign) and any(isinstance(t, ast.Name) and t.id == attr for t in n.targets):
                return cn, n.value
            if isinstance(n, ast.FunctionDef) and n.name == attr:
                return cn, n
    return None, None


def _python_kind(classes, mro):
    """python-level type whose str() an f-string of this C type shows: 'bool' / 'int' / 'float' / None"""
    owner, fn = _class_attr(classes, mro, 'py_type_name')
    if isinstance(fn, ast.FunctionDef):
        rets = [n.value.value for n in ast.walk(fn) if isinstance(n, ast.Return) and isinstance(n.value, ast.Constant)]
        if rets == ['bool']:
            return 'bool'
    for flag, kind in (('is_float', 'float'), ('is_int', 'int'), ('is_enum', 'int')):
        owner, v = _class_attr(classes, mro, flag)
        if isinstance(v, ast.Constant) and v.value:
            return kind
    return None


def types_facts(tree, rel=PYREX, cat=None):
    classes = _class_map(tree)
    out = []
    n_spec = 0
    for name in sorted(classes):
        mro = _mro(classes, name)
        owner, fn = _class_attr(classes, mro, 'can_coerce_to_pystring')
        if not isinstance(fn, ast.FunctionDef):
            continue
        rets = [n.value for n in ast.walk(fn) if isinstance(n, ast.Return)]
        if rets and all(isinstance(v, ast.Constant) and not v.value for v in rets):
            continue            # never formatted at the C level
        kind = _python_kind(classes, mro)
        if kind is None:
            continue
        sowner, spec = _class_attr(classes, mro, 'default_format_spec')
        if not isinstance(spec, ast.Constant):
            raise AnalysisError('%s.default_format_spec is not a constant' % name)
        n_spec += 1
        key = 'PyrexTypes.%s:default_format_spec' % name
        out.append((key, spec.value in DEFAULT_SPEC_OK[kind], classes[name].lineno,
                    "%s (python type %s) formats f'{x}' with the default spec %r (inherited from %s); str(x) is format(x, spec) only for spec in %s: f'{x}' of a %s would show %s"
                    % (name, kind, spec.value, sowner, sorted(DEFAULT_SPEC_OK[kind]), kind, {'bool': "'1'/'0' instead of 'True'/'False'", 'float': 'a %-formatted number instead of repr(x)'}.get(kind, 'a different text'))))
    if n_spec < 3:
        raise AnalysisError('only %d C types with C-level string formatting found in PyrexTypes' % n_spec)
    # ---- bint: the falsy spec goes to the True/False helper, a real spec to the integer formatter
    for name in sorted(classes):
        mro = _mro(classes, name)
        if _python_kind(classes, mro) != 'bool':
            continue
        owner, fn = _class_attr(classes, mro, 'convert_to_pystring')
        if not isinstance(fn, ast.FunctionDef) or owner != name:
            raise AnalysisError('%s does not define convert_to_pystring' % name)
        params = [a.arg for a in fn.args.args]
        if 'format_spec' not in params:
            raise AnalysisError('%s.convert_to_pystring has no format_spec parameter' % name)
        for label, spec in (('None', None), ('empty', ''), ('d', 'd')):
            args = [Obj(p) if p != 'format_spec' else Const(spec) for p in params]
            res = set()
            for run, ret in explore_runs(fn, args, {}, {}, {}, lambda nm, a: None):
                res.add('int-formatter' if isinstance(ret, Obj) and 'super' in ret.path else 'bool-text' if isinstance(ret, Text) else repr(ret))
            want = 'int-formatter' if spec else 'bool-text'
            out.append(('PyrexTypes.%s.convert_to_pystring:spec=%s' % (name, label), res == {want}, fn.lineno,
                        "%s.convert_to_pystring with format spec %r takes the route %s; it must be %s (f'{flag}' is 'True', f'{flag:d}' is '1')" % (name, spec, sorted(res), want)))
    # ---- text constants of the value-less helpers: str(True), str(False), str(None)
    for name in sorted(classes):
        mro = _mro(classes, name)
        owner, fn = _class_attr(classes, mro, 'convert_to_pystring')
        if not isinstance(fn, ast.FunctionDef) or owner != name:
            continue
        for d in [x for x in ast.walk(fn) if isinstance(x, ast.Dict)]:
            for k, v in zip(d.keys, d.values):
                if isinstance(k, ast.Constant) and k.value in ('TRUE_CONST', 'FALSE_CONST'):
                    texts = [c.value for c in ast.walk(v) if isinstance(c, ast.Constant) and isinstance(c.value, str)]
                    want = str(k.value == 'TRUE_CONST')
                    out.append(('PyrexTypes.%s.convert_to_pystring:text:%s' % (name, k.value), texts == [want], fn.lineno,
                                "%s binds the template variable %s to the text %s; f'{flag}' must show str(%s) == %r" % (name, k.value, texts, want, want)))
        if any(isinstance(v, ast.Constant) and v.value is True for o, v in [_class_attr(classes, mro, 'is_returncode')]):
            texts = [c.value for r_ in ast.walk(fn) if isinstance(r_, ast.Return) and r_.value is not None for c in ast.walk(r_.value)
                     if isinstance(c, ast.Call) and isinstance(c.func, (ast.Name, ast.Attribute)) and ast.unparse(c.func).endswith('EncodedString')
                     for c in c.args if isinstance(c, ast.Constant)]
            out.append(('PyrexTypes.%s.convert_to_pystring:text:None' % name, texts == [str(None)], fn.lineno,
                        "%s (a C return code, None at the Python level) is shown as %s; it must be str(None) == 'None'" % (name, texts)))
    if cat is not None:
        from . import s4C18
        from ..engine import cexpr
        from ..engine.cutil import strip_c_comments
        sec = cat.section('TypeConversion.c', 'CBIntToPyUnicode', 'proto')
        if sec is None:
            raise AnalysisError('TypeConversion.c::CBIntToPyUnicode.proto not found')
        text = strip_c_comments(sec.raw).replace('\\\n', ' ')
        m = re.search(r'#\s*define\s+\{\{\s*\w+\s*\}\}\s*\(\s*(\w+)\s*\)\s*(.*)', text)
        parts = s4C18._split_ternary(m.group(2)) if m else None
        if not parts:
            raise AnalysisError('CBIntToPyUnicode: the macro is not a conditional on its parameter')
        cond, a, b = parts
        try:
            truth = [bool(cexpr.evaluate(s4C18.cx(cond), {m.group(1): v}, calls={'likely': lambda x: x, 'unlikely': lambda x: x})) for v in (0, 1, 2, -1)]
        except (cexpr.EvalError, s4C18.CParseError) as ex:
            raise AnalysisError('CBIntToPyUnicode: condition %r: %s' % (cond, ex))
        sel = [(a if t else b) for t in truth]
        ok = all(('TRUE_CONST' in s_ and 'FALSE_CONST' not in s_) == (v != 0) and ('FALSE_CONST' in s_ and 'TRUE_CONST' not in s_) == (v == 0) for s_, v in zip(sel, (0, 1, 2, -1)))
        out.append(('TypeConversion.c::CBIntToPyUnicode:selection', ok, sec.line, "the bint text macro selects %s for the values 0, 1, 2, -1; it must take {{TRUE_CONST}} exactly for non-zero values" % sel))
    # ---- external typedefs hand themselves on as the type to instantiate the helper for
    td = classes.get('CTypedefType')
    if td is None:
        raise AnalysisError('PyrexTypes.CTypedefType not found')
    fn = next((n for n in td.body if isinstance(n, ast.FunctionDef) and n.name == 'convert_to_pystring'), None)
    if fn is None:
        raise AnalysisError('CTypedefType.convert_to_pystring not found')
    deleg = [c for c in ast.walk(fn) if isinstance(c, ast.Call) and isinstance(c.func, ast.Attribute) and c.func.attr == 'convert_to_pystring']
    if not deleg:
        raise AnalysisError('CTypedefType.convert_to_pystring does not delegate')
    ok = False
    for c in deleg:
        cand = list(c.args[3:4]) + [k.value for k in c.keywords if k.arg == 'name_type']
        for a in cand:
            clo = dependency_closure(fn, a)
            reads_ext = any(_is_self_attr(x, 'typedef_is_external') for x in ast.walk(fn))
            if 'self' in clo and reads_ext:
                ok = True
    out.append(('PyrexTypes.CTypedefType.convert_to_pystring:external-name-type', ok, fn.lineno,
                'CTypedefType.convert_to_pystring delegates to the base type without ever passing itself as name_type under `typedef_is_external`: the text helper is instantiated for the declared '
                'base type, which for an external typedef is only approximate (a 64-bit `ctypedef int wide_t` is printed truncated)'))
    return out


TYPES_POSITIVE = '''
class PyrexType:
    default_format_spec = None
    def can_coerce_to_pystring(self, env, format_spec=None):
        return False
class CIntLike:
    default_format_spec = 'd'
    def can_coerce_to_pystring(self, env, format_spec=None):
        return self._parse_format(format_spec)[0] is not None
class CIntType(CIntLike, PyrexType):
    is_int = 1
class CBIntType(CIntType):
    def convert_to_pystring(self, cvalue, code, format_spec=None, name_type=None):
        if format_spec is not None:
            return super().convert_to_pystring(cvalue, code, format_spec, name_type)
        return "%s(%s)" % (name, cvalue)
    def py_type_name(self):
        return "bool"
class CFloatType(PyrexType):
    is_float = 1
    default_format_spec = ''
    def can_coerce_to_pystring(self, env, format_spec=None):
        return True
class CTypedefType(PyrexType):
    def convert_to_pystring(self, cvalue, code, format_spec=None, name_type=None):
        return self.typedef_base_type.convert_to_pystring(cvalue, code, format_spec, name_type)
'''


def rule_types(ctx):
    r = Rule('C18-TYPES', "C types with C-level string formatting: the default format spec used for f'{x}' gives str(x) for the python type the C type stands for (int: '' or 'd'; bool, float: ''); "
             "bint sends exactly the falsy spec to the True/False helper; external typedefs pass themselves on as the type the helper is instantiated for", floor=6)
    for key, ok, line, msg in types_facts(ctx.parse(PYREX), cat=ctx.cat):
        r.inst(key, sample=key)
        if not ok:
            r.violate(key, 'Cython/Utility/TypeConversion.c' if key.startswith('TypeConversion') else PYREX, line, msg)
    pc = types_facts(ast.parse(TYPES_POSITIVE), 'pc')
    bad = {k for k, ok, _, _ in pc if not ok}
    r.positive_control(bad == {'PyrexTypes.CBIntType:default_format_spec', 'PyrexTypes.CBIntType.convert_to_pystring:spec=empty', 'PyrexTypes.CTypedefType.convert_to_pystring:external-name-type'},
                       "bint inheriting the default spec 'd', the empty spec reaching the integer formatter, a typedef that never passes itself")
    return r


# --------------------------------------------------------------------------------------------------- C18-CONVSEL
def convsel_cases(fv_cls, convs):
    """FormattedValueNode.analyse_types per conversion character: is C-level number formatting selected (self.c_format_spec stored) while a format spec is present?"""
    fn = _find_method(fv_cls, 'analyse_types', EXPRNODES)
    cc = _class_consts(fv_cls, 'self')
    out = []
    for conv in convs:
        sel = 0
        bad = []
        bad_default = []
        for run, ret in explore_runs(fn, [Obj('self'), Obj('env')], {'self.conversion_char': Const(conv)}, cc, {}, _conv_marks):
            stored = run.stored.get('self.c_format_spec')
            if stored is None or (isinstance(stored, Const) and stored.v is None):
                continue
            sel += 1
            if conv in ('s', 'r', 'a') and run.val.get('T:self.format_spec') is not False:
                bad.append(_describe_val(run.val))
            if run.val.get('T:self.format_spec') is False and not (isinstance(stored, Obj) and stored.path.endswith('.default_format_spec') and 'self.value' in stored.path):
                bad_default.append(repr(stored))
        out.append(('ExprNodes.%s.analyse_types:c-level:conv=%s' % (fv_cls.name, conv), not bad, fn.lineno, sel,
                    "with the conversion !%s the format spec applies to the converted *string* (left-aligned, no number codes), but analyse_types selects C-level number formatting on a path "
                    "with a format spec (%s): f'{c_int!%s:5}' would be right-aligned like a number" % (conv, bad[0] if bad else '', conv)))
        if conv is None:
            out.append(('ExprNodes.%s.analyse_types:default-spec' % fv_cls.name, not bad_default, fn.lineno, sel,
                        "without a format spec the C-level spec is %s instead of the default_format_spec of the value's type: one constant cannot be str() for int, bint and float "
                        "(f'{flag}' -> '1')" % (bad_default[0] if bad_default else '')))
    return out


def rule_convsel(ctx):
    r = Rule('C18-CONVSEL', 'FormattedValueNode.analyse_types: per conversion character, C-level number formatting (c_format_spec) is selected together with a format spec only for no conversion / the '
             'internal int conversion; with !s !r !a only when there is no spec (decision table over all valuations of its tests)', floor=4)
    fv = _find_class(ctx.parse(EXPRNODES), 'FormattedValueNode', EXPRNODES)
    convs = conversion_domain(fv)
    total = 0
    for key, ok, line, sel, msg in convsel_cases(fv, convs):
        r.inst(key, sample='%s: %d paths select C-level formatting' % (key, sel))
        total += sel
        if not ok:
            r.violate(key, EXPRNODES, line, msg)
    if not total:
        raise AnalysisError('FormattedValueNode.analyse_types: no path stores self.c_format_spec')
    from . import pC18
    pcls = ast.parse(pC18.CONV_POSITIVE).body[0]
    pc = convsel_cases(pcls, [None, 's', 'r'])
    r.positive_control({k.rsplit('=', 1)[1] for k, ok, _, _, _ in pc if not ok and '=' in k} == {'s', 'r'}, 'C-level formatting selected for !s/!r with a literal spec')
    return r


# --------------------------------------------------------------------------------------------------- C18-STRSEL
def _converts(cat, cname):
    """does the C helper `cname` run a conversion (PyObject_Str / Format / Repr) for some argument?  None if it has no C definition"""
    from ..engine.cutil import strip_c_comments
    decls = [d for d in cat.lookup(cname) if d.kind in ('func', 'macro')]
    if not decls:
        return None
    return any(re.search(r'\b(PyObject_Str|PyObject_Format|PyObject_Repr|PyObject_Unicode)\s*\(', strip_c_comments(d.body or d.raw or '')) for d in decls)


def strsel_facts(opt_cls, converts):
    """the C helper emitted for str(x): an identity-unless-None helper only on statically-str paths"""
    fn = _find_method(opt_cls, '_handle_simple_function_unicode', OPTIMIZE)
    out = []
    names = {}
    flagdefs = {}
    counts = {}

    def helper_consts(v):
        """'__Pyx_x' | ('__Pyx_a' if T else '__Pyx_b')  ->  [(name, test or None, truth)]"""
        if isinstance(v, ast.Constant) and isinstance(v.value, str) and v.value.startswith('__Pyx_'):
            return [(v.value, None, None)]
        if isinstance(v, ast.IfExp):
            a, b = helper_consts(v.body), helper_consts(v.orelse)
            if len(a) == 1 and len(b) == 1 and a[0][1] is None and b[0][1] is None:
                return [(a[0][0], v.test, True), (b[0][0], v.test, False)]
        return []
    for n in walk_no_nested(fn):
        if isinstance(n, ast.Assign) and len(n.targets) == 1 and isinstance(n.targets[0], ast.Name):
            counts[n.targets[0].id] = counts.get(n.targets[0].id, 0) + 1
            flagdefs[n.targets[0].id] = n.value
            for h, _, _ in helper_consts(n.value):
                names.setdefault(n.targets[0].id, set()).add(h)
    flagdefs = {k: v for k, v in flagdefs.items() if counts[k] == 1}

    def str_evidence(text, truth):
        """the (possibly flag-resolved) test says: the argument is statically a str"""
        if text in flagdefs:
            text = ast.unparse(flagdefs[text])
        return truth is True and text.endswith('.type.is_pystr_type')
    if len(names) != 1:
        raise AnalysisError('%s._handle_simple_function_unicode: the helper-name variable was not found (%s)' % (opt_cls.name, sorted(names)))
    (var, helpers), = names.items()
    bad = {}
    seen = set()

    def transfer(n, state):
        if isinstance(n, ast.Assign) and len(n.targets) == 1 and isinstance(n.targets[0], ast.Name) and n.targets[0].id == var and helper_consts(n.value):
            return frozenset(f for f in state if not (isinstance(f, tuple) and f[0] == 'CN')) | {('CN', h, ast.unparse(t) if t is not None else None, tr) for h, t, tr in helper_consts(n.value)}
        if isinstance(n, ast.Return) and n.value is not None and any(isinstance(x, ast.Name) and x.id == var for x in ast.walk(n.value)):
            for f in state:
                if isinstance(f, tuple) and f[0] == 'CN':
                    seen.add(f[1])
                    is_str = any(isinstance(g, tuple) and len(g) == 4 and g[0] == '?' and str_evidence(g[1], g[2]) for g in state) or (f[2] is not None and str_evidence(f[2], f[3]))
                    if converts(f[1]) is False and not is_str:
                        bad[f[1]] = n.lineno
        return state
    pyflow.Flow(transfer).run(fn)
    if seen != helpers:
        raise AnalysisError('%s._handle_simple_function_unicode: helpers %s assigned, %s emitted' % (opt_cls.name, sorted(helpers), sorted(seen)))
    for h in sorted(helpers):
        c = converts(h)
        if c is None:
            raise AnalysisError('helper %s has no C definition' % h)
        out.append(('Optimize.%s._handle_simple_function_unicode:helper:%s' % (opt_cls.name, h), h not in bad, bad.get(h, fn.lineno),
                    'str(x) is compiled to %s(x) on a path that did not establish that x is statically a str; that helper never calls PyObject_Str (it returns its argument, or the text '
                    "'None' for None): str(5) would be 5" % h))
    return out


def rule_strsel(ctx):
    r = Rule('C18-STRSEL', 'str(x) / f"{x}" of a str-typed value: a C helper that performs no conversion (returns its argument unless it is None) is emitted only on paths where the argument is '
             'statically a str; every other path gets a helper that calls PyObject_Str', floor=2)
    opt = _find_class(ctx.parse(OPTIMIZE), 'OptimizeBuiltinCalls', OPTIMIZE)
    cat = ctx.cat
    for key, ok, line, msg in strsel_facts(opt, lambda h: _converts(cat, h)):
        r.inst(key, sample=key)
        if not ok:
            r.violate(key, OPTIMIZE, line, msg)
    pc_src = '''
class OptimizeBuiltinCalls:
    def _handle_simple_function_unicode(self, node, function, pos_args):
        arg = pos_args[0]
        if arg.type.is_pystr_type:
            cname = "__Pyx_PyObject_Unicode"
        else:
            cname = "__Pyx_PyUnicode_Unicode"
        return ExprNodes.PythonCapiCallNode(node.pos, cname, self.PyObject_Unicode_func_type, args=pos_args)
'''
    pc = strsel_facts(ast.parse(pc_src).body[0], lambda h: h == '__Pyx_PyObject_Unicode')
    r.positive_control([k.rsplit(':', 1)[1] for k, ok, _, _ in pc if not ok] == ['__Pyx_PyUnicode_Unicode'], 'the identity helper selected for arbitrary objects')
    return r
