"""Strengthening rules for C18 (string formatting).

C18-MEMO   Cache-key completeness of the per-type memo slots in PyrexTypes.  A C type object is a process-wide singleton; a method that memoises a
           computed value on it (`if self.X is None: ... self.X = V` / `if self.X is not None: use self.X`) may only depend on `self` - or every
           further parameter the memoised value is computed from (def-use closure over the local assignments of the method) must take part in the
           decision to USE the slot (a branch fact on the path to every read that is not preceded by a write) and in the decision to FILL it (a
           branch fact on the path to the store).  Otherwise the value computed for one argument is served for another one: the conversion helper
           instantiated for plain `int` is reused for an external `ctypedef int wide_t` (really 64 bit) and f"{wide}" prints truncated numbers.

C18-STRNONE  Decision table of the `!s` / str() elision.  A value whose static type is `str` may still be None, and str(None) == 'None' is not None.
           Every function of the formatting mechanism that can drop the conversion step - FormattedValueNode.analyse_types (returns the operand itself),
           FormattedValueNode.generate_result_code (does not wrap the operand in the conversion call), OptimizeBuiltinCalls._handle_simple_function_unicode
           (returns the argument itself) and OptimizeBuiltinCalls.visit_FormattedValueNode (replaces the node by the str() optimisation) - is executed by a
           small symbolic interpreter (of the checker; no repository code runs) over the complete valuation space of its atomic tests, with the conversion
           character ranging over {None, 's', 'r', 'a', 'd'}; the observed outcome (conversion kept / dropped) is compared with the reference
           "dropped only if conversion in (None*, 's') and the operand is statically str and cannot be None [and there is no format spec where the
           outcome is the bare operand]".
"""
import ast, itertools

from ..core import Rule, AnalysisError, node_src
from ..engine import pyflow
from ..engine.pyindex import walk_no_nested

PYREX = 'Cython/Compiler/PyrexTypes.py'
EXPRNODES = 'Cython/Compiler/ExprNodes.py'
OPTIMIZE = 'Cython/Compiler/Optimize.py'


# =================================================================================================== C18-MEMO
def _is_self_attr(n, attr=None):
    return isinstance(n, ast.Attribute) and isinstance(n.value, ast.Name) and n.value.id == 'self' and (attr is None or n.attr == attr)


def _none_test_of(n):
    """`self.A is None` / `self.A is not None` -> A"""
    if isinstance(n, ast.Compare) and len(n.ops) == 1 and isinstance(n.ops[0], (ast.Is, ast.IsNot)) and _is_self_attr(n.left) and \
            isinstance(n.comparators[0], ast.Constant) and n.comparators[0].value is None:
        return n.left.attr
    return None


def memo_slots(fn):
    """attributes of self that the method both tests against None and assigns a computed (non-constant) value"""
    tested, written = set(), {}
    for n in walk_no_nested(fn):
        a = _none_test_of(n)
        if a:
            tested.add(a)
        if isinstance(n, ast.Assign):
            for t in n.targets:
                if _is_self_attr(t) and not isinstance(n.value, ast.Constant):
                    written.setdefault(t.attr, []).append(n)
    return {a: written[a] for a in tested & set(written)}


def _names(e):
    return {n.id for n in ast.walk(e) if isinstance(n, ast.Name)}


def _bound_names(t):
    """local names an assignment target binds (not the objects whose attributes / items it stores into)"""
    if isinstance(t, ast.Name):
        return [t.id]
    if isinstance(t, (ast.Tuple, ast.List)):
        return [x for e in t.elts for x in _bound_names(e)]
    if isinstance(t, ast.Starred):
        return _bound_names(t.value)
    return []


def dependency_closure(fn, value):
    """names the value (an expression, or an iterable of names) is computed from, through the local assignments of the method (flow-insensitive)"""
    defs = {}
    for n in walk_no_nested(fn):
        if isinstance(n, ast.Assign):
            for t in n.targets:
                for x in _bound_names(t):
                    defs.setdefault(x, set()).update(_names(n.value))
        elif isinstance(n, ast.AugAssign) and isinstance(n.target, ast.Name):
            defs.setdefault(n.target.id, set()).update(_names(n.value) | {n.target.id})
        elif isinstance(n, (ast.For, ast.comprehension)):
            for x in _bound_names(n.target):
                defs.setdefault(x, set()).update(_names(n.iter))
    seen, todo = set(), list(_names(value) if isinstance(value, ast.AST) else value)
    while todo:
        x = todo.pop()
        if x in seen:
            continue
        seen.add(x)
        todo += list(defs.get(x, ()))
    return seen


def memo_check(fn, attr, stores):
    """-> (param deps, [(kind 'use'|'fill', node, missing params)])"""
    params = [a.arg for a in fn.args.args[1:]] + [a.arg for a in fn.args.kwonlyargs]
    deps = set()
    for st in stores:
        # a store of the slot's own previous value (unpacking / re-store) is not a computation
        deps |= dependency_closure(fn, st.value)
    pdeps = sorted(p for p in params if p in deps)
    if not pdeps:
        return pdeps, []
    events = []

    def reads_slot(node):
        tests = {id(x.left) for x in ast.walk(node) if _none_test_of(x)}
        for x in ast.walk(node):
            if _is_self_attr(x, attr) and isinstance(x.ctx, ast.Load) and id(x) not in tests:
                return True
        return False

    def transfer(node, state):
        if isinstance(node, ast.Assign) and any(_is_self_attr(t, attr) for t in node.targets):
            events.append(('fill', node, state))
            return state | {('W', attr)}
        if isinstance(node, (ast.stmt, ast.expr)) and not isinstance(node, (ast.If, ast.While, ast.For)) and ('W', attr) not in state and reads_slot(node):
            events.append(('use', node, state))
        return state
    pyflow.Flow(transfer).run(fn)
    out = []
    for kind, node, state in events:
        mentioned = set()
        for f in state:
            if isinstance(f, tuple) and len(f) == 4 and f[0] == '?':
                for nm in f[3]:
                    mentioned.add(nm.split('.', 1)[0])
        mentioned = dependency_closure(fn, mentioned)        # a test of a local flag is a test of what the flag was computed from
        missing = [p for p in pdeps if p not in mentioned]
        out.append((kind, node, missing))
    return pdeps, out


MEMO_POSITIVE = '''
class CIntLike:
    def convert_to_pystring(self, cvalue, code, format_spec=None, name_type=None):
        if self.to_pyunicode_utility is not None:
            cname, util = self.to_pyunicode_utility
        else:
            if name_type is None:
                name_type = self
            cname = "__Pyx_PyUnicode_From_" + name_type.specialization_name()
            util = load("CIntToPyUnicode", context={"TYPE": name_type.empty_declaration_code(), "TO_PY_FUNCTION": cname})
            if name_type is self:
                self.to_pyunicode_utility = (cname, util)
        code.globalstate.use_utility_code(util)
        return "%s(%s)" % (cname, cvalue)
'''


def _memo_eval(r, clsname, fn, rel, exempt=()):
    n = 0
    for attr, stores in sorted(memo_slots(fn).items()):
        key = 'PyrexTypes.%s.%s:%s' % (clsname, fn.name, attr)
        pdeps, events = memo_check(fn, attr, stores)
        n += 1
        r.inst(key, sample='%s: memo slot self.%s, value depends on parameter(s) %s' % (key, attr, pdeps or '-'), nontrivial=bool(pdeps))
        bad_use = [(node, missing) for kind, node, missing in events if kind == 'use' and missing]
        bad_fill = [(node, missing) for kind, node, missing in events if kind == 'fill' and missing]
        if bad_use:
            node, missing = bad_use[0]
            r.violate(key + ':use', rel, node.lineno,
                      '%s.%s serves the memoised self.%s (`%s`) on a path that never looks at parameter %s, but the memoised value is computed from it: the value built '
                      'for one %s is reused for every other one (the C helper instantiated for the declared base type formats an external typedef\'d value of a different '
                      'real width: wrong digits)' % (clsname, fn.name, attr, node_src(node, 70), '/'.join(missing), '/'.join(missing)))
        if bad_fill:
            node, missing = bad_fill[0]
            r.violate(key + ':fill', rel, node.lineno,
                      '%s.%s stores self.%s (`%s`) on a path that never looks at parameter %s although the stored value is computed from it: a value that is specific to '
                      'one argument is memoised on the shared type object and served to later callers' % (clsname, fn.name, attr, node_src(node, 70), '/'.join(missing)))
    return n


def rule_memo(ctx):
    r = Rule('C18-MEMO', 'memo slots on the shared C type objects (PyrexTypes): every parameter the memoised value is computed from takes part in the decision to use '
             'and in the decision to fill the slot (cache-key completeness; convert_to_pystring memoises the integer-to-text helper per type)', floor=17)
    tree = ctx.parse(PYREX)
    total = 0
    keyed = 0
    for cls in [n for n in ast.walk(tree) if isinstance(n, ast.ClassDef)]:
        for fn in cls.body:
            if isinstance(fn, ast.FunctionDef) and fn.args.args and fn.args.args[0].arg == 'self':
                total += _memo_eval(r, cls.name, fn, PYREX)
    if not any('.convert_to_pystring:' in str(k) for k in r.nontrivial):
        raise AnalysisError('no memo slot with a parameter-dependent value found in a convert_to_pystring method (the C18 anchor of this rule)')
    # embedded positive example
    pr = Rule('pc', 'pc')
    pcls = ast.parse(MEMO_POSITIVE).body[0]
    _memo_eval(pr, pcls.name, pcls.body[0], 'pc')
    r.positive_control({f.construct for f in pr.findings} == {'PyrexTypes.CIntLike.convert_to_pystring:to_pyunicode_utility:use'},
                       'memo read without a test of name_type')
    return r
