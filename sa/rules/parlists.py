"""PAR: attribute lists of a node class that are walked in lock step (zip(self.a, self.b)) are only ever reordered together.

`keys` / `value_patterns`, `keyword_pattern_names` / `keyword_pattern_patterns`, `lhs_list` / `cloned_values` ... are parallel arrays: element i of one
belongs to element i of the other.  Sorting or reversing one of them alone silently pairs every key with the pattern of another key."""
import ast, collections

from ..core import Rule, AnalysisError
from ..engine.pyindex import walk_no_nested

REORDER_METHODS = ('sort', 'reverse')
REORDER_FUNCS = ('sorted', 'reversed')


# Parallel lists confirmed by reading the classes (the zip() inference below rediscovers most of them; the table keeps a pair known even when an
# edit removes the one zip() that showed it).  (module, class) -> groups
FROZEN = {
    ('MatchCaseNodes', 'MatchMappingPatternNode'): [('keys', 'value_patterns')],     # class comment: "value_patterns list of PatternNodes of equal length to keys"
    ('MatchCaseNodes', 'ClassPatternNode'): [('keyword_pattern_names', 'keyword_pattern_patterns')],
    ('MatchCaseNodes', 'MatchSequencePatternNode'): [('patterns', 'subjects')],
    ('Nodes', 'CascadedAssignmentNode'): [('cloned_values', 'lhs_list')],
}


def parallel_groups(ix, prefix='Cython/Compiler/'):
    groups = collections.defaultdict(set)
    for (mn, cn), gs in FROZEN.items():
        c = ix.cls(mn, cn)
        if c is None:
            raise AnalysisError('class %s.%s of the parallel-list table vanished' % (mn, cn))
        src = ast.unparse(c.node)
        for g in gs:
            for a in g:
                if ('self.%s' % a) not in src:
                    raise AnalysisError('%s.%s no longer has the attribute %s' % (mn, cn, a))
            groups[c].add(tuple(sorted(g)))
    for m in ix.modules.values():
        if not m.rel.startswith(prefix):
            continue
        for c in m.classes.values():
            for name, fn in c.methods.items():
                for n in ast.walk(fn):
                    if isinstance(n, ast.Call) and isinstance(n.func, ast.Name) and n.func.id == 'zip' and len(n.args) >= 2:
                        attrs = [a.attr for a in n.args if isinstance(a, ast.Attribute) and isinstance(a.value, ast.Name) and a.value.id == 'self']
                        if len(attrs) == len(n.args) and len(set(attrs)) == len(attrs):
                            groups[c].add(tuple(sorted(attrs)))
    return groups


def _self_attr(x):
    return x.attr if isinstance(x, ast.Attribute) and isinstance(x.value, ast.Name) and x.value.id == 'self' else None


def reorders(fn):
    """attribute -> [lineno] of reordering operations on self.<attribute> in the function"""
    out = collections.defaultdict(list)
    for n in walk_no_nested(fn):
        if isinstance(n, ast.Call) and isinstance(n.func, ast.Attribute) and n.func.attr in REORDER_METHODS and _self_attr(n.func.value):
            out[_self_attr(n.func.value)].append(n.lineno)
        if isinstance(n, ast.Assign):
            val = n.value
            reord = any((isinstance(x, ast.Call) and isinstance(x.func, ast.Name) and x.func.id in REORDER_FUNCS) or
                        (isinstance(x, ast.Subscript) and isinstance(x.slice, ast.Slice) and isinstance(x.slice.step, ast.UnaryOp)) for x in ast.walk(val))
            if not reord:
                continue
            for t in n.targets:
                for x in (t.elts if isinstance(t, (ast.Tuple, ast.List)) else [t]):
                    a = _self_attr(x)
                    if a:
                        out[a].append(n.lineno)
    return out


def rule_par(ctx, floor=6):
    ix = ctx.index
    r = Rule('PAR', 'attribute lists that are iterated in lock step (zip(self.a, self.b)) are only reordered (sort / reverse / sorted()) together, in the same method', floor)
    groups = parallel_groups(ix)
    for c, gs in sorted(groups.items(), key=lambda kv: kv[0].qual):
        for g in sorted(gs):
            key = '%s:%s' % (c.qual, '+'.join(g))
            r.inst(key, sample=key)
            for name, fn in c.methods.items():
                ro = reorders(fn)
                touched = [a for a in g if a in ro]
                if touched and len(touched) < len(g):
                    missing = [a for a in g if a not in ro]
                    r.violate('%s:%s' % (key, name), c.module.rel, ro[touched[0]][0],
                              '%s.%s reorders self.%s but not the parallel list(s) self.%s that are zipped with it elsewhere in the class: element i of one no longer belongs to element i of the other' % (
                                  c.name, name, ', self.'.join(touched), ', self.'.join(missing)))
    pc = ast.parse("def validate_keys(self):\n    self.keys = list(self.keys)\n    self.keys.sort(key=lambda k: not k.is_literal)\n").body[0]
    pc2 = ast.parse("def validate_keys(self):\n    self.keys, self.value_patterns = [list(l) for l in zip(*sorted(zip(self.keys, self.value_patterns)))]\n").body[0]
    r.positive_control(dict(reorders(pc)).keys() == {'keys'} and set(reorders(pc2)) == {'keys', 'value_patterns'}, 'one-sided sort recognised; joint sort accepted')
    return r
