"""sC14 — (1) a small partial evaluator for code-emitting methods of the compiler ("Emu"), shared by sC14/sC20/sC21;
(2) C14-HDR: the C `for` header emitted by ForFromStatNode, decided symbolically for every relation pair / step / counter signedness.

Emu interprets the *source* of one method (ast) over abstract values: Python constants, frozen tables, unknown values named by their
access path (`U('self.bound1.result()')`), constructed objects.  Tests on unknown values fork the path and remember the assumption
under the canonical access path, so `from_range = self.from_range ... if not from_range` and `if not self.from_range` are the same atom.
Text handed to code.put/putln is assembled with unknown values kept as markers, so the emitted C skeleton of every path is available
as a string over symbols.  Nothing of the repository is imported or executed; constructs outside the fragment raise Unmodelled."""
import ast, re

from ..core import Rule, AnalysisError, node_src
from ..engine import cexpr

ML, MR = '\x01', '\x02'
MARK = re.compile('\x01([^\x02]*)\x02')
MAX_STATES = 6000


class Unmodelled(Exception):
    pass


class StopPath(Exception):
    pass


class U:
    """unknown value, named by access path / canonical expression text"""
    __slots__ = ('path', '_h')

    def __init__(self, path):
        self.path = path
        self._h = hash(('U', path))

    def __eq__(self, o):
        return isinstance(o, U) and o.path == self.path

    def __hash__(self):
        return self._h

    def __repr__(self):
        return 'U(%s)' % self.path


class New:
    """object constructed inside the analysed method"""
    __slots__ = ('cls', 'args', 'kwargs', 'line')

    def __init__(self, cls, args, kwargs, line):
        self.cls, self.args, self.kwargs, self.line = cls, tuple(args), tuple(sorted(kwargs.items(), key=lambda kv: kv[0])), line

    @property
    def ident(self):
        return 'new:%s@%d' % (self.cls, self.line)

    def __eq__(self, o):
        return isinstance(o, New) and (o.cls, o.line, o.args, o.kwargs) == (self.cls, self.line, self.args, self.kwargs)

    def __hash__(self):
        return hash(('New', self.cls, self.line))

    def __repr__(self):
        return 'New(%s)' % self.cls


class Tab:
    """frozen dict"""
    def __init__(self, d):
        self.d = dict(d)
        self.k = tuple(sorted(((repr(k), repr(v)) for k, v in self.d.items())))

    def __eq__(self, o):
        return isinstance(o, Tab) and o.k == self.k

    def __hash__(self):
        return hash(self.k)

    def __repr__(self):
        return 'Tab(%r)' % (self.d,)


def show(v):
    if isinstance(v, U):
        return v.path
    if isinstance(v, New):
        return v.ident
    if isinstance(v, tuple):
        return '(%s)' % ', '.join(show(x) for x in v)
    return repr(v)


def concrete(v):
    if isinstance(v, (U, New)):
        return False
    if isinstance(v, tuple):
        return all(concrete(x) for x in v)
    if isinstance(v, str):
        return ML not in v
    return True


def paste(v):
    """text of a value inside emitted code"""
    if isinstance(v, U):
        return ML + v.path + MR
    if isinstance(v, New):
        return ML + v.ident + MR
    return None


class St:
    __slots__ = ('env', 'attrs', 'assume', 'eqs', 'events', 'frames', 'approx', 'entry', 'written')

    def __init__(self):
        self.env, self.attrs, self.assume, self.eqs, self.events, self.frames, self.approx = {}, {}, {}, {}, (), (), False
        self.entry = {}              # assumptions made about the state on entry (attributes not yet written on this path); survive later writes
        self.written = frozenset()   # attribute paths assigned on this path

    def copy(self):
        s = St()
        s.env, s.attrs, s.assume, s.eqs = dict(self.env), dict(self.attrs), dict(self.assume), dict(self.eqs)
        s.events, s.frames, s.approx = self.events, self.frames, self.approx
        s.entry, s.written = dict(self.entry), self.written
        return s

    def key(self):
        return (frozenset(self.env.items()), frozenset(self.attrs.items()), frozenset(self.assume.items()), frozenset(self.eqs.items()),
                self.events, self.frames, self.approx, frozenset(self.entry.items()), self.written)

    def is_written(self, path):
        for w in self.written:
            if path == w or path.startswith(w + '.') or path.startswith(w + '[') or w.startswith(path + '.'):
                return True
        return False


def _dedupe(states, limit=None):
    if len(states) < 2:
        return states
    seen, out = set(), []
    for s in states:
        try:
            k = s.key()
        except TypeError as e:
            raise Unmodelled('unhashable abstract value (%s)' % e)
        if k not in seen:
            seen.add(k)
            out.append(s)
    if len(out) > (limit or MAX_STATES):
        raise Unmodelled('more than %d abstract states' % (limit or MAX_STATES))
    return out


class Out:
    __slots__ = ('normal', 'returns', 'breaks', 'continues', 'stopped')

    def __init__(self):
        self.normal, self.returns, self.breaks, self.continues, self.stopped = [], [], [], [], []

    def absorb(self, o):
        self.returns += o.returns
        self.breaks += o.breaks
        self.continues += o.continues
        self.stopped += o.stopped


EVENT_METHODS = re.compile(r'^(generate_\w+|free_temps|free_subexpr_temps|allocate|release|allocate_temp_result|release_temp_result|make_owned_reference)$')
STR_METHODS = ('startswith', 'endswith', 'strip', 'lstrip', 'rstrip', 'lower', 'upper', 'replace', 'join', 'format', 'split')
FMT = re.compile(r'%(?:\((\w+)\))?([-#0 +]*\d*(?:\.\d+)?[sdrifxXc%])')
GENERIC_OWNERS = ('Node', 'ExprNode', 'StatNode', 'object', 'AtomicExprNode', 'NewTempExprNode')


class Emu:
    def __init__(self, ix, cls, code_names=('code',), inline=None, unknown_loops='error', on_event=None, max_depth=5, max_states=None):
        """cls: pyindex ClassInfo of the analysed class (self).  inline(owner ClassInfo, name) -> bool."""
        self.ix, self.cls = ix, cls
        self.code_names = set(code_names)
        self.inline = inline or (lambda owner, name: owner.name not in GENERIC_OWNERS)
        self.unknown_loops = unknown_loops
        self.on_event = on_event
        self.max_depth = max_depth
        self.max_states = max_states
        self._self_attr_names = None

    # ----------------------------------------------------------------------------------------------------------- entry
    def run(self, owner, fn, presets=None, assume=None, args=None):
        """-> list of (state, return value) for every path (returns, fall-through and stopped paths)"""
        st = St()
        params = [a.arg for a in fn.args.args]
        for i, p in enumerate(params):
            st.env[p] = U('self') if i == 0 else U(p)
        for k, v in (args or {}).items():
            st.env[k] = v
        st.attrs.update(presets or {})
        st.assume.update(assume or {})
        self._owner_stack = [owner]
        o = self.block(fn.body, [st], owner, 0)
        res = [(s, v) for s, v in o.returns] + [(s, None) for s in o.normal] + [(s, StopPath) for s in o.stopped]
        return res

    # ----------------------------------------------------------------------------------------------------------- events
    def emit(self, st, ev):
        st.events = st.events + (ev,)
        if self.on_event is not None:
            self.on_event(st, ev)

    # ----------------------------------------------------------------------------------------------------------- blocks
    def block(self, stmts, states, owner, depth):
        o = Out()
        cur = list(states)
        for s in stmts:
            if not cur:
                break
            nxt = []
            for st in cur:
                try:
                    r = self.stmt(s, st, owner, depth)
                except StopPath:
                    o.stopped.append(st)
                    continue
                o.absorb(r)
                nxt += r.normal
            cur = _dedupe(nxt, self.max_states)
        o.normal = cur
        return o

    def stmt(self, s, st, owner, depth):
        o = Out()
        if isinstance(s, ast.Expr):
            if isinstance(s.value, ast.Call):
                for st2, v in self.call_stmt(s.value, st, owner, depth):
                    o.normal.append(st2)
            else:
                self.ev(s.value, st)
                o.normal.append(st)
        elif isinstance(s, (ast.Assign, ast.AnnAssign)):
            value = s.value
            targets = s.targets if isinstance(s, ast.Assign) else [s.target]
            if value is None:
                o.normal.append(st)
            elif isinstance(value, ast.IfExp):
                for st2, b in self.branch(value.test, st):
                    v = self.ev(value.body if b else value.orelse, st2)
                    for t in targets:
                        self.assign(t, v, st2)
                    o.normal.append(st2)
            elif isinstance(value, ast.Call):
                for st2, v in self.call_stmt(value, st, owner, depth):
                    for t in targets:
                        self.assign(t, v, st2)
                    o.normal.append(st2)
            else:
                v = self.ev(value, st)
                if isinstance(v, U) and v.path.startswith('?') and isinstance(value, (ast.BoolOp, ast.Compare)) or \
                        (isinstance(v, U) and v.path.startswith('?') and isinstance(value, ast.UnaryOp) and isinstance(value.op, ast.Not)):
                    # a flag computed from unknown conditions: keep its truth tied to the assumptions about the conditions
                    for st2, b in self.branch(value, st):
                        st2.assume[v.path] = b
                        st2.assume[v.path + ' is None'] = False
                        for t in targets:
                            self.assign(t, v, st2)
                        o.normal.append(st2)
                else:
                    for t in targets:
                        self.assign(t, v, st)
                    o.normal.append(st)
        elif isinstance(s, ast.AugAssign):
            cur = self.ev(ast.copy_location(_load(s.target), s.target), st)
            v = self.binop(s.op, cur, self.ev(s.value, st), s)
            self.assign(s.target, v, st)
            o.normal.append(st)
        elif isinstance(s, ast.If):
            for st2, b in self.branch(s.test, st):
                r = self.block(s.body if b else s.orelse, [st2], owner, depth)
                o.absorb(r)
                o.normal += r.normal
        elif isinstance(s, ast.Return):
            if s.value is not None and isinstance(s.value, ast.Call):
                for st2, v in self.call_stmt(s.value, st, owner, depth):
                    o.returns.append((st2, v))
            elif s.value is not None and isinstance(s.value, ast.IfExp):
                for st2, b in self.branch(s.value.test, st):
                    o.returns.append((st2, self.ev(s.value.body if b else s.value.orelse, st2)))
            else:
                o.returns.append((st, self.ev(s.value, st) if s.value is not None else None))
        elif isinstance(s, ast.Raise):
            pass
        elif isinstance(s, ast.Assert):
            for st2, b in self.branch(s.test, st):
                if b:
                    o.normal.append(st2)
        elif isinstance(s, (ast.Pass, ast.Global, ast.Nonlocal, ast.Delete)):
            o.normal.append(st)
        elif isinstance(s, (ast.Import, ast.ImportFrom)):
            for a in s.names:
                nm = a.asname or a.name.split('.')[0]
                st.env[nm] = U(nm)
            o.normal.append(st)
        elif isinstance(s, (ast.FunctionDef, ast.ClassDef)):
            st.env[s.name] = U('<local %s>' % s.name)
            o.normal.append(st)
        elif isinstance(s, ast.With):
            for it in s.items:
                v = self.ev(it.context_expr, st)
                if it.optional_vars is not None:
                    self.assign(it.optional_vars, U('with:' + show(v)), st)
            r = self.block(s.body, [st], owner, depth)
            o.absorb(r)
            o.normal += r.normal
        elif isinstance(s, ast.Try):
            r = self.block(s.body, [st], owner, depth)
            if s.orelse:
                r2 = self.block(s.orelse, r.normal, owner, depth)
                r.absorb(r2)
                r.normal = r2.normal
            if s.finalbody:
                fin = Out()
                f = self.block(s.finalbody, r.normal, owner, depth)
                fin.absorb(f)
                fin.normal = f.normal
                for st2, v in r.returns:
                    f = self.block(s.finalbody, [st2], owner, depth)
                    fin.absorb(f)
                    fin.returns += [(x, v) for x in f.normal]
                fin.breaks, fin.continues, fin.stopped = fin.breaks + r.breaks, fin.continues + r.continues, fin.stopped + r.stopped
                r = fin
            o.absorb(r)
            o.normal += r.normal
        elif isinstance(s, ast.For):
            self.loop(s, st, owner, depth, o)
        elif isinstance(s, ast.Break):
            o.breaks.append(st)
        elif isinstance(s, ast.Continue):
            o.continues.append(st)
        else:
            raise Unmodelled('statement %s (line %d)' % (type(s).__name__, s.lineno))
        return o

    def loop(self, s, st, owner, depth, o):
        seq = self.ev(s.iter, st)
        if isinstance(seq, tuple):
            cur = [st]
            done = []
            for item in seq:
                nxt = []
                for c in cur:
                    self.assign(s.target, item, c)
                    r = self.block(s.body, [c], owner, depth)
                    o.returns += r.returns
                    o.stopped += r.stopped
                    done += r.breaks
                    nxt += r.normal + r.continues
                cur = _dedupe(nxt)
            if s.orelse:
                r = self.block(s.orelse, cur, owner, depth)
                o.absorb(r)
                cur = r.normal
            o.normal += cur + done
            return
        if self.unknown_loops != '01':
            raise Unmodelled('loop over an unknown sequence %s (line %d)' % (show(seq), s.lineno))
        # zero or one iteration: sound for "is this event ever emitted" questions only; the state is marked approximate
        skip = st.copy()
        skip.approx = True
        once = st.copy()
        once.approx = True
        self.assign(s.target, U('item:' + show(seq)), once)
        r = self.block(s.body, [once], owner, depth)
        o.returns += r.returns
        o.stopped += r.stopped
        cur = [skip] + r.normal + r.continues
        if s.orelse:
            r2 = self.block(s.orelse, cur, owner, depth)
            o.absorb(r2)
            cur = r2.normal
        o.normal += cur + r.breaks

    # ----------------------------------------------------------------------------------------------------------- assignment
    def kill(self, st, path):
        for d in (st.assume, st.eqs):
            for k in [k for k in d if k == path or k.startswith(path + '.') or k.startswith(path + ' ') or k.startswith(path + '[')]:
                del d[k]
        for k in [k for k in st.attrs if k.startswith(path + '.')]:
            del st.attrs[k]

    def assign(self, t, v, st):
        if isinstance(v, list):
            v = tuple(v)
        if isinstance(t, ast.Name):
            st.env[t.id] = v
        elif isinstance(t, (ast.Tuple, ast.List)):
            if isinstance(v, tuple) and len(v) == len(t.elts) and not any(isinstance(e, ast.Starred) for e in t.elts):
                for e, x in zip(t.elts, v):
                    self.assign(e, x, st)
            elif isinstance(v, U):
                for i, e in enumerate(t.elts):
                    self.assign(e, U('%s[%d]' % (v.path, i)), st)
            else:
                raise Unmodelled('unpacking of %s (line %d)' % (show(v), t.lineno))
        elif isinstance(t, ast.Attribute):
            base = self.ev(t.value, st)
            if isinstance(base, U):
                p = '%s.%s' % (base.path, t.attr)
            elif isinstance(base, New):
                p = '%s.%s' % (base.ident, t.attr)
            else:
                raise Unmodelled('attribute store on %s (line %d)' % (show(base), t.lineno))
            self.kill(st, p)
            st.written = st.written | {p}
            if isinstance(v, U) and v.path.startswith('?'):
                for suffix in ('', ' is None'):
                    if v.path + suffix in st.assume:
                        st.assume[p + suffix] = st.assume[v.path + suffix]
                v = U(p)              # an anonymous unknown stored in an attribute is from now on "the value of that attribute"
            st.attrs[p] = v
        elif isinstance(t, ast.Subscript):
            base = self.ev(t.value, st)
            if isinstance(base, U):
                self.kill(st, base.path)
            else:
                raise Unmodelled('item store on %s (line %d)' % (show(base), t.lineno))
        else:
            raise Unmodelled('assignment target %s' % type(t).__name__)

    # ----------------------------------------------------------------------------------------------------------- tests
    def truth(self, v, st):
        if isinstance(v, U):
            return st.assume.get(v.path)
        if isinstance(v, New):
            return True
        if isinstance(v, Tab):
            return bool(v.d)
        if isinstance(v, str) and ML in v:
            return True
        return bool(v)

    def fork(self, st, key):
        cur = st.assume.get(key)
        if cur is not None:
            return [(st, cur)]
        out = []
        for b in (True, False):
            s2 = st.copy()
            s2.assume[key] = b
            if b and key.endswith(' is None'):
                base = key[:-len(' is None')]
                if s2.assume.get(base) is True:
                    continue
                s2.assume[base] = False
            if b and not key.endswith(' is None') and s2.assume.get(key + ' is None') is True:
                continue
            if b and not key.endswith(' is None'):
                s2.assume[key + ' is None'] = False
            base = key[:-len(' is None')] if key.endswith(' is None') else key
            if not s2.is_written(base):
                for k in (base, base + ' is None'):
                    if k in s2.assume:
                        s2.entry[k] = s2.assume[k]
            out.append((s2, b))
        return out

    def eq_branch(self, st, path, c):
        cur = st.eqs.get(path)
        if cur is not None:
            if cur[0] == 'is':
                return [(st, cur[1] == c)]
            if c in cur[1]:
                return [(st, False)]
        t, f = st.copy(), st.copy()
        t.eqs[path] = ('is', c)
        f.eqs[path] = ('not', (cur[1] if cur else frozenset()) | {c})
        return [(t, True), (f, False)]

    def branch(self, e, st):
        """-> [(state, bool)]"""
        if isinstance(e, ast.UnaryOp) and isinstance(e.op, ast.Not):
            return [(s, not b) for s, b in self.branch(e.operand, st)]
        if isinstance(e, ast.BoolOp):
            is_and = isinstance(e.op, ast.And)
            res, pending = [], [st]
            for v in e.values:
                nxt = []
                for s in pending:
                    for s2, b in self.branch(v, s):
                        if b == is_and:
                            nxt.append(s2)
                        else:
                            res.append((s2, b))
                pending = nxt
            return res + [(s, is_and) for s in pending]
        if isinstance(e, ast.Compare) and len(e.ops) == 1:
            op = e.ops[0]
            L, R = self.ev(e.left, st), self.ev(e.comparators[0], st)
            neg = isinstance(op, (ast.IsNot, ast.NotEq, ast.NotIn))
            if isinstance(op, (ast.Is, ast.IsNot)) and R is None and isinstance(L, (U, New)):
                if isinstance(L, New):
                    return [(st, neg)]
                return [(s, b != neg) for s, b in self.fork(st, L.path + ' is None')]
            if isinstance(op, (ast.Is, ast.IsNot)) and L is None and isinstance(R, U):
                return [(s, b != neg) for s, b in self.fork(st, R.path + ' is None')]
            if concrete(L) and concrete(R) and not isinstance(L, Tab) and not isinstance(R, Tab):
                try:
                    v = {ast.Eq: lambda: L == R, ast.NotEq: lambda: L != R, ast.Is: lambda: L is R or L == R, ast.IsNot: lambda: not (L is R or L == R),
                         ast.In: lambda: L in R, ast.NotIn: lambda: L not in R, ast.Lt: lambda: L < R, ast.LtE: lambda: L <= R,
                         ast.Gt: lambda: L > R, ast.GtE: lambda: L >= R}[type(op)]()
                except TypeError:
                    raise Unmodelled('comparison %s' % node_src(e))
                return [(st, bool(v))]
            if isinstance(op, (ast.Eq, ast.NotEq, ast.Is, ast.IsNot)):
                if isinstance(L, U) and concrete(R) and _scalar(R):
                    return [(s, b != neg) for s, b in self.eq_branch(st, L.path, R)]
                if isinstance(R, U) and concrete(L) and _scalar(L):
                    return [(s, b != neg) for s, b in self.eq_branch(st, R.path, L)]
            if isinstance(op, (ast.In, ast.NotIn)) and isinstance(L, U) and isinstance(R, tuple) and concrete(R) and all(_scalar(x) for x in R):
                res, pending = [], [st]
                for c in R:
                    nxt = []
                    for s in pending:
                        for s2, b in self.eq_branch(s, L.path, c):
                            (res if b else nxt).append(s2 if not b else (s2, not neg))
                    pending = nxt
                return res + [(s, neg) for s in pending]
            key = '%s %s %s' % (show(L), type(op).__name__, show(R))
            return self.fork(st, key)
        v = self.ev(e, st)
        t = self.truth(v, st)
        if t is not None:
            return [(st, t)]
        if isinstance(v, U):
            return self.fork(st, v.path)
        raise Unmodelled('test %s' % node_src(e))

    # ----------------------------------------------------------------------------------------------------------- expressions
    def ev(self, e, st):
        m = getattr(self, 'ev_' + type(e).__name__, None)
        if m is None:
            return U('?%s@%d' % (type(e).__name__, getattr(e, 'lineno', 0)))
        return m(e, st)

    def ev_Constant(self, e, st):
        return e.value

    def ev_Name(self, e, st):
        if e.id in st.env:
            return st.env[e.id]
        if e.id in ('True', 'False', 'None'):
            return {'True': True, 'False': False, 'None': None}[e.id]
        return U(e.id)

    def ev_Tuple(self, e, st):
        return tuple(self.ev(x, st) for x in e.elts)

    ev_List = ev_Tuple

    def ev_Dict(self, e, st):
        d = {}
        for k, v in zip(e.keys, e.values):
            if k is None:
                return U('?dict@%d' % e.lineno)
            kk = self.ev(k, st)
            if not concrete(kk):
                return U('?dict@%d' % e.lineno)
            d[kk] = self.ev(v, st)
        return Tab(d)

    def class_table(self, name):
        """literal dict/tuple/list class attribute along the MRO of the analysed class that no method overwrites through self"""
        a = self.ix.find_class_attr(self.cls, name)
        if a is None:
            return None
        for k in self.ix.mro(self.cls):
            if name in k.self_attrs:
                return None
        try:
            v = ast.literal_eval(a[1])
        except Exception:
            return None
        if isinstance(v, dict):
            return Tab({k: (tuple(x) if isinstance(x, list) else x) for k, x in v.items()})
        if isinstance(v, (tuple, list)):
            return tuple(v)
        return None

    def ev_Attribute(self, e, st):
        base = self.ev(e.value, st)
        if isinstance(base, U):
            p = '%s.%s' % (base.path, e.attr)
            if p in st.attrs:
                return st.attrs[p]
            if base.path == 'self':
                t = self.class_table(e.attr)
                if t is not None:
                    return t
            return U(p)
        if isinstance(base, New):
            p = '%s.%s' % (base.ident, e.attr)
            if p in st.attrs:
                return st.attrs[p]
            for k, v in base.kwargs:
                if k == e.attr:
                    return v
            return U(p)
        return U('?attr@%d' % e.lineno)

    def ev_Subscript(self, e, st):
        base = self.ev(e.value, st)
        if isinstance(e.slice, ast.Slice):
            lo = self.ev(e.slice.lower, st) if e.slice.lower is not None else None
            hi = self.ev(e.slice.upper, st) if e.slice.upper is not None else None
            stp = self.ev(e.slice.step, st) if e.slice.step is not None else None
            if isinstance(base, (tuple, str)) and concrete(base) and all(x is None or isinstance(x, int) for x in (lo, hi, stp)):
                return base[lo:hi:stp]
            return U('%s[%s:%s:%s]' % (show(base), show(lo), show(hi), show(stp)))
        idx = self.ev(e.slice, st)
        if isinstance(base, Tab):
            if concrete(idx):
                if idx in base.d:
                    return base.d[idx]
                raise Unmodelled('key %r missing in table (line %d)' % (idx, e.lineno))
            return U('%s[%s]' % (show(base), show(idx)))
        if isinstance(base, (tuple, str)) and isinstance(idx, int) and (not isinstance(base, str) or ML not in base):
            try:
                return base[idx]
            except IndexError:
                raise Unmodelled('index out of range (line %d)' % e.lineno)
        if isinstance(base, U):
            if base.path.endswith('directives') and isinstance(idx, str):
                return U('directive[%r]' % idx)
            return U('%s[%s]' % (base.path, show(idx)))
        return U('?sub@%d' % e.lineno)

    def ev_UnaryOp(self, e, st):
        v = self.ev(e.operand, st)
        if isinstance(e.op, ast.Not):
            t = self.truth(v, st)
            return U('?not@%d' % e.lineno) if t is None else (not t)
        if isinstance(e.op, ast.USub) and isinstance(v, (int, float)):
            return -v
        return U('?unary@%d' % e.lineno)

    def ev_BoolOp(self, e, st):
        is_and = isinstance(e.op, ast.And)
        last = None
        for x in e.values:
            last = self.ev(x, st)
            t = self.truth(last, st)
            if t is None:
                return U('?bool@%d' % e.lineno)
            if t != is_and:
                return last
        return last

    def ev_Compare(self, e, st):
        if len(e.ops) == 1:
            L, R = self.ev(e.left, st), self.ev(e.comparators[0], st)
            if concrete(L) and concrete(R) and not isinstance(L, Tab) and not isinstance(R, Tab):
                r = self.branch(e, st.copy())
                if len(r) == 1:
                    return r[0][1]
        return U('?cmp@%d' % e.lineno)

    def ev_IfExp(self, e, st):
        t = self.truth(self.ev(e.test, st), st)
        if t is None:
            a, b = self.ev(e.body, st), self.ev(e.orelse, st)
            return a if a == b else U('?ifexp@%d' % e.lineno)
        return self.ev(e.body if t else e.orelse, st)

    def ev_JoinedStr(self, e, st):
        out = ''
        for part in e.values:
            if isinstance(part, ast.Constant):
                out += str(part.value)
            else:
                v = self.ev(part.value, st)
                p = paste(v)
                if p is not None:
                    out += p
                    continue
                spec = ''
                if part.format_spec is not None:
                    spec = self.ev(part.format_spec, st)
                    if not isinstance(spec, str) or ML in spec:
                        raise Unmodelled('format spec (line %d)' % e.lineno)
                if isinstance(v, str) and ML in v:
                    out += v
                elif concrete(v):
                    if part.conversion == ord('r'):
                        v = repr(v)
                    elif part.conversion == ord('s'):
                        v = str(v)
                    out += format(v, spec)
                else:
                    raise Unmodelled('f-string value %s' % show(v))
        return out

    def fmt(self, tmpl, args, e):
        pos = [0]
        seq = args if isinstance(args, tuple) else None
        single = args if seq is None else None

        def sub(m):
            if m.group(2).endswith('%'):
                return '%'
            if m.group(1) is not None:
                if not isinstance(args, Tab) or m.group(1) not in args.d:
                    raise Unmodelled('%%(name)s formatting without a literal dict (line %d)' % e.lineno)
                v = args.d[m.group(1)]
            elif seq is not None:
                if pos[0] >= len(seq):
                    raise Unmodelled('not enough format arguments (line %d)' % e.lineno)
                v = seq[pos[0]]
                pos[0] += 1
            else:
                if pos[0] > 0:
                    raise Unmodelled('not enough format arguments (line %d)' % e.lineno)
                v = single
                pos[0] += 1
            p = paste(v)
            if p is not None:
                return p
            if isinstance(v, str) and ML in v:
                return v
            try:
                return ('%' + m.group(2)) % (v,)
            except (TypeError, ValueError):
                raise Unmodelled('format %%%s of %s (line %d)' % (m.group(2), show(v), e.lineno))
        return FMT.sub(sub, tmpl)

    def binop(self, op, a, b, e):
        if isinstance(op, ast.Mod) and isinstance(a, str):
            return self.fmt(a, b, e)
        if isinstance(op, ast.Add):
            if isinstance(a, str) and isinstance(b, str):
                return a + b
            if isinstance(a, str) and paste(b) is not None:
                return a + paste(b)
            if isinstance(b, str) and paste(a) is not None:
                return paste(a) + b
            if isinstance(a, tuple) and isinstance(b, tuple):
                return a + b
        if isinstance(a, (int, float)) and isinstance(b, (int, float)) and not isinstance(a, bool) and not isinstance(b, bool):
            try:
                return {ast.Add: lambda: a + b, ast.Sub: lambda: a - b, ast.Mult: lambda: a * b, ast.FloorDiv: lambda: a // b, ast.Mod: lambda: a % b}[type(op)]()
            except (KeyError, ZeroDivisionError):
                pass
        if isinstance(op, ast.Mult) and isinstance(a, str) and isinstance(b, int):
            return a * b
        return U('?binop@%d' % getattr(e, 'lineno', 0))

    def ev_BinOp(self, e, st):
        return self.binop(e.op, self.ev(e.left, st), self.ev(e.right, st), e)

    def ev_Lambda(self, e, st):
        return U('<lambda@%d>' % e.lineno)

    def ev_Starred(self, e, st):
        return U('?star@%d' % e.lineno)

    # ----------------------------------------------------------------------------------------------------------- calls
    def ev_Call(self, e, st):
        """non-inlining evaluation of a call: value + event"""
        f = e.func
        args = [self.ev(a, st) for a in e.args]
        kwargs = {k.arg: self.ev(k.value, st) for k in e.keywords if k.arg is not None}
        if isinstance(f, ast.Attribute):
            recv = self.ev(f.value, st)
            name = f.attr
            if isinstance(recv, str):
                if name in STR_METHODS and ML not in recv and all(concrete(a) for a in args) and not kwargs:
                    try:
                        return getattr(recv, name)(*[list(a) if isinstance(a, tuple) and name == 'join' else a for a in args])
                    except Exception:
                        raise Unmodelled('str.%s (line %d)' % (name, e.lineno))
                if name == 'format' and not kwargs:
                    # only positional {} fields
                    parts = re.split(r'\{(\d*)\}', recv)
                    if '{' in ''.join(parts[0::2]) or '}' in ''.join(parts[0::2]):
                        raise Unmodelled('str.format template (line %d)' % e.lineno)
                    out, auto = parts[0], 0
                    for i in range(1, len(parts), 2):
                        idx = int(parts[i]) if parts[i] else auto
                        auto += 1
                        if idx >= len(args):
                            raise Unmodelled('str.format arguments (line %d)' % e.lineno)
                        v = args[idx]
                        out += (paste(v) or (v if isinstance(v, str) else str(v))) + parts[i + 1]
                    return out
                if name == 'join' and len(args) == 1 and isinstance(args[0], tuple):
                    return recv.join(paste(x) or str(x) for x in args[0])
                return U('?strcall@%d' % e.lineno)
            if isinstance(recv, Tab):
                if name == 'get' and args and concrete(args[0]):
                    return recv.d.get(args[0], args[1] if len(args) > 1 else None)
                return U('?tabcall@%d' % e.lineno)
            if isinstance(recv, tuple):
                if name in ('append', 'extend', 'insert', 'pop', 'remove', 'reverse', 'sort'):
                    raise Unmodelled('mutation of a tracked list (line %d)' % e.lineno)
                return U('?tuplecall@%d' % e.lineno)
            if isinstance(recv, (U, New)):
                rp = recv.path if isinstance(recv, U) else recv.ident
                root = rp.split('.')[0].split('(')[0]
                text = '%s.%s(%s)' % (rp, name, ', '.join([show(a) for a in args] + ['%s=%s' % (k, show(v)) for k, v in sorted(kwargs.items())]))
                if root in self.code_names:
                    self.emit(st, ('code', rp[len(root):].lstrip('.'), name, tuple(args), tuple(sorted(kwargs.items()))))
                    return U(text)
                if isinstance(recv, U) and name[:1].isupper() and name.endswith('Node') or (isinstance(recv, U) and name[:1].isupper() and rp in ('ExprNodes', 'Nodes', 'UtilNodes')):
                    return New(name, args, kwargs, e.lineno)
                if EVENT_METHODS.match(name):
                    self.emit(st, ('call', recv, name, tuple(args), tuple(sorted(kwargs.items()))))
                return U(text)
            return U('?call@%d' % e.lineno)
        if isinstance(f, ast.Name):
            name = f.id
            if name in st.env and not isinstance(st.env[name], U):
                return U('?call@%d' % e.lineno)
            if name == 'len' and len(args) == 1 and isinstance(args[0], (tuple, str)) and concrete(args[0]):
                return len(args[0])
            if name in ('bool',) and len(args) == 1:
                t = self.truth(args[0], st)
                return U('bool(%s)' % show(args[0])) if t is None else t
            if name in ('str', 'int') and len(args) == 1 and concrete(args[0]) and isinstance(args[0], (str, int)):
                return {'str': str, 'int': int}[name](args[0])
            if name == 'getattr' and len(args) >= 2 and isinstance(args[1], str) and isinstance(args[0], U):
                p = '%s.%s' % (args[0].path, args[1])
                return st.attrs.get(p, U(p))
            if name[:1].isupper() and name.endswith('Node'):
                return New(name, args, kwargs, e.lineno)
            text = '%s(%s)' % (name, ', '.join([show(a) for a in args] + ['%s=%s' % (k, show(v)) for k, v in sorted(kwargs.items())]))
            return U(text)
        return U('?call@%d' % e.lineno)

    def resolve_inline(self, call, st, owner):
        """self.m(...) / Base.m(self, ...) / super().m(...)  ->  (owner class, FunctionDef, positional args exprs) or None"""
        f = call.func
        if not isinstance(f, ast.Attribute):
            return None
        v = f.value
        if isinstance(v, ast.Name) and isinstance(st.env.get(v.id), U) and st.env[v.id].path == 'self':
            r = self.ix.find_method(self.cls, f.attr)
            return (r[0], r[1], list(call.args)) if r else None
        if isinstance(v, ast.Call) and isinstance(v.func, ast.Name) and v.func.id == 'super' and not v.args:
            mro = self.ix.mro(self.cls)
            if owner in mro:
                for k in mro[mro.index(owner) + 1:]:
                    if f.attr in k.methods:
                        return (k, k.methods[f.attr], list(call.args))
            return None
        if isinstance(v, ast.Name) and v.id not in st.env and call.args and isinstance(call.args[0], ast.Name) \
                and isinstance(st.env.get(call.args[0].id), U) and st.env[call.args[0].id].path == 'self':
            for k in self.ix.mro(self.cls):
                if k.name == v.id:
                    r = self.ix.find_method(k, f.attr)
                    return (r[0], r[1], list(call.args[1:])) if r else None
        return None

    def call_stmt(self, call, st, owner, depth):
        """statement-level call: inlined when it is a method of the analysed object -> [(state, value)]"""
        tgt = self.resolve_inline(call, st, owner)
        if tgt is None or depth >= self.max_depth or not self.inline(tgt[0], tgt[1].name):
            return [(st, self.ev_Call(call, st))]
        k, fn, argexprs = tgt
        if fn.args.vararg or fn.args.kwarg or any(isinstance(a, ast.Starred) for a in argexprs) or any(kw.arg is None for kw in call.keywords):
            return [(st, self.ev_Call(call, st))]
        params = [a.arg for a in fn.args.args]
        vals = [self.ev(a, st) for a in argexprs]
        kw = {x.arg: self.ev(x.value, st) for x in call.keywords}
        new_env = {params[0]: U('self')} if params else {}
        defaults = fn.args.defaults
        dstart = len(params) - len(defaults)
        for i, p in enumerate(params[1:], 1):
            if i - 1 < len(vals):
                new_env[p] = vals[i - 1]
            elif p in kw:
                new_env[p] = kw[p]
            elif i >= dstart:
                d = defaults[i - dstart]
                new_env[p] = d.value if isinstance(d, ast.Constant) else U('default:' + p)
            else:
                raise Unmodelled('call of %s misses argument %s (line %d)' % (fn.name, p, call.lineno))
        saved = tuple(sorted(st.env.items(), key=lambda kv: kv[0]))
        st.frames = st.frames + (saved,)
        st.env = new_env
        o = self.block(fn.body, [st], k, depth + 1)
        if o.breaks or o.continues:
            raise Unmodelled('break/continue escaping %s' % fn.name)
        res = []
        for s2, v in [(s, None) for s in o.normal] + o.returns:
            s2.env = dict(s2.frames[-1])
            s2.frames = s2.frames[:-1]
            res.append((s2, v))
        if o.stopped:
            raise StopPath()
        return res


def _load(t):
    t2 = ast.parse(ast.unparse(t), mode='eval').body
    return t2


def _scalar(v):
    return v is None or isinstance(v, (str, int, float, bool))


# ================================================================================================================ linear forms over emitted C
def linear(text, names):
    """C expression text -> {symbol or 1: coefficient}; AnalysisError when it is not linear"""
    try:
        t = cexpr.parse(text)
    except cexpr.ParseError as e:
        raise Unmodelled('cannot parse emitted expression %r: %s' % (text, e))

    def lin(n):
        if n[0] == 'num':
            return {1: n[1]}
        if n[0] == 'id':
            return {n[1]: 1}
        if n[0] == 'un' and n[1] in ('-', '+'):
            x = lin(n[2])
            return x if n[1] == '+' else {k: -v for k, v in x.items()}
        if n[0] == 'bin' and n[1] in ('+', '-'):
            a, b = lin(n[2]), lin(n[3])
            out = dict(a)
            for k, v in b.items():
                out[k] = out.get(k, 0) + (v if n[1] == '+' else -v)
            return out
        if n[0] == 'bin' and n[1] == '*':
            a, b = lin(n[2]), lin(n[3])
            for x, y in ((a, b), (b, a)):
                if set(x) <= {1}:
                    c = x.get(1, 0)
                    return {k: c * v for k, v in y.items()}
        if n[0] == 'cast':
            return lin(n[2])
        raise Unmodelled('emitted expression %r is not linear' % text)
    return {k: v for k, v in lin(t).items() if v != 0}


def lin_add(a, b, sign=1):
    out = dict(a)
    for k, v in b.items():
        out[k] = out.get(k, 0) + sign * v
    return {k: v for k, v in out.items() if v != 0}


def lin_show(a):
    if not a:
        return '0'
    parts = []
    for k in sorted(a, key=lambda k: (k == 1, str(k))):
        v = a[k]
        if k == 1:
            parts.append('%+d' % v)
        else:
            parts.append(('+' if v > 0 else '-') + ('' if abs(v) == 1 else '%d*' % abs(v)) + str(k))
    s = ' '.join(parts)
    return s[1:] if s.startswith('+') else s


def nonneg(a, at_least_one=()):
    """is the linear form >= 0 for all values >= 0 of its symbols (symbols in at_least_one are >= 1)?"""
    c0 = a.get(1, 0)
    for k, v in a.items():
        if k == 1:
            continue
        if v < 0:
            return False
        if k in at_least_one:
            c0 += v
    return c0 >= 0


HEADER = re.compile(r'^\s*for\s*\((?P<init>[^;]*);(?P<cond>[^;]*);(?P<incr>[^;{]*)\)\s*\{(?P<rest>.*)$', re.S)
STEP_OP = re.compile(r'^\s*(?P<v>\w+)\s*(?:(?P<pp>\+\+|--)|(?P<op>[-+])=\s*(?P<d>.+?))\s*$')


def parse_for_header(text, roles):
    """text of the emitted `for (...) {` line with markers -> dict(counter, init, rel, bound, incr, prefix) as linear forms over role names.
    roles: function(marker path) -> role name or None (None: stays an opaque symbol)"""
    names = {}

    def sub(m):
        p = m.group(1)
        r = roles(p)
        if r is None:
            r = names.setdefault(p, 'sym%d' % len(names) if names else 'i')
        return ' ' + r + ' '
    flat = MARK.sub(sub, text)
    m = HEADER.match(flat)
    if not m:
        raise Unmodelled('emitted loop header %r is not of the form for (init; cond; incr) {' % flat.strip())
    im = re.match(r'^\s*(\w+)\s*=(?!=)(.*)$', m.group('init'), re.S)
    if not im:
        raise Unmodelled('loop initialisation %r' % m.group('init'))
    v = im.group(1)
    cm = re.match(r'^\s*(\w+)\s*(<=|>=|<|>)(.*)$', m.group('cond'), re.S)
    if not cm or cm.group(1) != v:
        raise Unmodelled('loop condition %r does not test the counter %s' % (m.group('cond'), v))

    def delta(s):
        s = s.strip().rstrip(';').strip()
        if not s:
            return {}
        sm = STEP_OP.match(s)
        if not sm or sm.group('v') != v:
            raise Unmodelled('loop increment %r does not step the counter %s' % (s, v))
        if sm.group('pp'):
            return {1: 1 if sm.group('pp') == '++' else -1}
        d = linear(sm.group('d'), None)
        return d if sm.group('op') == '+' else {k: -x for k, x in d.items()}
    rest = m.group('rest').strip()
    prefix = {}
    if rest:
        if rest.count(';') != 1 or not rest.endswith(';'):
            raise Unmodelled('statements after the loop header: %r' % rest)
        prefix = delta(rest)
    return dict(counter=v, init=linear(im.group(2), None), rel=cm.group(2), bound=linear(cm.group(3), None), incr=delta(m.group('incr')), prefix=prefix, flat=flat.strip())


# ================================================================================================================ C14-HDR
def _roles(path):
    for pre, r in (('self.bound1.', 'B1'), ('self.bound2.', 'B2'), ('self.step.', 'S')):
        if path.startswith(pre):
            return r
    return None


def header_problems(h, r1, r2, off_text, has_step, unsigned):
    """h: parsed header.  -> [(code, text)]"""
    probs = []
    S = {'S': 1} if has_step else {1: 1}
    down = r1.startswith('>')
    want_stride = {k: -v for k, v in S.items()} if down else S
    off = linear(off_text, None) if off_text.strip() else {}
    first = lin_add(h['init'], h['prefix'])
    want_first = lin_add({'B1': 1}, off)
    if first != want_first:
        probs.append(('first', 'the first value the body sees is %s, expected bound1%s = %s' % (lin_show(first), off_text, lin_show(want_first))))
    stride = lin_add(h['incr'], h['prefix'])
    if stride != want_stride:
        probs.append(('stride', 'the counter moves by %s per iteration, expected %s' % (lin_show(stride), lin_show(want_stride))))
    # the test `V rel X` is made on the counter before the prefix statement: in terms of the value the body sees it is `value rel X + prefix`
    vis_bound = lin_add(h['bound'], h['prefix'])
    if h['rel'] != r2 or vis_bound != {'B2': 1}:
        probs.append(('test', 'the loop continues while value %s %s, expected value %s bound2' % (h['rel'], lin_show(vis_bound), r2)))
    if unsigned and down:
        k = {kk: -v for kk, v in want_stride.items()}            # size of one downward step (positive)
        for where, d, before in (('prefix', h['prefix'], {}), ('incr', h['incr'], h['prefix'])):
            if not d or all(v >= 0 for v in d.values()):
                continue
            # value of the counter when the decrement executes >= X (+1 if strict) + what was added since the test
            if h['rel'] not in ('>', '>='):
                probs.append(('wrap', 'the counter is decremented without a lower-bound test'))
                continue
            lb = lin_add(lin_add(h['bound'], {1: 1} if h['rel'] == '>' else {}), before)
            lb = lin_add(lb, lin_add({}, d, -1), -1)             # lb - |d|
            if not nonneg(lb, at_least_one=('S',)):
                probs.append(('wrap', 'an unsigned counter is decremented by %s where only counter >= %s is known: for bound2 = 0 %s the subtraction wraps around to a huge '
                                      'value and the loop does not stop' % (lin_show(k), lin_show(lin_add(lb, lin_add({}, d, -1))),
                                                                            '(every counter value passes `>= 0`)' if h['rel'] == '>=' else 'and a step > 1')))
    return probs


def forfrom_headers(ix, forfrom, r1, r2, has_step):
    """every (assumptions, header text) the method can emit for this relation pair"""
    fn = forfrom.methods.get('generate_execution_code')
    if fn is None:
        raise AnalysisError('ForFromStatNode.generate_execution_code vanished')
    found = []

    def on_event(st, ev):
        if ev[0] == 'code' and ev[2] in ('putln', 'put') and ev[3] and isinstance(ev[3][0], str) and re.match(r'\s*for\s*\(', MARK.sub('x', ev[3][0])):
            found.append((dict(st.assume), dict(st.eqs), ev[3][0], dict(st.attrs), dict(st.env)))
            raise StopPath()
    emu = Emu(ix, forfrom, on_event=on_event)
    presets = {'self.relation1': r1, 'self.relation2': r2}
    assume = {}
    if has_step:
        assume['self.step'] = True
        assume['self.step is None'] = False
    else:
        presets['self.step'] = None
    emu.run(forfrom, fn, presets=presets, assume=assume)
    return found


def type_flags(assume, tpath):
    return {k[len(tpath) + 1:]: v for k, v in assume.items() if k.startswith(tpath + '.') and ' ' not in k}


def rule_header(ctx, floor=28):
    ix = ctx.index
    r = Rule('C14-HDR', 'the C for-header ForFromStatNode emits, for every relation pair, with/without step, signed/unsigned counter: the body sees bound1+offset first, '
             'moves one step per iteration in the direction of the relations, continues while `value relation2 bound2`; an unsigned counter is never decremented below zero', floor)
    forfrom = ix.cls('Nodes', 'ForFromStatNode')
    fn = forfrom.methods.get('generate_execution_code')
    a = forfrom.attrs.get('relation_table')
    try:
        table = ast.literal_eval(a) if a is not None else None
    except Exception:
        table = None
    if not isinstance(table, dict) or len(table) < 4:
        raise AnalysisError('ForFromStatNode.relation_table is not a literal dict any more')
    # signedness model: CIntType.signed indexes sign_words = ("unsigned ", "", "signed ") -> 0 is unsigned
    num = ix.cls('PyrexTypes', 'CNumericType')
    sw = ix.find_class_attr(num, 'sign_words')
    try:
        words = ast.literal_eval(sw[1]) if sw else None
    except Exception:
        words = None
    if not (isinstance(words, tuple) and words and 'unsigned' in words[0] and all('unsigned' not in w for w in words[1:])):
        raise AnalysisError('PyrexTypes.CNumericType.sign_words no longer maps signed == 0 to "unsigned"')
    rels = sorted(table)
    reported = set()
    for r1 in rels:
        for r2 in rels:
            if r1[0] != r2[0]:
                continue            # Parsing.p_for_from_relation rejects mixed directions; IterationTransform never builds them
            for has_step in (False, True):
                try:
                    heads = forfrom_headers(ix, forfrom, r1, r2, has_step)
                except Unmodelled as e:
                    raise AnalysisError('ForFromStatNode.generate_execution_code cannot be modelled: %s' % e)
                if not heads:
                    raise AnalysisError('ForFromStatNode.generate_execution_code emits no `for (` header for relations %s %s' % (r1, r2))
                seen = {}
                parsed = {}
                for assume, eqs, text, attrs, env in heads:
                    lt = env.get('loopvar_type')
                    tp = lt.path if isinstance(lt, U) else None
                    if tp is None:
                        # find the type whose flags were consulted
                        cands = {k.rsplit('.', 1)[0] for k in assume if k.endswith('.signed') or k.endswith('.is_int')}
                        tp = sorted(cands)[0] if len(cands) == 1 else None
                    fl = type_flags(assume, tp) if tp else {}
                    is_int, signed = fl.get('is_int'), fl.get('signed')
                    if is_int is True and signed is False:
                        kinds = ['unsigned']
                    elif is_int is False or signed is True:
                        kinds = ['other']
                    elif is_int is True and signed is None:
                        kinds = ['unsigned', 'other']       # the path does not depend on the signedness
                    else:
                        kinds = ['unsigned', 'other']       # the path depends on neither flag
                    if text not in parsed:
                        try:
                            parsed[text] = parse_for_header(text, _roles)
                        except Unmodelled as e:
                            raise AnalysisError('ForFromStatNode loop header: %s' % e)
                    for kind in kinds:
                        if parsed[text] not in seen.setdefault(kind, []):
                            seen[kind].append(parsed[text])
                for kind in ('unsigned', 'other'):
                    key = 'Nodes.ForFromStatNode.generate_execution_code:header[%s %s%s,%s]' % (r1, r2, ',step' if has_step else '', kind)
                    hs = seen.get(kind)
                    if not hs:
                        raise AnalysisError('no loop header found for %s' % key)
                    r.inst(key, sample='%s -> %s' % (key, hs[0]['flat']))
                    done = set()
                    for h in hs:
                        for code, text in header_problems(h, r1, r2, table[r1][0], has_step, kind == 'unsigned'):
                            vkey = 'Nodes.ForFromStatNode.generate_execution_code:header[%s %s,%s]:%s' % (r1, r2, kind, code)
                            if (code, text) in done or vkey in reported:
                                continue
                            done.add((code, text))
                            reported.add(vkey)
                            r.violate('Nodes.ForFromStatNode.generate_execution_code:header[%s %s,%s]:%s' % (r1, r2, kind, code), forfrom.module.rel, fn.lineno,
                                      'for relations `bound1 %s x %s bound2`%s and %s loop counter ForFromStatNode emits `%s`: %s — the compiled loop runs other iterations than '
                                      'range()/reversed(range()) in CPython' % (r1, r2, ' with a step' if has_step else '', 'an unsigned C integer' if kind == 'unsigned' else 'a signed/non-integer',
                                                                               h['flat'], text))
    # positive control: the plain header with an unsigned counter counting down to an inclusive bound
    pc = parse_for_header('for (%sv%s = %sself.bound1.result()%s; %sv%s >= %sself.bound2.result()%s; %sv%s--) {' % ((ML, MR) * 5), lambda p: _roles(p) or ('V' if p == 'v' else None))
    pp = header_problems(pc, '>=', '>=', '', False, True)
    ok = header_problems(parse_for_header('for (%sv%s = %sself.bound1.result()%s + 1; %sv%s >= %sself.bound2.result()%s + 1; ) { %sv%s--;' % ((ML, MR) * 5),
                                          lambda p: _roles(p) or ('V' if p == 'v' else None)), '>=', '>=', '', False, True)
    r.positive_control(any(c == 'wrap' for c, t in pp) and not ok, 'unsigned `for (v = b1; v >= b2; v--)` flagged, guarded form accepted')
    return r
