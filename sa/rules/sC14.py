"""sC14 — (1) a small partial evaluator for code-emitting methods of the compiler ("Emu"), shared by sC14/sC20/sC21;
(2) C14-HDR: the C `for` header emitted by ForFromStatNode, decided symbolically for every relation pair / step / counter signedness.

Emu interprets the *source* of one method (ast) over abstract values: Python constants, frozen tables, unknown values named by their
access path (`U('self.bound1.result()')`), constructed objects.  Tests on unknown values fork the path and remember the assumption
under the canonical access path, so `from_range = self.from_range ... if not from_range` and `if not self.from_range` are the same atom.
Text handed to code.put/putln is assembled with unknown values kept as markers, so the emitted C skeleton of every path is available
as a string over symbols.  Nothing of the repository is imported or executed; constructs outside the fragment raise Unmodelled."""
import ast, re

from ..core import Rule, AnalysisError, node_src
from ..engine import cexpr

ML, MR = '\x01', '\x02'
MARK = re.compile('\x01([^\x02]*)\x02')
MAX_STATES = 6000


class Unmodelled(Exception):
    pass


class StopPath(Exception):
    pass


class U:
    """unknown value, named by access path / canonical expression text"""
    __slots__ = ('path', '_h')

    def __init__(self, path):
        self.path = path
        self._h = hash(('U', path))

    def __eq__(self, o):
        return isinstance(o, U) and o.path == self.path

    def __hash__(self):
        return self._h

    def __repr__(self):
        return 'U(%s)' % self.path


class New:
    """object constructed inside the analysed method"""
    __slots__ = ('cls', 'args', 'kwargs', 'line')

    def __init__(self, cls, args, kwargs, line):
        self.cls, self.args, self.kwargs, self.line = cls, tuple(args), tuple(sorted(kwargs.items(), key=lambda kv: kv[0])), line

    @property
    def ident(self):
        return 'new:%s@%d' % (self.cls, self.line)

    def __eq__(self, o):
        return isinstance(o, New) and (o.cls, o.line, o.args, o.kwargs) == (self.cls, self.line, self.args, self.kwargs)

    def __hash__(self):
        return hash(('New', self.cls, self.line))

    def __repr__(self):
        return 'New(%s)' % self.cls


class Tab:
    """frozen dict"""
    def __init__(self, d):
        self.d = dict(d)
        self.k = tuple(sorted(((repr(k), repr(v)) for k, v in self.d.items())))

    def __eq__(self, o):
        return isinstance(o, Tab) and o.k == self.k

    def __hash__(self):
        return hash(self.k)

    def __repr__(self):
        return 'Tab(%r)' % (self.d,)


def show(v):
    if isinstance(v, U):
        return v.path
    if isinstance(v, New):
        return v.ident
    if isinstance(v, tuple):
        return '(%s)' % ', '.join(show(x) for x in v)
    return repr(v)


def concrete(v):
    if isinstance(v, (U, New)):
        return False
    if isinstance(v, tuple):
        return all(concrete(x) for x in v)
    if isinstance(v, str):
        return ML not in v
    return True


def paste(v):
    """text of a value inside emitted code"""
    if isinstance(v, U):
        return ML + v.path + MR
    if isinstance(v, New):
        return ML + v.ident + MR
    return None


class St:
    __slots__ = ('env', 'attrs', 'assume', 'eqs', 'events', 'frames', 'approx', 'entry', 'written')

    def __init__(self):
        self.env, self.attrs, self.assume, self.eqs, self.events, self.frames, self.approx = {}, {}, {}, {}, (), (), False
        self.entry = {}              # assumptions made about the state on entry (attributes not yet written on this path); survive later writes
        self.written = frozenset()   # attribute paths assigned on this path

    def copy(self):
        s = St()
        s.env, s.attrs, s.assume, s.eqs = dict(self.env), dict(self.attrs), dict(self.assume), dict(self.eqs)
        s.events, s.frames, s.approx = self.events, self.frames, self.approx
        s.entry, s.written = dict(self.entry), self.written
        return s

    def key(self):
        return (frozenset(self.env.items()), frozenset(self.attrs.items()), frozenset(self.assume.items()), frozenset(self.eqs.items()),
                self.events, self.frames, self.approx, frozenset(self.entry.items()), self.written)

    def is_written(self, path):
        for w in self.written:
            if path == w or path.startswith(w + '.') or path.startswith(w + '[') or w.startswith(path + '.'):
                return True
        return False


def _dedupe(states, limit=None):
    if len(states) < 2:
        return states
    seen, out = set(), []
    for s in states:
        try:
            k = s.key()
        except TypeError as e:
            raise Unmodelled('unhashable abstract value (%s)' % e)
        if k not in seen:
            seen.add(k)
            out.append(s)
    if len(out) > (limit or MAX_STATES):
        raise Unmodelled('more than %d abstract states' % (limit or MAX_STATES))
    return out


class Out:
    __slots__ = ('normal', 'returns', 'breaks', 'continues', 'stopped')

    def __init__(self):
        self.normal, self.returns, self.breaks, self.continues, self.stopped = [], [], [], [], []

    def absorb(self, o):
        self.returns += o.returns
        self.breaks += o.breaks
        self.continues += o.continues
        self.stopped += o.stopped


EVENT_METHODS = re.compile(r'^(generate_\w+|free_temps|free_subexpr_temps|allocate|release|allocate_temp_result|release_temp_result|make_owned_reference)$')
STR_METHODS = ('startswith', 'endswith', 'strip', 'lstrip', 'rstrip', 'lower', 'upper', 'replace', 'join', 'format', 'split')
FMT = re.compile(r'%(?:\((\w+)\))?([-#0 +]*\d*(?:\.\d+)?[sdrifxXc%])')
GENERIC_OWNERS = ('Node', 'ExprNode', 'StatNode', 'object', 'AtomicExprNode', 'NewTempExprNode')


class Emu:
    def __init__(self, ix, cls, code_names=('code',), inline=None, unknown_loops='error', on_event=None, max_depth=5, max_states=None):
        """cls: pyindex ClassInfo of the analysed class (self).  inline(owner ClassInfo, name) -> bool."""
        self.ix, self.cls = ix, cls
        self.code_names = set(code_names)
        self.inline = inline or (lambda owner, name: owner.name not in GENERIC_OWNERS)
        self.unknown_loops = unknown_loops
        self.on_event = on_event
        self.max_depth = max_depth
        self.max_states = max_states
        self._self_attr_names = None

    # ----------------------------------------------------------------------------------------------------------- entry
    def run(self, owner, fn, presets=None, assume=None, args=None):
        """-> list of (state, return value) for every path (returns, fall-through and stopped paths)"""
        st = St()
        params = [a.arg for a in fn.args.args]
        for i, p in enumerate(params):
            st.env[p] = U('self') if i == 0 else U(p)
        for k, v in (args or {}).items():
            st.env[k] = v
        st.attrs.update(presets or {})
        st.assume.update(assume or {})
        self._owner_stack = [owner]
        o = self.block(fn.body, [st], owner, 0)
        res = [(s, v) for s, v in o.returns] + [(s, None) for s in o.normal] + [(s, StopPath) for s in o.stopped]
        return res

    # ----------------------------------------------------------------------------------------------------------- events
    def emit(self, st, ev):
        st.events = st.events + (ev,)
        if self.on_event is not None:
            self.on_event(st, ev)

    # ----------------------------------------------------------------------------------------------------------- blocks
    def block(self, stmts, states, owner, depth):
        o = Out()
        cur = list(states)
        for s in stmts:
            if not cur:
                break
            nxt = []
            for st in cur:
                try:
                    r = self.stmt(s, st, owner, depth)
                except StopPath:
                    o.stopped.append(st)
                    continue
                o.absorb(r)
                nxt += r.normal
            cur = _dedupe(nxt, self.max_states)
        o.normal = cur
        return o

    def stmt(self, s, st, owner, depth):
        o = Out()
        if isinstance(s, ast.Expr):
            if isinstance(s.value, ast.Call):
                for st2, v in self.call_stmt(s.value, st, owner, depth):
                    o.normal.append(st2)
            else:
                self.ev(s.value, st)
                o.normal.append(st)
        elif isinstance(s, (ast.Assign, ast.AnnAssign)):
            value = s.value
            targets = s.targets if isinstance(s, ast.Assign) else [s.target]
            if value is None:
                o.normal.append(st)
            elif isinstance(value, ast.IfExp):
                for st2, b in self.branch(value.test, st):
                    v = self.ev(value.body if b else value.orelse, st2)
                    for t in targets:
                        self.assign(t, v, st2)
                    o.normal.append(st2)
            elif isinstance(value, ast.Call):
                for st2, v in self.call_stmt(value, st, owner, depth):
                    for t in targets:
                        self.assign(t, v, st2)
                    o.normal.append(st2)
            else:
                v = self.ev(value, st)
                if isinstance(v, U) and v.path.startswith('?') and isinstance(value, (ast.BoolOp, ast.Compare)) or \
                        (isinstance(v, U) and v.path.startswith('?') and isinstance(value, ast.UnaryOp) and isinstance(value.op, ast.Not)):
                    # a flag computed from unknown conditions: keep its truth tied to the assumptions about the conditions
                    for st2, b in self.branch(value, st):
                        st2.assume[v.path] = b
                        st2.assume[v.path + ' is None'] = False
                        for t in targets:
                            self.assign(t, v, st2)
                        o.normal.append(st2)
                else:
                    for t in targets:
                        self.assign(t, v, st)
                    o.normal.append(st)
        elif isinstance(s, ast.AugAssign):
            cur = self.ev(ast.copy_location(_load(s.target), s.target), st)
            v = self.binop(s.op, cur, self.ev(s.value, st), s)
            self.assign(s.target, v, st)
            o.normal.append(st)
        elif isinstance(s, ast.If):
            for st2, b in self.branch(s.test, st):
                r = self.block(s.body if b else s.orelse, [st2], owner, depth)
                o.absorb(r)
                o.normal += r.normal
        elif isinstance(s, ast.Return):
            if s.value is not None and isinstance(s.value, ast.Call):
                for st2, v in self.call_stmt(s.value, st, owner, depth):
                    o.returns.append((st2, v))
            elif s.value is not None and isinstance(s.value, ast.IfExp):
                for st2, b in self.branch(s.value.test, st):
                    o.returns.append((st2, self.ev(s.value.body if b else s.value.orelse, st2)))
            else:
                o.returns.append((st, self.ev(s.value, st) if s.value is not None else None))
        elif isinstance(s, ast.Raise):
            pass
        elif isinstance(s, ast.Assert):
            for st2, b in self.branch(s.test, st):
                if b:
                    o.normal.append(st2)
        elif isinstance(s, (ast.Pass, ast.Global, ast.Nonlocal, ast.Delete)):
            o.normal.append(st)
        elif isinstance(s, (ast.Import, ast.ImportFrom)):
            for a in s.names:
                nm = a.asname or a.name.split('.')[0]
                st.env[nm] = U(nm)
            o.normal.append(st)
        elif isinstance(s, (ast.FunctionDef, ast.ClassDef)):
            st.env[s.name] = U('<local %s>' % s.name)
            o.normal.append(st)
        elif isinstance(s, ast.With):
            for it in s.items:
                v = self.ev(it.context_expr, st)
                if it.optional_vars is not None:
                    self.assign(it.optional_vars, U('with:' + show(v)), st)
            r = self.block(s.body, [st], owner, depth)
            o.absorb(r)
            o.normal += r.normal
        elif isinstance(s, ast.Try):
            r = self.block(s.body, [st], owner, depth)
            if s.orelse:
                r2 = self.block(s.orelse, r.normal, owner, depth)
                r.absorb(r2)
                r.normal = r2.normal
            if s.finalbody:
                fin = Out()
                f = self.block(s.finalbody, r.normal, owner, depth)
                fin.absorb(f)
                fin.normal = f.normal
                for st2, v in r.returns:
                    f = self.block(s.finalbody, [st2], owner, depth)
                    fin.absorb(f)
                    fin.returns += [(x, v) for x in f.normal]
                fin.breaks, fin.continues, fin.stopped = fin.breaks + r.breaks, fin.continues + r.continues, fin.stopped + r.stopped
                r = fin
            o.absorb(r)
            o.normal += r.normal
        elif isinstance(s, ast.For):
            self.loop(s, st, owner, depth, o)
        elif isinstance(s, ast.Break):
            o.breaks.append(st)
        elif isinstance(s, ast.Continue):
            o.continues.append(st)
        else:
            raise Unmodelled('statement %s (line %d)' % (type(s).__name__, s.lineno))
        return o

    def loop(self, s, st, owner, depth, o):
        seq = self.ev(s.iter, st)
        if isinstance(seq, tuple):
            cur = [st]
            done = []
            for item in seq:
                nxt = []
                for c in cur:
                    self.assign(s.target, item, c)
                    r = self.block(s.body, [c], owner, depth)
                    o.returns += r.returns
                    o.stopped += r.stopped
                    done += r.breaks
                    nxt += r.normal + r.continues
                cur = _dedupe(nxt)
            if s.orelse:
                r = self.block(s.orelse, cur, owner, depth)
                o.absorb(r)
                cur = r.normal
            o.normal += cur + done
            return
        if self.unknown_loops != '01':
            raise Unmodelled('loop over an unknown sequence %s (line %d)' % (show(seq), s.lineno))
        # zero or one iteration: sound for "is this event ever emitted" questions only; the state is marked approximate
        skip = st.copy()
        skip.approx = True
        once = st.copy()
        once.approx = True
        self.assign(s.target, U('item:' + show(seq)), once)
        r = self.block(s.body, [once], owner, depth)
        o.returns += r.returns
        o.stopped += r.stopped
        cur = [skip] + r.normal + r.continues
        if s.orelse:
            r2 = self.block(s.orelse, cur, owner, depth)
            o.absorb(r2)
            cur = r2.normal
        o.normal += cur + r.breaks

    # ----------------------------------------------------------------------------------------------------------- assignment
    def kill(self, st, path):
        for d in (st.assume, st.eqs):
            for k in [k for k in d if k == path or k.startswith(path + '.') or k.startswith(path + ' ') or k.startswith(path + '[')]:
                del d[k]
        for k in [k for k in st.attrs if k.startswith(path + '.')]:
            del st.attrs[k]

    def assign(self, t, v, st):
        if isinstance(v, list):
            v = tuple(v)
        if isinstance(t, ast.Name):
            st.env[t.id] = v
        elif isinstance(t, (ast.Tuple, ast.List)):
            if isinstance(v, tuple) and len(v) == len(t.elts) and not any(isinstance(e, ast.Starred) for e in t.elts):
                for e, x in zip(t.elts, v):
                    self.assign(e, x, st)
            elif isinstance(v, U):
                for i, e in enumerate(t.elts):
                    self.assign(e, U('%s[%d]' % (v.path, i)), st)
            else:
                raise Unmodelled('unpacking of %s (line %d)' % (show(v), t.lineno))
        elif isinstance(t, ast.Attribute):
            base = self.ev(t.value, st)
            if isinstance(base, U):
                p = '%s.%s' % (base.path, t.attr)
            elif isinstance(base, New):
                p = '%s.%s' % (base.ident, t.attr)
            else:
                raise Unmodelled('attribute store on %s (line %d)' % (show(base), t.lineno))
            self.kill(st, p)
            st.written = st.written | {p}
            if isinstance(v, U) and v.path.startswith('?'):
                for suffix in ('', ' is None'):
                    if v.path + suffix in st.assume:
                        st.assume[p + suffix] = st.assume[v.path + suffix]
                v = U(p)              # an anonymous unknown stored in an attribute is from now on "the value of that attribute"
            st.attrs[p] = v
        elif isinstance(t, ast.Subscript):
            base = self.ev(t.value, st)
            if isinstance(base, U):
                self.kill(st, base.path)
            else:
                raise Unmodelled('item store on %s (line %d)' % (show(base), t.lineno))
        else:
            raise Unmodelled('assignment target %s' % type(t).__name__)

    # ----------------------------------------------------------------------------------------------------------- tests
    def truth(self, v, st):
        if isinstance(v, U):
            return st.assume.get(v.path)
        if isinstance(v, New):
            return True
        if isinstance(v, Tab):
            return bool(v.d)
        if isinstance(v, str) and ML in v:
            return True
        return bool(v)

    def fork(self, st, key):
        cur = st.assume.get(key)
        if cur is not None:
            return [(st, cur)]
        out = []
        for b in (True, False):
            s2 = st.copy()
            s2.assume[key] = b
            if b and key.endswith(' is None'):
                base = key[:-len(' is None')]
                if s2.assume.get(base) is True:
                    continue
                s2.assume[base] = False
            if b and not key.endswith(' is None') and s2.assume.get(key + ' is None') is True:
                continue
            if b and not key.endswith(' is None'):
                s2.assume[key + ' is None'] = False
            base = key[:-len(' is None')] if key.endswith(' is None') else key
            if not s2.is_written(base):
                for k in (base, base + ' is None'):
                    if k in s2.assume:
                        s2.entry[k] = s2.assume[k]
            out.append((s2, b))
        return out

    def eq_branch(self, st, path, c):
        cur = st.eqs.get(path)
        if cur is not None:
            if cur[0] == 'is':
                return [(st, cur[1] == c)]
            if c in cur[1]:
                return [(st, False)]
        t, f = st.copy(), st.copy()
        t.eqs[path] = ('is', c)
        f.eqs[path] = ('not', (cur[1] if cur else frozenset()) | {c})
        return [(t, True), (f, False)]

    def branch(self, e, st):
        """-> [(state, bool)]"""
        if isinstance(e, ast.UnaryOp) and isinstance(e.op, ast.Not):
            return [(s, not b) for s, b in self.branch(e.operand, st)]
        if isinstance(e, ast.BoolOp):
            is_and = isinstance(e.op, ast.And)
            res, pending = [], [st]
            for v in e.values:
                nxt = []
                for s in pending:
                    for s2, b in self.branch(v, s):
                        if b == is_and:
                            nxt.append(s2)
                        else:
                            res.append((s2, b))
                pending = nxt
            return res + [(s, is_and) for s in pending]
        if isinstance(e, ast.Compare) and len(e.ops) == 1:
            op = e.ops[0]
            L, R = self.ev(e.left, st), self.ev(e.comparators[0], st)
            neg = isinstance(op, (ast.IsNot, ast.NotEq, ast.NotIn))
            if isinstance(op, (ast.Is, ast.IsNot)) and R is None and isinstance(L, (U, New)):
                if isinstance(L, New):
                    return [(st, neg)]
                return [(s, b != neg) for s, b in self.fork(st, L.path + ' is None')]
            if isinstance(op, (ast.Is, ast.IsNot)) and L is None and isinstance(R, U):
                return [(s, b != neg) for s, b in self.fork(st, R.path + ' is None')]
            if concrete(L) and concrete(R) and not isinstance(L, Tab) and not isinstance(R, Tab):
                try:
                    v = {ast.Eq: lambda: L == R, ast.NotEq: lambda: L != R, ast.Is: lambda: L is R or L == R, ast.IsNot: lambda: not (L is R or L == R),
                         ast.In: lambda: L in R, ast.NotIn: lambda: L not in R, ast.Lt: lambda: L < R, ast.LtE: lambda: L <= R,
                         ast.Gt: lambda: L > R, ast.GtE: lambda: L >= R}[type(op)]()
                except TypeError:
                    raise Unmodelled('comparison %s' % node_src(e))
                return [(st, bool(v))]
            if isinstance(op, (ast.Eq, ast.NotEq, ast.Is, ast.IsNot)):
                if isinstance(L, U) and concrete(R) and _scalar(R):
                    return [(s, b != neg) for s, b in self.eq_branch(st, L.path, R)]
                if isinstance(R, U) and concrete(L) and _scalar(L):
                    return [(s, b != neg) for s, b in self.eq_branch(st, R.path, L)]
            if isinstance(op, (ast.In, ast.NotIn)) and isinstance(L, U) and isinstance(R, tuple) and concrete(R) and all(_scalar(x) for x in R):
                res, pending = [], [st]
                for c in R:
                    nxt = []
                    for s in pending:
                        for s2, b in self.eq_branch(s, L.path, c):
                            (res if b else nxt).append(s2 if not b else (s2, not neg))
                    pending = nxt
                return res + [(s, neg) for s in pending]
            key = '%s %s %s' % (show(L), type(op).__name__, show(R))
            return self.fork(st, key)
        v = self.ev(e, st)
        t = self.truth(v, st)
        if t is not None:
            return [(st, t)]
        if isinstance(v, U):
            return self.fork(st, v.path)
        raise Unmodelled('test %s' % node_src(e))

    # ----------------------------------------------------------------------------------------------------------- expressions
    def ev(self, e, st):
        m = getattr(self, 'ev_' + type(e).__name__, None)
        if m is None:
            return U('?%s@%d' % (type(e).__name__, getattr(e, 'lineno', 0)))
        return m(e, st)

    def ev_Constant(self, e, st):
        return e.value

    def ev_Name(self, e, st):
        if e.id in st.env:
            return st.env[e.id]
        if e.id in ('True', 'False', 'None'):
            return {'True': True, 'False': False, 'None': None}[e.id]
        return U(e.id)

    def ev_Tuple(self, e, st):
        return tuple(self.ev(x, st) for x in e.elts)

    ev_List = ev_Tuple

    def ev_Dict(self, e, st):
        d = {}
        for k, v in zip(e.keys, e.values):
            if k is None:
                return U('?dict@%d' % e.lineno)
            kk = self.ev(k, st)
            if not concrete(kk):
                return U('?dict@%d' % e.lineno)
            d[kk] = self.ev(v, st)
        return Tab(d)

    def class_table(self, name):
        """literal dict/tuple/list class attribute along the MRO of the analysed class that no method overwrites through self"""
        a = self.ix.find_class_attr(self.cls, name)
        if a is None:
            return None
        for k in self.ix.mro(self.cls):
            if name in k.self_attrs:
                return None
        try:
            v = ast.literal_eval(a[1])
        except Exception:
            return None
        if isinstance(v, dict):
            return Tab({k: (tuple(x) if isinstance(x, list) else x) for k, x in v.items()})
        if isinstance(v, (tuple, list)):
            return tuple(v)
        return None

    def ev_Attribute(self, e, st):
        base = self.ev(e.value, st)
        if isinstance(base, U):
            p = '%s.%s' % (base.path, e.attr)
            if p in st.attrs:
                return st.attrs[p]
            if base.path == 'self':
                t = self.class_table(e.attr)
                if t is not None:
                    return t
            return U(p)
        if isinstance(base, New):
            p = '%s.%s' % (base.ident, e.attr)
            if p in st.attrs:
                return st.attrs[p]
            for k, v in base.kwargs:
                if k == e.attr:
                    return v
            return U(p)
        return U('?attr@%d' % e.lineno)

    def ev_Subscript(self, e, st):
        base = self.ev(e.value, st)
        if isinstance(e.slice, ast.Slice):
            lo = self.ev(e.slice.lower, st) if e.slice.lower is not None else None
            hi = self.ev(e.slice.upper, st) if e.slice.upper is not None else None
            stp = self.ev(e.slice.step, st) if e.slice.step is not None else None
            if isinstance(base, (tuple, str)) and concrete(base) and all(x is None or isinstance(x, int) for x in (lo, hi, stp)):
                return base[lo:hi:stp]
            return U('%s[%s:%s:%s]' % (show(base), show(lo), show(hi), show(stp)))
        idx = self.ev(e.slice, st)
        if isinstance(base, Tab):
            if concrete(idx):
                if idx in base.d:
                    return base.d[idx]
                raise Unmodelled('key %r missing in table (line %d)' % (idx, e.lineno))
            return U('%s[%s]' % (show(base), show(idx)))
        if isinstance(base, (tuple, str)) and isinstance(idx, int) and (not isinstance(base, str) or ML not in base):
            try:
                return base[idx]
            except IndexError:
                raise Unmodelled('index out of range (line %d)' % e.lineno)
        if isinstance(base, U):
            if base.path.endswith('directives') and isinstance(idx, str):
                return U('directive[%r]' % idx)
            return U('%s[%s]' % (base.path, show(idx)))
        return U('?sub@%d' % e.lineno)

    def ev_UnaryOp(self, e, st):
        v = self.ev(e.operand, st)
        if isinstance(e.op, ast.Not):
            t = self.truth(v, st)
            return U('?not@%d' % e.lineno) if t is None else (not t)
        if isinstance(e.op, ast.USub) and isinstance(v, (int, float)):
            return -v
        return U('?unary@%d' % e.lineno)

    def ev_BoolOp(self, e, st):
        is_and = isinstance(e.op, ast.And)
        last = None
        for x in e.values:
            last = self.ev(x, st)
            t = self.truth(last, st)
            if t is None:
                return U('?bool@%d' % e.lineno)
            if t != is_and:
                return last
        return last

    def ev_Compare(self, e, st):
        if len(e.ops) == 1:
            L, R = self.ev(e.left, st), self.ev(e.comparators[0], st)
            if concrete(L) and concrete(R) and not isinstance(L, Tab) and not isinstance(R, Tab):
                r = self.branch(e, st.copy())
                if len(r) == 1:
                    return r[0][1]
        return U('?cmp@%d' % e.lineno)

    def ev_IfExp(self, e, st):
        t = self.truth(self.ev(e.test, st), st)
        if t is None:
            a, b = self.ev(e.body, st), self.ev(e.orelse, st)
            return a if a == b else U('?ifexp@%d' % e.lineno)
        return self.ev(e.body if t else e.orelse, st)

    def ev_JoinedStr(self, e, st):
        out = ''
        for part in e.values:
            if isinstance(part, ast.Constant):
                out += str(part.value)
            else:
                v = self.ev(part.value, st)
                p = paste(v)
                if p is not None:
                    out += p
                    continue
                spec = ''
                if part.format_spec is not None:
                    spec = self.ev(part.format_spec, st)
                    if not isinstance(spec, str) or ML in spec:
                        raise Unmodelled('format spec (line %d)' % e.lineno)
                if isinstance(v, str) and ML in v:
                    out += v
                elif concrete(v):
                    if part.conversion == ord('r'):
                        v = repr(v)
                    elif part.conversion == ord('s'):
                        v = str(v)
                    out += format(v, spec)
                else:
                    raise Unmodelled('f-string value %s' % show(v))
        return out

    def fmt(self, tmpl, args, e):
        pos = [0]
        seq = args if isinstance(args, tuple) else None
        single = args if seq is None else None

        def sub(m):
            if m.group(2).endswith('%'):
                return '%'
            if m.group(1) is not None:
                if not isinstance(args, Tab) or m.group(1) not in args.d:
                    raise Unmodelled('%%(name)s formatting without a literal dict (line %d)' % e.lineno)
                v = args.d[m.group(1)]
            elif seq is not None:
                if pos[0] >= len(seq):
                    raise Unmodelled('not enough format arguments (line %d)' % e.lineno)
                v = seq[pos[0]]
                pos[0] += 1
            else:
                if pos[0] > 0:
                    raise Unmodelled('not enough format arguments (line %d)' % e.lineno)
                v = single
                pos[0] += 1
            p = paste(v)
            if p is not None:
                return p
            if isinstance(v, str) and ML in v:
                return v
            try:
                return ('%' + m.group(2)) % (v,)
            except (TypeError, ValueError):
                raise Unmodelled('format %%%s of %s (line %d)' % (m.group(2), show(v), e.lineno))
        return FMT.sub(sub, tmpl)

    def binop(self, op, a, b, e):
        if isinstance(op, ast.Mod) and isinstance(a, str):
            return self.fmt(a, b, e)
        if isinstance(op, ast.Add):
            if isinstance(a, str) and isinstance(b, str):
                return a + b
            if isinstance(a, str) and paste(b) is not None:
                return a + paste(b)
            if isinstance(b, str) and paste(a) is not None:
                return paste(a) + b
            if isinstance(a, tuple) and isinstance(b, tuple):
                return a + b
        if isinstance(a, (int, float)) and isinstance(b, (int, float)) and not isinstance(a, bool) and not isinstance(b, bool):
            try:
                return {ast.Add: lambda: a + b, ast.Sub: lambda: a - b, ast.Mult: lambda: a * b, ast.FloorDiv: lambda: a // b, ast.Mod: lambda: a % b}[type(op)]()
            except (KeyError, ZeroDivisionError):
                pass
        if isinstance(op, ast.Mult) and isinstance(a, str) and isinstance(b, int):
            return a * b
        return U('?binop@%d' % getattr(e, 'lineno', 0))

    def ev_BinOp(self, e, st):
        return self.binop(e.op, self.ev(e.left, st), self.ev(e.right, st), e)

    def ev_Lambda(self, e, st):
        return U('<lambda@%d>' % e.lineno)

    def ev_Starred(self, e, st):
        return U('?star@%d' % e.lineno)

    # ----------------------------------------------------------------------------------------------------------- calls
    def ev_Call(self, e, st):
        """non-inlining evaluation of a call: value + event"""
        f = e.func
        args = [self.ev(a, st) for a in e.args]
        kwargs = {k.arg: self.ev(k.value, st) for k in e.keywords if k.arg is not None}
        if isinstance(f, ast.Attribute):
            recv = self.ev(f.value, st)
            name = f.attr
            if isinstance(recv, str):
                if name in STR_METHODS and ML not in recv and all(concrete(a) for a in args) and not kwargs:
                    try:
                        return getattr(recv, name)(*[list(a) if isinstance(a, tuple) and name == 'join' else a for a in args])
                    except Exception:
                        raise Unmodelled('str.%s (line %d)' % (name, e.lineno))
                if name == 'format' and not kwargs:
                    # only positional {} fields
                    parts = re.split(r'\{(\d*)\}', recv)
                    if '{' in ''.join(parts[0::2]) or '}' in ''.join(parts[0::2]):
                        raise Unmodelled('str.format template (line %d)' % e.lineno)
                    out, auto = parts[0], 0
                    for i in range(1, len(parts), 2):
                        idx = int(parts[i]) if parts[i] else auto
                        auto += 1
                        if idx >= len(args):
                            raise Unmodelled('str.format arguments (line %d)' % e.lineno)
                        v = args[idx]
                        out += (paste(v) or (v if isinstance(v, str) else str(v))) + parts[i + 1]
                    return out
                if name == 'join' and len(args) == 1 and isinstance(args[0], tuple):
                    return recv.join(paste(x) or str(x) for x in args[0])
                return U('?strcall@%d' % e.lineno)
            if isinstance(recv, Tab):
                if name == 'get' and args and concrete(args[0]):
                    return recv.d.get(args[0], args[1] if len(args) > 1 else None)
                return U('?tabcall@%d' % e.lineno)
            if isinstance(recv, tuple):
                if name in ('append', 'extend', 'insert', 'pop', 'remove', 'reverse', 'sort'):
                    raise Unmodelled('mutation of a tracked list (line %d)' % e.lineno)
                return U('?tuplecall@%d' % e.lineno)
            if isinstance(recv, (U, New)):
                rp = recv.path if isinstance(recv, U) else recv.ident
                root = rp.split('.')[0].split('(')[0]
                text = '%s.%s(%s)' % (rp, name, ', '.join([show(a) for a in args] + ['%s=%s' % (k, show(v)) for k, v in sorted(kwargs.items())]))
                if root in self.code_names:
                    self.emit(st, ('code', rp[len(root):].lstrip('.'), name, tuple(args), tuple(sorted(kwargs.items()))))
                    return U(text)
                if isinstance(recv, U) and name[:1].isupper() and name.endswith('Node') or (isinstance(recv, U) and name[:1].isupper() and rp in ('ExprNodes', 'Nodes', 'UtilNodes')):
                    return New(name, args, kwargs, e.lineno)
                if EVENT_METHODS.match(name):
                    self.emit(st, ('call', recv, name, tuple(args), tuple(sorted(kwargs.items()))))
                return U(text)
            return U('?call@%d' % e.lineno)
        if isinstance(f, ast.Name):
            name = f.id
            if name in st.env and not isinstance(st.env[name], U):
                return U('?call@%d' % e.lineno)
            if name == 'len' and len(args) == 1 and isinstance(args[0], (tuple, str)) and concrete(args[0]):
                return len(args[0])
            if name in ('bool',) and len(args) == 1:
                t = self.truth(args[0], st)
                return U('bool(%s)' % show(args[0])) if t is None else t
            if name in ('str', 'int') and len(args) == 1 and concrete(args[0]) and isinstance(args[0], (str, int)):
                return {'str': str, 'int': int}[name](args[0])
            if name == 'getattr' and len(args) >= 2 and isinstance(args[1], str) and isinstance(args[0], U):
                p = '%s.%s' % (args[0].path, args[1])
                return st.attrs.get(p, U(p))
            if name[:1].isupper() and name.endswith('Node'):
                return New(name, args, kwargs, e.lineno)
            text = '%s(%s)' % (name, ', '.join([show(a) for a in args] + ['%s=%s' % (k, show(v)) for k, v in sorted(kwargs.items())]))
            return U(text)
        return U('?call@%d' % e.lineno)

    def resolve_inline(self, call, st, owner):
        """self.m(...) / Base.m(self, ...) / super().m(...)  ->  (owner class, FunctionDef, positional args exprs) or None"""
        f = call.func
        if not isinstance(f, ast.Attribute):
            return None
        v = f.value
        if isinstance(v, ast.Name) and isinstance(st.env.get(v.id), U) and st.env[v.id].path == 'self':
            r = self.ix.find_method(self.cls, f.attr)
            return (r[0], r[1], list(call.args)) if r else None
        if isinstance(v, ast.Call) and isinstance(v.func, ast.Name) and v.func.id == 'super' and not v.args:
            mro = self.ix.mro(self.cls)
            if owner in mro:
                for k in mro[mro.index(owner) + 1:]:
                    if f.attr in k.methods:
                        return (k, k.methods[f.attr], list(call.args))
            return None
        if isinstance(v, ast.Name) and v.id not in st.env and call.args and isinstance(call.args[0], ast.Name) \
                and isinstance(st.env.get(call.args[0].id), U) and st.env[call.args[0].id].path == 'self':
            for k in self.ix.mro(self.cls):
                if k.name == v.id:
                    r = self.ix.find_method(k, f.attr)
                    return (r[0], r[1], list(call.args[1:])) if r else None
        return None

    def call_stmt(self, call, st, owner, depth):
        """statement-level call: inlined when it is a method of the analysed object -> [(state, value)]"""
        tgt = self.resolve_inline(call, st, owner)
        if tgt is None or depth >= self.max_depth or not self.inline(tgt[0], tgt[1].name):
            return [(st, self.ev_Call(call, st))]
        k, fn, argexprs = tgt
        if fn.args.vararg or fn.args.kwarg or any(isinstance(a, ast.Starred) for a in argexprs) or any(kw.arg is None for kw in call.keywords):
            return [(st, self.ev_Call(call, st))]
        params = [a.arg for a in fn.args.args]
        vals = [self.ev(a, st) for a in argexprs]
        kw = {x.arg: self.ev(x.value, st) for x in call.keywords}
        new_env = {params[0]: U('self')} if params else {}
        defaults = fn.args.defaults
        dstart = len(params) - len(defaults)
        for i, p in enumerate(params[1:], 1):
            if i - 1 < len(vals):
                new_env[p] = vals[i - 1]
            elif p in kw:
                new_env[p] = kw[p]
            elif i >= dstart:
                d = defaults[i - dstart]
                new_env[p] = d.value if isinstance(d, ast.Constant) else U('default:' + p)
            else:
                raise Unmodelled('call of %s misses argument %s (line %d)' % (fn.name, p, call.lineno))
        saved = tuple(sorted(st.env.items(), key=lambda kv: kv[0]))
        st.frames = st.frames + (saved,)
        st.env = new_env
        o = self.block(fn.body, [st], k, depth + 1)
        if o.breaks or o.continues:
            raise Unmodelled('break/continue escaping %s' % fn.name)
        res = []
        for s2, v in [(s, None) for s in o.normal] + o.returns:
            s2.env = dict(s2.frames[-1])
            s2.frames = s2.frames[:-1]
            res.append((s2, v))
        if o.stopped:
            raise StopPath()
        return res


def _load(t):
    t2 = ast.parse(ast.unparse(t), mode='eval').body
    return t2


def _scalar(v):
    return v is None or isinstance(v, (str, int, float, bool))


# ================================================================================================================ linear forms over emitted C
def linear(text, names):
    """C expression text -> {symbol or 1: coefficient}; AnalysisError when it is not linear"""
    try:
        t = cexpr.parse(text)
    except cexpr.ParseError as e:
        raise Unmodelled('cannot parse emitted expression %r: %s' % (text, e))

    def lin(n):
        if n[0] == 'num':
            return {1: n[1]}
        if n[0] == 'id':
            return {n[1]: 1}
        if n[0] == 'un' and n[1] in ('-', '+'):
            x = lin(n[2])
            return x if n[1] == '+' else {k: -v for k, v in x.items()}
        if n[0] == 'bin' and n[1] in ('+', '-'):
            a, b = lin(n[2]), lin(n[3])
            out = dict(a)
            for k, v in b.items():
                out[k] = out.get(k, 0) + (v if n[1] == '+' else -v)
            return out
        if n[0] == 'bin' and n[1] == '*':
            a, b = lin(n[2]), lin(n[3])
            for x, y in ((a, b), (b, a)):
                if set(x) <= {1}:
                    c = x.get(1, 0)
                    return {k: c * v for k, v in y.items()}
        if n[0] == 'cast':
            return lin(n[2])
        raise Unmodelled('emitted expression %r is not linear' % text)
    return {k: v for k, v in lin(t).items() if v != 0}


def lin_add(a, b, sign=1):
    out = dict(a)
    for k, v in b.items():
        out[k] = out.get(k, 0) + sign * v
    return {k: v for k, v in out.items() if v != 0}


def lin_show(a):
    if not a:
        return '0'
    parts = []
    for k in sorted(a, key=lambda k: (k == 1, str(k))):
        v = a[k]
        if k == 1:
            parts.append('%+d' % v)
        else:
            parts.append(('+' if v > 0 else '-') + ('' if abs(v) == 1 else '%d*' % abs(v)) + str(k))
    s = ' '.join(parts)
    return s[1:] if s.startswith('+') else s


def nonneg(a, at_least_one=()):
    """is the linear form >= 0 for all values >= 0 of its symbols (symbols in at_least_one are >= 1)?"""
    c0 = a.get(1, 0)
    for k, v in a.items():
        if k == 1:
            continue
        if v < 0:
            return False
        if k in at_least_one:
            c0 += v
    return c0 >= 0


HEADER = re.compile(r'^\s*for\s*\((?P<init>[^;]*);(?P<cond>[^;]*);(?P<incr>[^;{]*)\)\s*\{(?P<rest>.*)$', re.S)
STEP_OP = re.compile(r'^\s*(?P<v>\w+)\s*(?:(?P<pp>\+\+|--)|(?P<op>[-+])=\s*(?P<d>.+?))\s*$')


def parse_for_header(text, roles):
    """text of the emitted `for (...) {` line with markers -> dict(counter, init, rel, bound, incr, prefix) as linear forms over role names.
    roles: function(marker path) -> role name or None (None: stays an opaque symbol)"""
    names = {}

    def sub(m):
        p = m.group(1)
        r = roles(p)
        if r is None:
            r = names.setdefault(p, 'sym%d' % len(names) if names else 'i')
        return ' ' + r + ' '
    flat = MARK.sub(sub, text)
    m = HEADER.match(flat)
    if not m:
        raise Unmodelled('emitted loop header %r is not of the form for (init; cond; incr) {' % flat.strip())
    im = re.match(r'^\s*(\w+)\s*=(?!=)(.*)$', m.group('init'), re.S)
    if not im:
        raise Unmodelled('loop initialisation %r' % m.group('init'))
    v = im.group(1)
    cm = re.match(r'^\s*(\w+)\s*(<=|>=|<|>)(.*)$', m.group('cond'), re.S)
    if not cm or cm.group(1) != v:
        raise Unmodelled('loop condition %r does not test the counter %s' % (m.group('cond'), v))

    def delta(s):
        s = s.strip().rstrip(';').strip()
        if not s:
            return {}
        sm = STEP_OP.match(s)
        if not sm or sm.group('v') != v:
            raise Unmodelled('loop increment %r does not step the counter %s' % (s, v))
        if sm.group('pp'):
            return {1: 1 if sm.group('pp') == '++' else -1}
        d = linear(sm.group('d'), None)
        return d if sm.group('op') == '+' else {k: -x for k, x in d.items()}
    rest = m.group('rest').strip()
    prefix = {}
    if rest:
        if rest.count(';') != 1 or not rest.endswith(';'):
            raise Unmodelled('statements after the loop header: %r' % rest)
        prefix = delta(rest)
    return dict(counter=v, init=linear(im.group(2), None), rel=cm.group(2), bound=linear(cm.group(3), None), incr=delta(m.group('incr')), prefix=prefix, flat=flat.strip())


# ================================================================================================================ C14-HDR
def _roles(path):
    for pre, r in (('self.bound1.', 'B1'), ('self.bound2.', 'B2'), ('self.step.', 'S')):
        if path.startswith(pre):
            return r
    return None


def header_problems(h, r1, r2, off_text, has_step, unsigned):
    """h: parsed header.  -> [(code, text)]"""
    probs = []
    S = {'S': 1} if has_step else {1: 1}
    down = r1.startswith('>')
    want_stride = {k: -v for k, v in S.items()} if down else S
    off = linear(off_text, None) if off_text.strip() else {}
    first = lin_add(h['init'], h['prefix'])
    want_first = lin_add({'B1': 1}, off)
    if first != want_first:
        probs.append(('first', 'the first value the body sees is %s, expected bound1%s = %s' % (lin_show(first), off_text, lin_show(want_first))))
    stride = lin_add(h['incr'], h['prefix'])
    if stride != want_stride:
        probs.append(('stride', 'the counter moves by %s per iteration, expected %s' % (lin_show(stride), lin_show(want_stride))))
    # the test `V rel X` is made on the counter before the prefix statement: in terms of the value the body sees it is `value rel X + prefix`
    vis_bound = lin_add(h['bound'], h['prefix'])
    if h['rel'] != r2 or vis_bound != {'B2': 1}:
        probs.append(('test', 'the loop continues while value %s %s, expected value %s bound2' % (h['rel'], lin_show(vis_bound), r2)))
    if unsigned and down:
        k = {kk: -v for kk, v in want_stride.items()}            # size of one downward step (positive)
        for where, d, before in (('prefix', h['prefix'], {}), ('incr', h['incr'], h['prefix'])):
            if not d or all(v >= 0 for v in d.values()):
                continue
            # value of the counter when the decrement executes >= X (+1 if strict) + what was added since the test
            if h['rel'] not in ('>', '>='):
                probs.append(('wrap', 'the counter is decremented without a lower-bound test'))
                continue
            lb = lin_add(lin_add(h['bound'], {1: 1} if h['rel'] == '>' else {}), before)
            lb = lin_add(lb, lin_add({}, d, -1), -1)             # lb - |d|
            if not nonneg(lb, at_least_one=('S',)):
                probs.append(('wrap', 'an unsigned counter is decremented by %s where only counter >= %s is known: for bound2 = 0 %s the subtraction wraps around to a huge '
                                      'value and the loop does not stop' % (lin_show(k), lin_show(lin_add(lb, lin_add({}, d, -1))),
                                                                            '(every counter value passes `>= 0`)' if h['rel'] == '>=' else 'and a step > 1')))
    return probs


def forfrom_headers(ix, forfrom, r1, r2, has_step):
    """every (assumptions, header text) the method can emit for this relation pair"""
    fn = forfrom.methods.get('generate_execution_code')
    if fn is None:
        raise AnalysisError('ForFromStatNode.generate_execution_code vanished')
    found = []

    def on_event(st, ev):
        if ev[0] == 'code' and ev[2] in ('putln', 'put') and ev[3] and isinstance(ev[3][0], str) and re.match(r'\s*for\s*\(', MARK.sub('x', ev[3][0])):
            found.append((dict(st.assume), dict(st.eqs), ev[3][0], dict(st.attrs), dict(st.env)))
            raise StopPath()
    emu = Emu(ix, forfrom, on_event=on_event)
    presets = {'self.relation1': r1, 'self.relation2': r2}
    assume = {}
    if has_step:
        assume['self.step'] = True
        assume['self.step is None'] = False
    else:
        presets['self.step'] = None
    emu.run(forfrom, fn, presets=presets, assume=assume)
    return found


def type_flags(assume, tpath):
    return {k[len(tpath) + 1:]: v for k, v in assume.items() if k.startswith(tpath + '.') and ' ' not in k}


def rule_header(ctx, floor=28):
    ix = ctx.index
    r = Rule('C14-HDR', 'the C for-header ForFromStatNode emits, for every relation pair, with/without step, signed/unsigned counter: the body sees bound1+offset first, '
             'moves one step per iteration in the direction of the relations, continues while `value relation2 bound2`; an unsigned counter is never decremented below zero', floor)
    forfrom = ix.cls('Nodes', 'ForFromStatNode')
    fn = forfrom.methods.get('generate_execution_code')
    a = forfrom.attrs.get('relation_table')
    try:
        table = ast.literal_eval(a) if a is not None else None
    except Exception:
        table = None
    if not isinstance(table, dict) or len(table) < 4:
        raise AnalysisError('ForFromStatNode.relation_table is not a literal dict any more')
    # signedness model: CIntType.signed indexes sign_words = ("unsigned ", "", "signed ") -> 0 is unsigned
    num = ix.cls('PyrexTypes', 'CNumericType')
    sw = ix.find_class_attr(num, 'sign_words')
    try:
        words = ast.literal_eval(sw[1]) if sw else None
    except Exception:
        words = None
    if not (isinstance(words, tuple) and words and 'unsigned' in words[0] and all('unsigned' not in w for w in words[1:])):
        raise AnalysisError('PyrexTypes.CNumericType.sign_words no longer maps signed == 0 to "unsigned"')
    rels = sorted(table)
    reported = set()
    for r1 in rels:
        for r2 in rels:
            if r1[0] != r2[0]:
                continue            # Parsing.p_for_from_relation rejects mixed directions; IterationTransform never builds them
            for has_step in (False, True):
                try:
                    heads = forfrom_headers(ix, forfrom, r1, r2, has_step)
                except Unmodelled as e:
                    raise AnalysisError('ForFromStatNode.generate_execution_code cannot be modelled: %s' % e)
                if not heads:
                    raise AnalysisError('ForFromStatNode.generate_execution_code emits no `for (` header for relations %s %s' % (r1, r2))
                seen = {}
                parsed = {}
                for assume, eqs, text, attrs, env in heads:
                    lt = env.get('loopvar_type')
                    tp = lt.path if isinstance(lt, U) else None
                    if tp is None:
                        # find the type whose flags were consulted
                        cands = {k.rsplit('.', 1)[0] for k in assume if k.endswith('.signed') or k.endswith('.is_int')}
                        tp = sorted(cands)[0] if len(cands) == 1 else None
                    fl = type_flags(assume, tp) if tp else {}
                    is_int, signed = fl.get('is_int'), fl.get('signed')
                    if is_int is True and signed is False:
                        kinds = ['unsigned']
                    elif is_int is False or signed is True:
                        kinds = ['other']
                    elif is_int is True and signed is None:
                        kinds = ['unsigned', 'other']       # the path does not depend on the signedness
                    else:
                        kinds = ['unsigned', 'other']       # the path depends on neither flag
                    if text not in parsed:
                        try:
                            parsed[text] = parse_for_header(text, _roles)
                        except Unmodelled as e:
                            raise AnalysisError('ForFromStatNode loop header: %s' % e)
                    for kind in kinds:
                        if parsed[text] not in seen.setdefault(kind, []):
                            seen[kind].append(parsed[text])
                for kind in ('unsigned', 'other'):
                    key = 'Nodes.ForFromStatNode.generate_execution_code:header[%s %s%s,%s]' % (r1, r2, ',step' if has_step else '', kind)
                    hs = seen.get(kind)
                    if not hs:
                        raise AnalysisError('no loop header found for %s' % key)
                    r.inst(key, sample='%s -> %s' % (key, hs[0]['flat']))
                    done = set()
                    for h in hs:
                        for code, text in header_problems(h, r1, r2, table[r1][0], has_step, kind == 'unsigned'):
                            vkey = 'Nodes.ForFromStatNode.generate_execution_code:header[%s %s,%s]:%s' % (r1, r2, kind, code)
                            if (code, text) in done or vkey in reported:
                                continue
                            done.add((code, text))
                            reported.add(vkey)
                            r.violate('Nodes.ForFromStatNode.generate_execution_code:header[%s %s,%s]:%s' % (r1, r2, kind, code), forfrom.module.rel, fn.lineno,
                                      'for relations `bound1 %s x %s bound2`%s and %s loop counter ForFromStatNode emits `%s`: %s — the compiled loop runs other iterations than '
                                      'range()/reversed(range()) in CPython' % (r1, r2, ' with a step' if has_step else '', 'an unsigned C integer' if kind == 'unsigned' else 'a signed/non-integer',
                                                                               h['flat'], text))
    # positive control: the plain header with an unsigned counter counting down to an inclusive bound
    pc = parse_for_header('for (%sv%s = %sself.bound1.result()%s; %sv%s >= %sself.bound2.result()%s; %sv%s--) {' % ((ML, MR) * 5), lambda p: _roles(p) or ('V' if p == 'v' else None))
    pp = header_problems(pc, '>=', '>=', '', False, True)
    ok = header_problems(parse_for_header('for (%sv%s = %sself.bound1.result()%s + 1; %sv%s >= %sself.bound2.result()%s + 1; ) { %sv%s--;' % ((ML, MR) * 5),
                                          lambda p: _roles(p) or ('V' if p == 'v' else None)), '>=', '>=', '', False, True)
    r.positive_control(any(c == 'wrap' for c, t in pp) and not ok, 'unsigned `for (v = b1; v >= b2; v--)` flagged, guarded form accepted')
    return r


# ================================================================================================================ C14-TREE
# The loops IterationTransform builds, decided on a complete family of abstract for-in statements.  The *source* of each _transform_*_iteration method (and of
# _optimise_for_loop / _try_optimise_iterator_function for the container methods) is interpreted by the checker's evaluator (sC21.MiniPy) on a ForInStatNode whose
# iterable is an abstract container / range() call / C array slice; type analysis of the constructed nodes is replaced by the identity (analyse_* / coerce_* keep the
# operand trees).  The constructed tree (LetNode / TempsBlockNode / ForFromStatNode / WhileStatNode / IfStatNode / *IterationNextNode / assignments built from
# IntNode, binop_node(), PrimaryCmpNode ...) is then *simulated by the checker* for container lengths 0, 1 and 3 under the semantics the other C14 rules establish for
# those node classes (ForFromStatNode: C14-REL/HDR; *IterationNextNode: the helper contract of C14-S2/RET), and the trace - the value bound to the loop target(s) at each
# execution of the body, and whether the else clause runs - is compared with the Python for-loop over the same abstract container.
from . import sC21 as _M21          # (sC21 imports this module for Emu: the names are bound on first use, see _bind21)
import itertools


def _bind21():
    g = globals()
    for nm in ('MiniPy', 'Obj', 'StubClass', 'HostFn', 'Unmodelled', 'PyRaise', 'visitor_overrides'):
        g[nm] = getattr(_M21, nm)


def _tree_overrides():
    _bind21()
    ident = lambda it, self, *a, **k: self
    none = lambda it, self, *a, **k: None
    o = dict(visitor_overrides())
    for nm in ('analyse_types', 'analyse_target_types', 'analyse_expressions', 'coerce_to', 'coerce_to_simple', 'coerce_to_temp', 'coerce_to_pyobject', 'coerce_to_boolean',
               'coerce_to_index', 'as_none_safe_node', 'coerce_to_integer'):
        o[('Node', nm)] = ident
    for nm in ('analyse_operation', 'analyse_declarations', 'analyse_target_declaration', 'set_up_loop'):
        o[('Node', nm)] = none
    return o


class _TreeWorld:
    def __init__(self, ix):
        _bind21()
        self.errors = []
        rep = {'error': HostFn(lambda it, pos, msg, *a: self.errors.append(msg), 'error'), 'warning': HostFn(lambda it, *a, **k: None, 'warning')}

        def tdefault(o, name):
            if name.startswith('is_') or name in ('signed',):
                return False
            if name in ('return_type', 'base_type'):
                return Obj(o.cls, {'$tag': '%s.%s' % (o.attrs.get('$tag'), name)})
            raise AttributeError(name)
        self.TypeStub = StubClass('TypeStub', default=tdefault, methods={
            '__call__': lambda it, self, *a, **k: Obj(self.cls, {'$ctor': self.attrs.get('$tag'), '$args': list(a), '$kw': dict(k)}),
            'element_ptr_type': lambda it, self: self, 'assignable_from': lambda it, self, o: True,
            'lookup': lambda it, self, name: Obj(self.cls, {'$tag': 'entry:%s' % name}),
            '__eq__': lambda it, self, o: True, '__ne__': lambda it, self, o: False})
        types = {'*': lambda name: Obj(self.TypeStub, {'$tag': name})}

        def adefault(o, name):
            if name.startswith('__'):
                raise AttributeError(name)
            return Obj(o.cls, {'$tag': '%s.%s' % (o.attrs.get('$tag'), name)})
        self.AnyStub = StubClass('AnyStub', default=adefault, methods={'__call__': lambda it, self, *a, **k: Obj(self.cls, {'$tag': '%s()' % self.attrs.get('$tag')})})
        anyf = {'*': lambda name: Obj(self.AnyStub, {'$tag': name})}
        opts = {'copy_inherited_directives': HostFn(lambda it, d, **k: dict(d, **k), 'copy_inherited_directives'), 'convert_range': True}
        self.it = MiniPy(ix, stub_modules={'Errors': rep, 'Optimize': dict(rep), 'Builtin': types, 'PyrexTypes': types, 'Options': opts, 'Code': anyf, 'StringEncoding': anyf},
                         family_overrides=_tree_overrides())
        self.pos = ('s.py', 1, 0)

    def typ(self, **flags):
        return Obj(self.TypeStub, dict(flags))

    def node(w_, mod_, cls_, **attrs):
        attrs.setdefault('pos', w_.pos)
        return Obj(w_.it.cls(mod_, cls_), attrs)

    def marker(self, tag):
        return self.node('Nodes', 'PassStatNode', **{'$marker': tag})

    def transform(self):
        it = self
        ctx_stub = Obj(self.AnyStub, {'$tag': 'context', 'language_level': 3})
        gscope = Obj(StubClass('GScope'), {'context': ctx_stub})
        env = Obj(StubClass('EnvStub', methods={'global_scope': lambda it_, s: gscope, 'lookup': lambda it_, s, name: None}), {'directives': {}})
        return Obj(self.it.cls('Optimize', 'IterationTransform'), dict(env_stack=[(None, env)]))

    def loop(self, target, seq):
        itn = self.node('ExprNodes', 'IteratorNode', sequence=seq, reversed=False, expr_scope=None)
        return self.node('Nodes', 'ForInStatNode', target=target, iterator=itn, item=self.node('ExprNodes', 'NextNode', iterator=itn, **{'$tag': 'next'}),
                         body=self.marker('body'), else_clause=self.marker('else'))

    def name(self, n, **tflags):
        return self.node('ExprNodes', 'NameNode', name=n, type=self.typ(**tflags), entry=None)

    def intnode(self, v, **kw):
        return self.node('ExprNodes', 'IntNode', value=str(v), constant_result=v, type=self.typ(is_int=True), **kw)

    def sym(self, tag, value):
        """a non-constant C integer expression whose run-time value the checker fixes for the simulation"""
        nac = self.it.module_global(self.it.ix.mod('ExprNodes'), 'not_a_constant')
        return self.node('ExprNodes', 'NameNode', name=tag, type=self.typ(is_int=True), entry=None, constant_result=nac, **{'$value': value})


# ------------------------------------------------------------------------------------------ simulation of the constructed tree
class _Brk(Exception):
    pass


class _Cnt(Exception):
    pass


class _Exhausted(Exception):
    """the C `break` emitted by a *IterationNextNode: leaves the enclosing C loop normally (its else clause runs)"""


class _LoopSim:
    def __init__(self, it, L, targets):
        self.it, self.L = it, L
        self.store = {}
        self.trace = []
        self.targets = targets          # names whose values are recorded at every execution of the body
        self.steps = 0

    def isa(self, o, name):
        return isinstance(o, Obj) and name in self.it.mro_names(o.cls)

    def g(self, o, name, default=None):
        try:
            return self.it.getattr(o, name)
        except PyRaise:
            return default

    # ---- values
    def key(self, o):
        if self.isa(o, 'TempRefNode'):
            return ('h', id(self.g(o, 'handle')))
        if self.isa(o, 'ResultRefNode'):
            return ('r', id(o))
        if self.isa(o, 'NameNode'):
            return ('n', self.g(o, 'name'))
        raise Unmodelled('assignment target %s in the constructed loop' % o.cls.name)

    def assign(self, t, v):
        if self.isa(t, 'SequenceNode'):
            if not (isinstance(v, tuple) and v and v[0] == 'pair'):
                raise Unmodelled('unpacking %r' % (v,))
            for x, y in zip(self.g(t, 'args'), v[1:]):
                self.assign(x, y)
            return
        self.store[self.key(t)] = v

    def ev(self, o):
        self.steps += 1
        if self.steps > 20000:
            raise _Runaway()
        g = self.g
        if o is None:
            return None
        if self.isa(o, 'IntNode'):
            return int(g(o, 'value'))
        if self.isa(o, 'BoolNode'):
            return bool(g(o, 'value'))
        if self.isa(o, 'NullNode'):
            return None
        if self.isa(o, 'TempRefNode') or self.isa(o, 'ResultRefNode'):
            k = self.key(o)
            if k not in self.store:
                raise Unmodelled('temporary read before it is set')
            return self.store[k]
        if self.isa(o, 'NameNode'):
            if '$value' in o.attrs:
                return o.attrs['$value']
            if '$ptr' in o.attrs:
                return ('ptr', 0)
            if '$container' in o.attrs:
                return ('container',)
            k = self.key(o)
            if k in self.store:
                return self.store[k]
            raise Unmodelled('name %s read in the constructed loop' % g(o, 'name'))
        if self.isa(o, 'CloneNode') or self.isa(o, 'CoercionNode'):
            return self.ev(g(o, 'arg'))
        if self.isa(o, 'PrimaryCmpNode'):
            a, b = self.ev(g(o, 'operand1')), self.ev(g(o, 'operand2'))
            a, b = self.num(a), self.num(b)
            return {'<': a < b, '<=': a <= b, '>': a > b, '>=': a >= b, '==': a == b, '!=': a != b}[g(o, 'operator')]
        if self.isa(o, 'BoolBinopNode'):
            a = self.ev(g(o, 'operand1'))
            if g(o, 'operator') == 'and':
                return self.ev(g(o, 'operand2')) if a else a
            return a if a else self.ev(g(o, 'operand2'))
        if self.isa(o, 'BinopNode'):
            a, b = self.ev(g(o, 'operand1')), self.ev(g(o, 'operand2'))
            op = g(o, 'operator')
            if isinstance(a, tuple) and a[0] == 'ptr':
                return ('ptr', a[1] + b) if op == '+' else ('ptr', a[1] - b)
            return {'+': lambda: a + b, '-': lambda: a - b, '*': lambda: a * b, '//': lambda: a // b, '/': lambda: a // b}[op]()
        if self.isa(o, 'PythonCapiCallNode'):
            fn = g(g(o, 'function'), 'cname')
            args = g(o, 'args')
            if fn == '__Pyx_PyUnicode_READ':
                return ('item', self.ev(args[2]))
            if fn in ('__Pyx_PyBytes_AsWritableString',):
                return ('ptr', 0)
            if fn in ('__Pyx_PyBytes_GET_SIZE',):
                return self.L
            if fn in ('__Pyx_dict_iterator', '__Pyx_dict_iterator_legacy', '__Pyx_set_iterator'):
                return ('iter', fn)
            raise Unmodelled('C-API call %s in the constructed loop' % fn)
        if self.isa(o, 'SimpleCallNode'):
            f = g(o, 'function')
            if self.isa(f, 'NameNode') and g(f, 'name') == 'len':
                return self.L
            raise Unmodelled('call in the constructed loop')
        if self.isa(o, 'IndexNode'):
            b, i = self.ev(g(o, 'base')), self.ev(g(o, 'index'))
            if isinstance(b, tuple) and b[0] == 'ptr':
                return ('item', b[1] + i)
            return ('item', i)
        if self.isa(o, 'DereferenceNode'):
            b = self.ev(g(o, 'operand'))
            return ('item', b[1])
        if self.isa(o, 'AmpersandNode'):
            return ('addr', g(o, 'operand'))
        if self.isa(o, 'NextNode'):
            return self.store[('next',)]
        raise Unmodelled('expression node %s in the constructed loop' % o.cls.name)

    @staticmethod
    def num(v):
        return v[1] if isinstance(v, tuple) and v[0] == 'ptr' else v

    # ---- statements
    def ex(self, o):
        self.steps += 1
        if self.steps > 20000:
            raise _Runaway()
        g = self.g
        if o is None:
            return
        if '$marker' in o.attrs:
            tag = o.attrs['$marker']
            if tag == 'body':
                self.trace.append(('body',) + tuple(self.store.get(('n', t)) for t in self.targets))
            else:
                self.trace.append((tag,))
            return
        if self.isa(o, 'LetNode'):
            self.store[('r', id(g(o, 'lazy_temp')))] = self.ev(g(o, 'temp_expression'))
            return self.ex(g(o, 'body'))
        if self.isa(o, 'TempsBlockNode') or self.isa(o, 'CompilerDirectivesNode') or self.isa(o, 'CriticalSectionStatNode'):
            return self.ex(g(o, 'body'))
        if self.isa(o, 'StatListNode'):
            for s in g(o, 'stats'):
                self.ex(s)
            return
        if self.isa(o, 'SingleAssignmentNode'):
            return self.assign(g(o, 'lhs'), self.ev(g(o, 'rhs')))
        if self.isa(o, 'ExprStatNode'):
            e = g(o, 'expr')
            if self.isa(e, 'PythonCapiCallNode') and g(g(e, 'function'), 'cname') == '__Pyx_init_unicode_iteration':
                decl = g(g(e, 'function'), 'type').attrs.get('$args', [None, []])[1]
                for d, a in zip(decl, g(e, 'args')):
                    nm = d.attrs.get('$args', [None])[0]
                    if nm == 'length':
                        self.assign(g(a, 'operand'), self.L)
                    elif nm in ('data', 'kind'):
                        self.assign(g(a, 'operand'), 0)
                return
            raise Unmodelled('expression statement in the constructed loop')
        if self.isa(o, 'IfStatNode'):
            for c in g(o, 'if_clauses'):
                if self.ev(g(c, 'condition')):
                    return self.ex(g(c, 'body'))
            return self.ex(g(o, 'else_clause'))
        if self.isa(o, 'ContinueStatNode'):
            raise _Cnt()
        if self.isa(o, 'BreakStatNode'):
            raise _Brk()
        if self.isa(o, 'ForFromStatNode'):
            b1, b2 = self.num(self.ev(g(o, 'bound1'))), self.num(self.ev(g(o, 'bound2')))
            st = g(o, 'step')
            step = self.ev(st) if st is not None else 1
            r1, r2 = g(o, 'relation1'), g(o, 'relation2')
            ptr = isinstance(self.ev(g(o, 'bound1')), tuple)
            up = r1 in ('<', '<=')
            i = b1 + (1 if r1 == '<' else -1 if r1 == '>' else 0)
            cmp = {'<': lambda a, b: a < b, '<=': lambda a, b: a <= b, '>': lambda a, b: a > b, '>=': lambda a, b: a >= b}[r2]
            n = 0
            while cmp(i, b2):
                n += 1
                if n > 200:
                    raise _Runaway()
                self.assign(g(o, 'target'), ('ptr', i) if ptr else i)
                try:
                    self.ex(g(o, 'body'))
                except _Cnt:
                    pass
                except _Brk:
                    return
                i += step if up else -step
            return self.ex(g(o, 'else_clause'))
        if self.isa(o, 'WhileStatNode'):
            n = 0
            while True:
                c = g(o, 'condition')
                if c is not None and not self.ev(c):
                    break
                n += 1
                if n > 200:
                    raise _Runaway()
                try:
                    self.ex(g(o, 'body'))
                except _Cnt:
                    continue
                except _Brk:
                    return
                except _Exhausted:
                    break
            return self.ex(g(o, 'else_clause'))
        if self.isa(o, 'DictIterationNextNode') or self.isa(o, 'SetIterationNextNode'):
            pv = g(o, 'pos_index_var')
            pos = self.ev(pv)
            if pos >= self.L:
                raise _Exhausted()
            self.assign(pv, pos + 1)
            if self.isa(o, 'SetIterationNextNode'):
                self.assign(g(o, 'value_target'), ('item', pos))
                return
            for attr, val in (('key_target', ('key', pos)), ('value_target', ('val', pos)), ('tuple_target', ('pair', ('key', pos), ('val', pos)))):
                t = g(o, attr)
                if t is not None:
                    self.assign(t, val)
            return
        if self.isa(o, 'ForInStatNode'):
            itn = g(o, 'iterator')
            order = range(self.L - 1, -1, -1) if g(itn, 'reversed') else range(self.L)
            for i in order:
                self.store[('next',)] = ('item', i)
                self.assign(g(o, 'target'), self.ev(g(o, 'item')))
                try:
                    self.ex(g(o, 'body'))
                except _Cnt:
                    pass
                except _Brk:
                    return
            return self.ex(g(o, 'else_clause'))
        raise Unmodelled('statement node %s in the constructed loop' % o.cls.name)


class _Runaway(Exception):
    pass


def loop_simulate(w, tree, L, targets):
    s = _LoopSim(w.it, L, targets)
    try:
        s.ex(tree)
    except _Runaway:
        s.trace.append(('does not terminate',))
    except (_Brk, _Cnt, _Exhausted):
        s.trace.append(('jump outside a loop',))
    return s.trace


# ------------------------------------------------------------------------------------------ scenarios
def py_slice_indices(start, stop, step, rev, N=40):
    idx = list(range(N))[slice(start, stop, step)]
    return idx[::-1] if rev else idx


def tree_scenarios(w):
    """yield (key, description, call(tr) -> result tree, targets, expected(L) -> trace)"""
    it = w.it
    out = []

    def body_trace(vals, else_=True):
        return [('body',) + (v if isinstance(v, tuple) and v and v[0] == '$multi' else (v,)) for v in vals]

    def exp_items(idx_of_L, wrap=lambda i: ('item', i)):
        def f(L):
            return [('body', wrap(i)) for i in idx_of_L(L)] + [('else',)]
        return f
    # ---- range
    for rev in (False, True):
        for a, b, k in ((None, ('sym', 9), None), (('c', 2), ('c', 9), None), (('sym', 2), ('sym', 9), None), (('c', 2), ('c', 9), ('c', 3)), (('c', 0), ('c', 10), ('c', 3)),
                        (('sym', 2), ('sym', 9), ('c', 3)), (('sym', 1), ('sym', 11), ('c', 2)), (('c', 9), ('c', 2), ('c', -1)), (('c', 9), ('c', 2), ('c', -3)),
                        (('sym', 9), ('sym', 2), ('c', -3)), (('sym', 10), ('sym', 1), ('c', -2)), (('c', 5), ('c', 5), None), (('sym', 7), ('sym', 3), None)):
            def mk(x):
                return None if x is None else (w.intnode(x[1]) if x[0] == 'c' else w.sym('v', x[1]))

            def call(tr, a=a, b=b, k=k, rev=rev):
                args = [n for n in (mk(a), mk(b), mk(k)) if n is not None]
                fn = w.node('ExprNodes', 'SimpleCallNode', function=w.name('range'), args=None, arg_tuple=w.node('ExprNodes', 'TupleNode', args=args, mult_factor=None), self=None)
                node = w.loop(w.name('i', is_int=True), fn)
                return it.call(it.getattr(tr, '_transform_range_iteration'), [node, fn], {'reversed': rev})
            vals = [x[1] for x in (a, b, k) if x is not None]
            r = list(range(*vals))
            exp = (lambda L, r=r, rev=rev: [('body', i) for i in (r[::-1] if rev else r)] + [('else',)])
            text = '%srange(%s)' % ('reversed ' if rev else '', ', '.join(('%d' % x[1]) if x[0] == 'c' else 'v%d' % x[1] for x in (a, b, k) if x is not None))
            out.append(('range:%s%s' % ('reversed' if rev else 'forward', ':step' if k else ''), text, call, ['i'], exp))
    # ---- C arrays
    for rev in (False, True):
        shapes = [('array', None, None, None)]
        for st in (None, ('c', 0), ('c', 2), ('sym', 2)):
            for sp in (('c', 9), ('sym', 9)):
                shapes.append(('slice', st, sp, None))
        for st, sp, k in ((('c', 0), ('c', 9), 1), (('c', 0), ('c', 9), 3), (('c', 2), ('sym', 9), 2), (None, ('c', 9), 3), (('c', 8), ('c', 1), -1), (('c', 8), ('c', 1), -3),
                          (('c', 8), None, -3), (('c', 8), None, -2), (('c', 5), None, -1), (('sym', 8), ('c', 1), -2)):
            shapes.append(('stepslice', st, sp, k))
        for kind, st, sp, k in shapes:
            def call(tr, kind=kind, st=st, sp=sp, k=k, rev=rev):
                def mk(x):
                    return None if x is None else (w.intnode(x[1]) if x[0] == 'c' else w.sym('v', x[1]))
                if kind == 'array':
                    arr = w.node('ExprNodes', 'NameNode', name='arr', entry=None, type=w.typ(is_array=True, size=7, base_type=w.typ(is_int=True)), **{'$ptr': True})
                    sl = arr
                else:
                    arr = w.node('ExprNodes', 'NameNode', name='arr', entry=None, type=w.typ(is_ptr=True, base_type=w.typ(is_int=True)), **{'$ptr': True})
                    if kind == 'slice':
                        sl = w.node('ExprNodes', 'SliceIndexNode', base=arr, start=mk(st), stop=mk(sp), type=w.typ(is_ptr=True))
                    else:
                        none = lambda: w.node('ExprNodes', 'NoneNode', constant_result=None)
                        idx = w.node('ExprNodes', 'SliceNode', start=mk(st) or none(), stop=mk(sp) or none(), step=w.intnode(k))
                        sl = w.node('ExprNodes', 'IndexNode', base=arr, index=idx, type=w.typ(is_ptr=True))
                node = w.loop(w.name('x', is_int=True), sl)
                return it.call(it.getattr(tr, '_transform_carray_iteration'), [node, sl], {'reversed': rev})
            if kind == 'array':
                idx = py_slice_indices(None, 7, None, rev)
                text = 'c_array[7]'
            else:
                idx = py_slice_indices(st[1] if st else None, sp[1] if sp else None, k, rev)
                text = 'p[%s:%s%s]' % ('' if st is None else st[1] if st[0] == 'c' else 'v%d' % st[1], '' if sp is None else sp[1] if sp[0] == 'c' else 'v%d' % sp[1], '' if k is None else ':%d' % k)
            exp = (lambda L, idx=idx: [('body', ('item', i)) for i in idx] + [('else',)])
            out.append(('carray:%s%s' % ('reversed' if rev else 'forward', ':step' if k else ''), ('reversed ' if rev else '') + text, call, ['x'], exp))
    # ---- str / bytes / bytearray / memoryview
    for rev in (False, True):
        def call_u(tr, rev=rev):
            s = w.node('ExprNodes', 'NameNode', name='s', entry=None, type=w.typ(is_pyobject=True, is_pystr_type=True), **{'$container': True})
            node = w.loop(w.name('c', is_int=True), s)
            return it.call(it.getattr(tr, '_transform_unicode_iteration'), [node, s], {'reversed': rev})

        def call_b(tr, rev=rev):
            s = w.node('ExprNodes', 'NameNode', name='b', entry=None, type=w.typ(is_pyobject=True, is_pybytes_type=True), **{'$container': True})
            node = w.loop(w.name('c', is_int=True), s)
            return it.call(it.getattr(tr, '_transform_bytes_iteration'), [node, s], {'reversed': rev})
        exp = (lambda L, rev=rev: [('body', ('item', i)) for i in (range(L - 1, -1, -1) if rev else range(L))] + [('else',)])
        out.append(('str:%s' % ('reversed' if rev else 'forward'), ('reversed ' if rev else '') + 'str', call_u, ['c'], exp))
        out.append(('bytes:%s' % ('reversed' if rev else 'forward'), ('reversed ' if rev else '') + 'bytes', call_b, ['c'], exp))
        for mut in (True, False):
            def call_i(tr, rev=rev, mut=mut):
                s = w.node('ExprNodes', 'NameNode', name='m', entry=None, type=w.typ(is_pyobject=mut, is_memoryviewslice=not mut), **{'$container': True})
                node = w.loop(w.name('c', is_int=True), s)
                return it.call(it.getattr(tr, '_transform_indexable_iteration'), [node, s], {'is_mutable': mut, 'reversed': rev})
            out.append(('%s:%s' % ('bytearray' if mut else 'memoryview', 'reversed' if rev else 'forward'), ('reversed ' if rev else '') + ('bytearray' if mut else 'memoryview'), call_i, ['c'], exp))
    # ---- enumerate
    for start in (None, ('c', 5), ('sym', 5)):
        def call_e(tr, start=start):
            seq = w.node('ExprNodes', 'NameNode', name='seq', entry=None, type=w.typ(is_pyobject=True), **{'$container': True})
            args = [seq] + ([w.intnode(start[1]) if start[0] == 'c' else w.sym('v', start[1])] if start else [])
            fn = w.node('ExprNodes', 'SimpleCallNode', function=w.name('enumerate'), args=None, arg_tuple=w.node('ExprNodes', 'TupleNode', args=args, mult_factor=None), self=None)
            tgt = w.node('ExprNodes', 'TupleNode', args=[w.name('i', is_int=True), w.name('x', is_pyobject=True)], mult_factor=None)
            node = w.loop(tgt, fn)
            return it.call(it.getattr(tr, '_transform_enumerate_iteration'), [node, fn], {})
        s0 = start[1] if start else 0
        exp = (lambda L, s0=s0: [('body', s0 + i, ('item', i)) for i in range(L)] + [('else',)])
        out.append(('enumerate', 'enumerate(seq%s)' % (', %s' % start[1] if start else ''), call_e, ['i', 'x'], exp))
    # ---- dict
    for method, keys, values, tshape in ((None, True, False, 'k'), ('keys', True, False, 'k'), ('values', False, True, 'v'), ('items', True, True, 'kv'), ('items', True, True, 't')):
        def call_d(tr, method=method, keys=keys, values=values, tshape=tshape):
            d = w.node('ExprNodes', 'NameNode', name='d', entry=None, type=w.typ(is_pyobject=True, is_pydict_type=True, is_pyanydict_type=True), **{'$container': True})
            if tshape == 'kv':
                tgt = w.node('ExprNodes', 'TupleNode', args=[w.name('k', is_pyobject=True), w.name('v', is_pyobject=True)], mult_factor=None)
            else:
                tgt = w.name('t', is_pyobject=True)
            if method is None:
                node = w.loop(tgt, d)
                return it.call(it.getattr(tr, '_optimise_for_loop'), [node, d], {})
            fn = w.node('ExprNodes', 'SimpleCallNode', function=w.node('ExprNodes', 'AttributeNode', obj=d, attribute=method, type=w.typ(is_pyobject=True)), args=[], arg_tuple=None, self=None,
                        type=w.typ(is_pyobject=True))
            node = w.loop(tgt, fn)
            return it.call(it.getattr(tr, '_optimise_for_loop'), [node, fn], {})
        if tshape == 'kv':
            exp = (lambda L: [('body', ('key', i), ('val', i)) for i in range(L)] + [('else',)])
            tg = ['k', 'v']
        else:
            wrap = {'k': lambda i: ('key', i), 'v': lambda i: ('val', i), 't': lambda i: ('pair', ('key', i), ('val', i))}[tshape]
            exp = (lambda L, wrap=wrap: [('body', wrap(i)) for i in range(L)] + [('else',)])
            tg = ['t']
        out.append(('dict:%s' % (method or 'plain'), 'for %s in d%s' % ('k, v' if tshape == 'kv' else 't', ('.%s()' % method) if method else ''), call_d, tg, exp))
    # ---- set
    def call_s(tr):
        s = w.node('ExprNodes', 'NameNode', name='s', entry=None, type=w.typ(is_pyobject=True, is_pyset_type=True, is_pyanyset_type=True), **{'$container': True})
        node = w.loop(w.name('x', is_pyobject=True), s)
        return it.call(it.getattr(tr, '_optimise_for_loop'), [node, s], {})
    out.append(('set', 'for x in s', call_s, ['x'], (lambda L: [('body', ('item', i)) for i in range(L)] + [('else',)])))
    return out




TREE_PENDING = ('carray:reversed:step',)


def rule_tree(ctx, part='main', floor=0):
    _bind21()
    """part 'main': every scenario class but reversed iteration over a stepped C array slice; part 'revstep': that class (pending finding)"""
    ix = ctx.index
    r = Rule('C14-TREE' if part == 'main' else 'C14-TREE-REVSTEP',
             'IterationTransform: for every abstract for-in statement of the family (range() with 1-3 arguments, constant and run-time bounds, steps of both signs, reversed(); C arrays and '
             'pointer slices; str, bytes, bytearray, memoryview; enumerate(); dict / .keys() / .values() / .items(); set) the loop the transform builds visits the items Python visits, in '
             'the same order, binds the targets to the same values and runs the else clause when the iterable is exhausted', floor)
    c = ix.cls('Optimize', 'IterationTransform')
    w = _TreeWorld(ix)
    worst = {}
    for key, text, call, targets, exp in tree_scenarios(w):
        if (key in TREE_PENDING) != (part != 'main'):
            continue
        w.it.steps = 0
        del w.errors[:]
        try:
            tree = call(w.transform())
        except Unmodelled as e:
            raise AnalysisError('%s: the interpreter of the checker cannot follow IterationTransform on `for ... in %s`: %s (%s)' % (r.id, text, e, getattr(e, 'where', '')))
        except PyRaise as e:
            raise AnalysisError('%s: IterationTransform raises %r on `for ... in %s` (%s)' % (r.id, e.value, text, getattr(e, 'where', '')))
        ck = 'Optimize.IterationTransform:%s' % key
        if w.errors or (isinstance(tree, Obj) and tree.cls.name == 'ForInStatNode' and '$marker' in getattr(w.it.getattr(tree, 'body'), 'attrs', {})):
            r.info('left to the generic iteration protocol: for ... in %s%s' % (text, ' (%s)' % w.errors[0] if w.errors else ''))
            continue
        r.inst(text, sample='for ... in %s' % text)
        for L in (0, 1, 3):
            try:
                got = loop_simulate(w, tree, L, targets)
            except Unmodelled as e:
                raise AnalysisError('%s: the loop built for `for ... in %s` contains a construct the simulation does not know: %s' % (r.id, text, e))
            want = exp(L)
            if got != want:
                if ck not in worst or len(text) < len(worst[ck][0]):
                    worst[ck] = (text, L, got, want)
                break

    def fmt(tr):
        return ' '.join('else' if t == ('else',) else t[0] if len(t) == 1 else '%s(%s)' % (t[0], ', '.join(map(_fmt_val, t[1:]))) for t in tr) or '(nothing)'
    for ck, (text, L, got, want) in sorted(worst.items()):
        r.violate(ck, c.module.rel, c.node.lineno, 'the loop IterationTransform builds for `for ... in %s` (abstract container of %d item(s)) runs [%s]; the Python loop runs [%s]: '
                  'different iterations / target values / else clause' % (text, L, fmt(got), fmt(want)))
    r.positive_control(_LoopSim.num(('ptr', 3)) == 3 and py_slice_indices(0, 9, 3, True) == [6, 3, 0], 'reference of reversed(a[0:9:3])')
    return r


def _fmt_val(v):
    if isinstance(v, tuple):
        if v[0] == 'item':
            return 'item[%s]' % v[1]
        if v[0] in ('key', 'val'):
            return '%s[%s]' % (v[0], v[1])
        if v[0] == 'pair':
            return '(%s)' % ', '.join(map(_fmt_val, v[1:]))
    return str(v)


# ================================================================================================================ C14-CURSOR / C14-LEN
# The C side of container iteration.  CURSOR: a helper that walks a sized sequence with a cursor (`pos = *ppos; ... item = GET_ITEM(seq, pos); *ppos = pos + 1`)
# stops exactly when the cursor reaches the size and advances the stored cursor by exactly one per item.  LEN: a helper that hands out the container itself for
# PyDict_Next / _PySet_NextEntry style iteration remembers the container's current size in *p_orig_length (the value the "changed size during iteration" test of
# C14-S2 compares with), not a constant.
from ..engine import cguard as _cguard
from ..engine.cutil import strip_c_comments as _strip_c

_ITEM_READ = re.compile(r'\b(Py(?:Tuple|List)_(?:GET_ITEM|GetItem(?:Ref)?)|__Pyx_Py(?:Tuple|List)_GET_ITEM(?:_REF)?|__Pyx_PyList_GetItemRef\w*|PySequence_ITEM|__Pyx_PySequence_ITEM)\s*\(\s*(\w+)\s*,\s*(\w+)\s*[,)]')
_SIZE_OF = re.compile(r'\b(\w+)\s*=\s*(?:__Pyx_)?Py(?:Tuple|List|Sequence)_(?:GET_SIZE|Size)\s*\(\s*(\w+)\s*\)')


def _unpp(body):
    """drop preprocessor lines (both arms of every #if stay: each statement is analysed in its enclosing C blocks)"""
    return '\n'.join('' if ln.lstrip().startswith('#') else ln for ln in body.split('\n'))


def cursor_problems(body):
    """-> [(instance text, problem or None)] for every cursor-indexed item read of one C function body"""
    body = _unpp(_strip_c(body))
    out = []
    for m in _ITEM_READ.finditer(body):
        seq, idx = m.group(2), m.group(3)
        doms = _cguard.dominators(body, m.start())
        text = '%s(%s, %s)' % (m.group(1), seq, idx)
        # the cursor comes from a pointer parameter:  idx = *P
        src = [re.match(r'(?:[\w\s]*\s)?%s\s*=\s*\*\s*(\w+)\s*;' % re.escape(idx), d.strip()) for d in doms]
        src = [x.group(1) for x in src if x]
        if not src:
            continue            # not a cursor walk (constant / loop index)
        sizes = [x.group(1) for d in doms for x in [_SIZE_OF.search(d)] if x and x.group(2) == seq]
        prob = None
        guard_ok = False
        for d in doms:
            g = re.match(r'if\s*\((.*)\)\s*(?:\{\s*)?return\s+0\s*;', ' '.join(d.split()))
            if not g or idx not in re.findall(r'\w+', g.group(1)):
                continue
            try:
                tree = cexpr.parse(g.group(1))
            except cexpr.ParseError:
                continue
            names = {x[1] for x in cexpr.walk(tree) if x[0] == 'id'} - {idx}
            sz = [n for n in names if n in sizes]
            if len(sz) != 1:
                continue
            try:
                table = [bool(cexpr.evaluate(tree, {idx: i, sz[0]: 5})) for i in (4, 5, 6)]
            except cexpr.EvalError:
                continue
            guard_ok = True
            if table != [False, True, True]:
                prob = ('the exhaustion test `%s` in front of %s is %s for cursor = size-1 / size / size+1; it has to let size-1 pass and stop at size: %s'
                        % (g.group(1), text, table, 'an item past the end is read' if not table[1] else 'the last item is skipped'))
        if not guard_ok and prob is None:
            prob = 'no test `cursor >= size -> return 0` dominates %s: the walk reads past the end of the sequence' % text
        adv = [re.match(r'\*\s*%s\s*=\s*(.*);' % re.escape(src[0]), ' '.join(d.split())) for d in doms]
        adv = [a.group(1) for a in adv if a]
        if prob is None:
            ok = False
            for a in adv:
                try:
                    if cexpr.evaluate(cexpr.parse(a), {idx: 7}) == 8:
                        ok = True
                except (cexpr.ParseError, cexpr.EvalError):
                    pass
            if not ok:
                prob = 'the stored cursor *%s is not advanced to %s + 1 before %s (%s): the same item is delivered again / items are skipped' % (
                    src[0], idx, text, ('it is set to `%s`' % adv[-1]) if adv else 'it is never written')
        out.append((text, prob))
    return out


def rule_cursor(ctx, funcs, floor=2):
    r = Rule('C14-CURSOR', 'C iteration helpers that walk a tuple/list with a stored cursor stop exactly at the size of the sequence and advance the cursor by one per item', floor)
    for d in funcs:
        seen = {}
        for text, prob in cursor_problems(d.body or ''):
            i = seen[text] = seen.get(text, -1) + 1
            key = '%s:%s%s' % (d.name, text, '#%d' % i if i else '')
            r.inst(key, sample=key)
            if prob:
                r.violate(key, 'Cython/Utility/' + d.file, d.line, '%s: %s' % (d.name, prob))
    pc = 'Py_ssize_t pos = *ppos;\nPy_ssize_t n = PyTuple_GET_SIZE(t);\nif (unlikely(pos > n)) return 0;\n*ppos = pos + 1;\nitem = PyTuple_GET_ITEM(t, pos);\n'
    r.positive_control(any(p for _, p in cursor_problems(pc)), '`pos > size` as exhaustion test')
    return r


def len_problems(body, params):
    """-> [(instance, problem or None)]: every `return <container parameter>;` of an iterator set-up helper"""
    body = _unpp(_strip_c(body))
    out = []
    plen = [p for p in params if p and re.search(r'orig_length|length', p)]
    if not plen:
        return out
    for m in re.finditer(r'\breturn\s+(\w+)\s*;', body):
        obj = m.group(1)
        if obj not in params:
            continue
        doms = _cguard.dominators(body, m.start())
        if not any(re.match(r'Py_INCREF\s*\(\s*%s\s*\)' % re.escape(obj), d.strip()) or re.match(r'__Pyx_INCREF\s*\(\s*%s\s*\)' % re.escape(obj), d.strip()) for d in doms):
            continue            # a converted object (result of a call assigned to the parameter), not the container itself
        w = [re.match(r'\*\s*%s\s*=\s*(.*);' % re.escape(plen[0]), ' '.join(d.split())) for d in doms]
        w = [x.group(1) for x in w if x]
        text = 'return %s' % obj
        if not w:
            out.append((text, 'the container itself is handed out for in-place iteration but *%s is not set on this path' % plen[0]))
        elif not re.match(r'(?:__Pyx_)?Py\w+_(?:Size|GET_SIZE)\s*\(\s*%s\s*\)$' % re.escape(obj), w[-1]):
            out.append((text, 'the container itself is handed out for in-place iteration with *%s = %s instead of its current size: the "changed size during iteration" test '
                        'compares with a wrong length (raises RuntimeError for an unchanged container / misses a change)' % (plen[0], w[-1])))
        else:
            out.append((text, None))
    return out


def rule_len(ctx, funcs, floor=2):
    r = Rule('C14-LEN', 'iterator set-up helpers that hand out the dict/set itself remember its current size in *p_orig_length', floor)
    for d in funcs:
        names = d.param_names() if d.params is not None else []
        for i, (text, prob) in enumerate(len_problems(d.body or '', names)):
            key = '%s:%s#%d' % (d.name, text, i)
            r.inst(key, sample=key)
            if prob:
                r.violate(key, 'Cython/Utility/' + d.file, d.line, '%s: %s' % (d.name, prob))
    pc = 'if (is_dict) {\n*p_orig_length = 0;\nPy_INCREF(iterable);\nreturn iterable;\n}\n'
    r.positive_control(any(p for _, p in len_problems(pc, ['iterable', 'is_dict', 'p_orig_length'])), 'constant stored as original length')
    return r


# ================================================================================================================ C14-KV
# Which output of the dict-iteration helper is the key, which the value, which the item tuple - agreed between three places:
#   C:      __Pyx_dict_iter_next_source_is_dict stores the key PyDict_Next delivers through one parameter, the value through another, the 2-tuple through a third;
#           __Pyx_dict_iter_next forwards its parameters to it and unpacks an item of a non-dict mapping into (key parameter, value parameter) in that order;
#   Python: DictIterationNextNode.generate_execution_code passes the address of the temporary it later assigns to key_target / value_target / tuple_target at exactly
#           that parameter position (NULL where the target is absent).  The emitted call is obtained by interpreting the method (sC21.MiniPy) with a recording code writer.
def kv_c_roles(funcs):
    """-> ({role: parameter index of the emitted helper}, helper name, problems)"""
    by_name = {d.name: d for d in funcs}
    inner = None
    for d in funcs:
        m = re.search(r'\bPyDict_Next\s*\(\s*\w+\s*,\s*\w+\s*,\s*&\s*(\w+)\s*,\s*&\s*(\w+)\s*\)', _strip_c(d.body or ''))
        if m:
            inner, kvar, vvar = d, m.group(1), m.group(2)
    if inner is None:
        raise AnalysisError('no iteration helper calls PyDict_Next(dict, ppos, &key, &value)')
    body = _unpp(_strip_c(inner.body))
    roles = {}
    for p, v in re.findall(r'\*\s*(\w+)\s*=\s*(\w+)\s*;', body):
        if v == kvar:
            roles.setdefault('key', set()).add(p)
        elif v == vvar:
            roles.setdefault('value', set()).add(p)
        elif re.search(r'\b%s\s*=\s*PyTuple_New\s*\(\s*2\s*\)' % re.escape(v), body):
            roles.setdefault('item', set()).add(p)
    probs = []
    for role in ('key', 'value', 'item'):
        if len(roles.get(role, ())) != 1:
            raise AnalysisError('%s: the parameter that receives the %s is not unique (%s)' % (inner.name, role, sorted(roles.get(role, ()))))
    if len({next(iter(v)) for v in roles.values()}) != 3:
        probs.append('%s stores two of key / value / item tuple through the same parameter' % inner.name)
    inner_pos = {role: inner.param_names().index(next(iter(ps))) for role, ps in roles.items()}
    # the emitted helper forwards to the inner one
    outer = None
    for d in funcs:
        if d is inner:
            continue
        m = re.search(r'\b%s\s*\(([^;]*)\)\s*;' % re.escape(inner.name), _unpp(_strip_c(d.body or '')))
        if m:
            outer, fargs = d, [a.strip() for a in m.group(1).split(',')]
    if outer is None:
        raise AnalysisError('no helper forwards to %s' % inner.name)
    onames = outer.param_names()
    opos = {}
    for role, i in inner_pos.items():
        if i >= len(fargs) or fargs[i] not in onames:
            raise AnalysisError('%s: cannot follow argument %d of the call to %s' % (outer.name, i, inner.name))
        opos[role] = onames.index(fargs[i])
    m = re.search(r'\b__Pyx_unpack_tuple2\s*\(\s*\w+\s*,\s*(\w+)\s*,\s*(\w+)\s*,', _unpp(_strip_c(outer.body)))
    if m:
        if [m.group(1), m.group(2)] != [onames[opos['key']], onames[opos['value']]]:
            probs.append('%s unpacks an item tuple into (%s, %s); the first element of an item is the key and belongs into %s, the second into %s' % (
                outer.name, m.group(1), m.group(2), onames[opos['key']], onames[opos['value']]))
    return opos, outer, probs


def _recorder_world(ix):
    """MiniPy with a recording code writer and operand stubs that answer every generate_* / allocate / release request"""
    _bind21()
    events = []
    none = lambda it, self, *a, **k: None

    def leaf_default(o, name):
        if name in ('result', 'py_result'):
            return HostFn(lambda it: o.attrs['$tag'], name)
        if name.startswith('generate_') or name in ('allocate', 'release', 'free_temps', 'make_owned_reference'):
            def rec(it, *a, **k):
                events.append((name, o.attrs['$tag']) + tuple(x.attrs.get('$tag') for x in a if isinstance(x, Obj) and '$tag' in x.attrs))
            return HostFn(rec, name)
        if name.startswith('is_'):
            return False
        raise AttributeError(name)
    Leaf = StubClass('OperandStub', default=leaf_default)
    n = [0]

    def allocate_temp(it, self, *a, **k):
        n[0] += 1
        return 'tmp%d' % n[0]

    def any_default(o, name):
        if name.startswith('__'):
            raise AttributeError(name)
        return Obj(o.cls, {'$tag': name})
    Any = StubClass('AnyStub', default=any_default, methods={'__call__': lambda it, self, *a, **k: Obj(self.cls, {'$tag': 'call'})})
    FuncState = StubClass('FuncStateStub', methods=dict(allocate_temp=allocate_temp, release_temp=none))
    Code = StubClass('CodeStub', methods=dict(putln=lambda it, self, text='', *a, **k: events.append(('line', text)), put=lambda it, self, text='', *a, **k: events.append(('line', text)),
                                               mark_pos=none, error_goto_if=lambda it, self, cond, pos: 'if (%s) goto error;' % cond,
                                               error_goto_if_neg=lambda it, self, v, pos: 'if (%s < 0) goto error;' % v, error_goto_if_null=lambda it, self, v, pos: 'if (!%s) goto error;' % v,
                                               error_goto=lambda it, self, pos: 'goto error;', put_gotref=none, put_label=lambda it, self, l: events.append(('label', l)),
                                               put_goto=lambda it, self, l: events.append(('goto', l)), new_label=lambda it, self, name=None: 'L_%s' % name))
    TypeStub = StubClass('TypeStub', default=lambda o, name: False if name.startswith('is_') else (_ for _ in ()).throw(AttributeError(name)))
    anyf = {'*': lambda name: Obj(Any, {'$tag': name})}
    it = MiniPy(ix, stub_modules={'PyrexTypes': {'*': lambda name: Obj(TypeStub, {'$tag': name})}, 'Builtin': {'*': lambda name: Obj(TypeStub, {'$tag': name})}, 'Code': anyf,
                                  'Nodes': {'UtilityCode': Obj(Any, {'$tag': 'UtilityCode'})}, 'ExprNodes': {'UtilityCode': Obj(Any, {'$tag': 'UtilityCode'})}})

    def code():
        return Obj(Code, dict(funcstate=Obj(FuncState), globalstate=Obj(Any, {'$tag': 'globalstate'})))
    return it, events, Leaf, code, TypeStub


def _split_args(s):
    out, depth, cur = [], 0, ''
    for ch in s:
        if ch == ',' and depth == 0:
            out.append(cur.strip())
            cur = ''
            continue
        depth += ch in '([{'
        depth -= ch in ')]}'
        cur += ch
    out.append(cur.strip())
    return out


def rule_kv(ctx, funcs, floor=4):
    ix = ctx.index
    r = Rule('C14-KV', 'dict iteration: the temporaries DictIterationNextNode assigns to the key / value / item targets are passed at the helper parameters through which the C helper '
             'stores the key / value / item tuple of PyDict_Next; items of non-dict mappings are unpacked into (key, value)', floor)
    opos, outer, cprobs = kv_c_roles(funcs)
    key0 = '%s:key-value-item-parameters' % outer.name
    r.inst(key0, sample='%s: key -> parameter %d, value -> %d, item -> %d' % (outer.name, opos['key'], opos['value'], opos['item']))
    for p in cprobs:
        r.violate(key0, 'Cython/Utility/' + outer.file, outer.line, p + ': `for k, v in mapping.items()` binds the value to k and the key to v')
    c = ix.cls('Nodes', 'DictIterationNextNode')
    fn = c.methods.get('generate_execution_code')
    if fn is None:
        raise AnalysisError('DictIterationNextNode.generate_execution_code vanished')
    it, events, Leaf, mkcode, TypeStub = _recorder_world(ix)
    roles = {'key': ('key_ref', 'coerced_key_var', 'key_target'), 'value': ('value_ref', 'coerced_value_var', 'value_target'), 'item': ('tuple_ref', 'coerced_tuple_var', 'tuple_target')}
    for present in (('key',), ('value',), ('key', 'value'), ('item',)):
        del events[:]
        it.steps = 0
        attrs = dict(pos=('scenario.py', 1, 0), dict_obj=Obj(Leaf, {'$tag': 'DICT'}), expected_size=Obj(Leaf, {'$tag': 'SIZE'}), pos_index_var=Obj(Leaf, {'$tag': 'POS'}),
                     is_dict_flag=Obj(Leaf, {'$tag': 'ISDICT'}))
        for role, (ref, co, tg) in roles.items():
            on = role in present
            attrs[ref] = Obj(Leaf, {'$tag': 'REF_%s' % role}) if on else None
            attrs[co] = Obj(Leaf, {'$tag': 'CO_%s' % role}) if on else None
            attrs[tg] = Obj(Leaf, {'$tag': 'TARGET_%s' % role}) if on else None
        node = Obj(it.cls('Nodes', 'DictIterationNextNode'), attrs)
        key = 'Nodes.DictIterationNextNode.generate_execution_code:targets=%s' % '+'.join(present)
        try:
            it.call(it.getattr(node, 'generate_execution_code'), [mkcode()], {})
        except Unmodelled as e:
            raise AnalysisError('C14-KV: the interpreter of the checker cannot follow DictIterationNextNode.generate_execution_code: %s (%s)' % (e, getattr(e, 'where', '')))
        except PyRaise as e:
            raise AnalysisError('C14-KV: DictIterationNextNode.generate_execution_code raises %r (%s)' % (e.value, getattr(e, 'where', '')))
        calls = [re.search(r'\b%s\s*\((.*)\)\s*;' % re.escape(outer.name), ev[1]) for ev in events if ev[0] == 'line' and isinstance(ev[1], str)]
        calls = [m for m in calls if m]
        if len(calls) != 1:
            raise AnalysisError('C14-KV: %d calls of %s emitted by DictIterationNextNode' % (len(calls), outer.name))
        args = _split_args(calls[0].group(1))
        r.inst(key, sample='%s: %s(%s)' % (key, outer.name, ', '.join(args)))
        for role in ('key', 'value', 'item'):
            want = '&REF_%s' % role if role in present else 'NULL'
            got = args[opos[role]].replace(' ', '') if opos[role] < len(args) else '<missing>'
            if got != want:
                r.violate(key, c.module.rel, fn.lineno, 'DictIterationNextNode passes %s at parameter %d (%s) of %s, through which the helper stores the %s; the node assigns the %s target '
                          'from %s: keys, values and item tuples are mixed up' % (got, opos[role], outer.param_names()[opos[role]], outer.name, role, role,
                                                                                'REF_%s' % role if role in present else 'nothing (the parameter must be NULL)'))
                break
        # the temporaries are assigned to the targets of the same role
        pairs = [(e[1], e[2]) for e in events if e[0] == 'generate_assignment_code' and len(e) > 2]
        want_pairs = [('TARGET_%s' % role, 'CO_%s' % role) for role in ('key', 'value', 'item') if role in present]
        if sorted(pairs) != sorted(want_pairs):
            r.violate(key + ':assign', c.module.rel, fn.lineno, 'DictIterationNextNode assigns %s; expected %s' % (pairs, want_pairs))
    r.positive_control(_split_args('a, f(b, c), &d') == ['a', 'f(b, c)', '&d'], 'argument splitting')
    return r


# ================================================================================================================ C14-ITER
# IteratorNode: the C code emitted for iterating an exact list / tuple (forward and for reversed()).  The emitter (generate_result_code + generate_iter_next_result_code) is
# interpreted with a recording code writer; the emitted statements (counter initialisation, exhaustion tests, item read, counter update) are executed by a small evaluator
# of exactly these statement shapes for sequence lengths 0, 1 and 3: the indices read must be 0..len-1 (len-1..0 for reversed()), each inside the sequence.
_IT_ASSIGN_SIZE = re.compile(r'^(?:Py_ssize_t\s+)?(\w+)\s*=\s*(?:__Pyx_)?Py(?:List|Tuple)_GET_SIZE\s*\(')
_IT_ASSIGN_CONST = re.compile(r'^(?:Py_ssize_t\s+)?(\w+)\s*=\s*(-?\d+)\s*;')
_IT_INCDEC = re.compile(r'^(\+\+|--)\s*(\w+)\s*;|^(\w+)\s*(\+\+|--)\s*;')
_IT_BREAK = re.compile(r'^if\s*\(\s*(?:unlikely\s*\()?\s*(\w+)\s*(<=|>=|<|>|==|!=)\s*(-?\w+)\s*\)?\s*\)\s*break\s*;')
_IT_READ = re.compile(r'^(\w+)\s*=\s*(?:__Pyx_NewRef\s*\(\s*)?(?:__Pyx_)?Py(?:List|Tuple|Sequence)_(?:GET_ITEM(?:_REF)?|ITEM|GetItem\w*)\s*\(\s*\w+\s*,\s*(\w+)')


def _c_lines(events):
    """emitted text -> C statements of the first preprocessor configuration (the #else arms are alternatives of the same statement)"""
    out, skip = [], []
    text = '\n'.join(e[1] for e in events if e[0] == 'line' and isinstance(e[1], str))
    for ln in text.split('\n'):
        s = ln.strip()
        if s.startswith('#if'):
            skip.append(False)
        elif s.startswith('#else') or s.startswith('#elif'):
            if skip:
                skip[-1] = True
        elif s.startswith('#endif'):
            if skip:
                skip.pop()
        elif s and not any(skip):
            for part in re.split(r'(?<=;)\s+(?=\S)', s):
                out.append(part.strip())
    return out


def iter_simulate(init, nxt, L):
    _bind21()
    """-> list of indices read / problem strings"""
    env, trace = {}, []

    def val(tok):
        if re.fullmatch(r'-?\d+', tok):
            return int(tok)
        if tok not in env:
            raise Unmodelled('the emitted code reads %s before setting it' % tok)
        return env[tok]

    def run(lines):
        for s in lines:
            m = _IT_ASSIGN_SIZE.match(s)
            if m:
                env[m.group(1)] = L
                continue
            m = _IT_ASSIGN_CONST.match(s)
            if m:
                env[m.group(1)] = int(m.group(2))
                continue
            m = _IT_INCDEC.match(s)
            if m:
                op, name = (m.group(1), m.group(2)) if m.group(1) else (m.group(4), m.group(3))
                env[name] = val(name) + (1 if op == '++' else -1)
                continue
            m = _IT_BREAK.match(s)
            if m:
                a, b = val(m.group(1)), val(m.group(3))
                if {'<': a < b, '<=': a <= b, '>': a > b, '>=': a >= b, '==': a == b, '!=': a != b}[m.group(2)]:
                    return 'break'
                continue
            m = _IT_READ.match(s)
            if m:
                i = val(m.group(2))
                trace.append(i if 0 <= i < L else 'item [%d] read outside the sequence of %d' % (i, L))
                continue
            if re.search(r'\bbreak\b', s) or (re.search(r'\b(?:%s)\b' % '|'.join(map(re.escape, env)), s) and re.search(r'(?<![=!<>])=(?!=)|\+\+|--', s) if env else False):
                raise Unmodelled('emitted statement %r' % s)
        return None
    run(init)
    for _ in range(L + 3):
        if run(nxt) == 'break':
            return trace
        if trace and isinstance(trace[-1], str):
            return trace
    trace.append('the loop does not stop after %d items' % (L + 3))
    return trace


def rule_iter(ctx, floor=4):
    ix = ctx.index
    r = Rule('C14-ITER', 'IteratorNode: the C code emitted for iterating an exact list / tuple, forward and reversed(), reads the items 0..len-1 (len-1..0) and nothing else', floor)
    c = ix.cls('ExprNodes', 'IteratorNode')
    for need in ('generate_result_code', 'generate_iter_next_result_code'):
        if ix.find_method(c, need) is None:
            raise AnalysisError('IteratorNode.%s vanished' % need)
    it, events, Leaf, mkcode, TypeStub = _recorder_world(ix)
    it.family_overrides.update({('ExprNode', 'result'): lambda it_, self: 'RES', ('ExprNode', 'py_result'): lambda it_, self: 'RES',
                                ('ExprNode', 'generate_gotref'): lambda it_, self, *a, **k: None, ('IteratorNode', 'may_be_unsafe_shared'): lambda it_, self: 'SHARED'})
    it._fc.clear()
    for kind in ('list', 'tuple'):
        for rev in (False, True):
            del events[:]
            it.steps = 0
            seq = Obj(Leaf, {'$tag': 'SEQ', 'type': Obj(TypeStub, {'is_py%s_type' % kind: True, 'is_builtin_type': True, 'is_pyobject': True}), 'mult_factor': None})
            node = Obj(it.cls('ExprNodes', 'IteratorNode'), dict(pos=('scenario.py', 1, 0), sequence=seq, reversed=rev, type=Obj(TypeStub, {'is_pyobject': True}),
                                                               counter_cname=None, iter_func_ptr=None, may_be_a_sequence=False))
            key = 'ExprNodes.IteratorNode:%s%s' % (kind, ':reversed' if rev else '')
            code = mkcode()
            try:
                it.call(it.getattr(node, 'generate_result_code'), [code], {})
                init = _c_lines(events)
                del events[:]
                it.call(it.getattr(node, 'generate_iter_next_result_code'), ['ITEM', code], {})
                nxt = _c_lines(events)
            except Unmodelled as e:
                raise AnalysisError('C14-ITER: the interpreter of the checker cannot follow IteratorNode on %s: %s (%s)' % (key, e, getattr(e, 'where', '')))
            except PyRaise as e:
                raise AnalysisError('C14-ITER: IteratorNode raises %r on %s (%s)' % (e.value, key, getattr(e, 'where', '')))
            r.inst(key, sample='%s: init [%s] next [%s]' % (key, ' '.join(init)[:120], ' '.join(nxt)[:200]))
            for L in (0, 1, 3):
                try:
                    got = iter_simulate(init, nxt, L)
                except Unmodelled as e:
                    raise AnalysisError('C14-ITER: %s: %s' % (key, e))
                want = list(range(L - 1, -1, -1)) if rev else list(range(L))
                if got != want:
                    r.violate(key, c.module.rel, c.node.lineno, 'the C loop IteratorNode emits for %s%s of %d item(s) reads %s; Python iterates the indices %s' % (
                        'reversed ' if rev else '', kind, L, got, want))
                    break
    r.positive_control(iter_simulate(['c = __Pyx_PyList_GET_SIZE(RES);'], ['if (c < 0) break;', 'ITEM = __Pyx_PyList_GET_ITEM_REF(RES, c, 0);', '--c;'], 1) != [0],
                       'reversed iteration that starts at len instead of len-1')
    return r
