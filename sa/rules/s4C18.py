"""Fourth-round strengthening rules for C18 (string formatting): the C helpers behind C-level number formatting and f-string joining.

The rules in this file decide *layout* and *table* obligations of the helpers by abstract interpretation with an interpreter that belongs to the
checker (no repository code is compiled or run):

  * integers are linear forms over symbols (n = number of digits produced, ...) with known lower bounds; a comparison is decided only when it has the
    same truth value for every admissible value of the symbols, otherwise the run stops with ANALYSIS-ERROR;
  * character buffers are piece lists  [(length, content)]  with symbolic lengths: constant fill, the opaque digit run DIGITS(n), uninitialised;
    stores, memset/memcpy and counted loops with a symbolic trip count are splices;
  * the cases enumerated per rule are the complete partitions induced by the comparisons of the analysed code (sign classes of the value, width
    classes relative to the digit count, the two padding characters, or-combinations of string kinds ...).

C18-DIGITS   the digit loop of __Pyx__{{TO_PY_FUNCTION}}: per format character the modulus, the divisor, the number of characters written, the table
             stride and the leading-zero test belong to one base and group size; the digit tables contain the numerals; the stack buffer holds the
             longest text of every integer width.
C18-LAYOUT   sign, width and padding: the text assembled by the tail of __Pyx__{{TO_PY_FUNCTION}} + __Pyx_PyUnicode_BuildFromAscii (both #if branches)
             is format()'s layout for right-aligned space padding / sign-aware zero padding, for every class of (signedness, value sign, width, digits).
C18-CHRFMT   the 'c' path: range check of __Pyx_uchar_{{TO_PY_FUNCTION}} as a truth table over value classes x type widths; layout, buffer bounds and
             UTF-8 bit slicing of __Pyx_PyUnicode_FromOrdinal_Padded.
C18-JOINC    __Pyx_PyUnicode_Join: for every or-combination of substring kinds the allocated kind, the character size used for copying and the
             max_char table agree; copies are scaled by the character size; the write position advances by the substring length on every path.
"""
import ast, re

from ..core import Rule, AnalysisError
from ..engine import cexpr
from ..engine.cutil import strip_c_comments, split_args, match_paren


# ====================================================================================================== C front end (statements)
class St:
    """kind: block if for while do switch return break continue goto label decl expr case default"""
    __slots__ = ('kind', 'a', 'b', 'c', 'd', 'pos')

    def __init__(self, kind, a=None, b=None, c=None, d=None, pos=0):
        self.kind, self.a, self.b, self.c, self.d, self.pos = kind, a, b, c, d, pos

    def __repr__(self):
        return 'St(%s, %r)' % (self.kind, self.a if not isinstance(self.a, list) else '[..%d]' % len(self.a))


class CParseError(Exception):
    pass


def preprocess(text, chooser):
    """Comments removed, continuation lines joined, #if/#ifdef/#else/#elif/#endif resolved with chooser(condition text) -> bool,
    all other directive lines dropped."""
    text = strip_c_comments(text).replace('\\\n', ' ')
    out = []
    stack = []          # [taken_now, any_taken_before, parent_active]
    for ln in text.split('\n'):
        m = re.match(r'^[ \t]*#[ \t]*(\w+)\b(.*)$', ln)
        active = all(s[0] for s in stack)
        if not m:
            out.append(ln if active else '')
            continue
        d, rest = m.group(1), m.group(2).strip()
        if d in ('if', 'ifdef', 'ifndef'):
            cond = rest if d == 'if' else ('defined(%s)' % rest if d == 'ifdef' else '!defined(%s)' % rest)
            v = bool(chooser(cond)) if active else False
            stack.append([v, v, active])
        elif d == 'elif':
            if not stack:
                raise CParseError('#elif without #if')
            s = stack[-1]
            v = (not s[1]) and s[2] and bool(chooser(rest))
            s[0] = v
            s[1] = s[1] or v
        elif d == 'else':
            if not stack:
                raise CParseError('#else without #if')
            s = stack[-1]
            s[0] = (not s[1]) and s[2]
            s[1] = True
        elif d == 'endif':
            if not stack:
                raise CParseError('#endif without #if')
            stack.pop()
        out.append('')
    if stack:
        raise CParseError('unterminated #if')
    return '\n'.join(out)


def find_function(text, name):
    """-> (parameter list text, body text without the outer braces) of the definition of `name` in preprocessed text"""
    for m in re.finditer(r'\b%s\s*\(' % re.escape(name), text):
        rp = match_paren(text, m.end() - 1)
        if rp < 0:
            continue
        j = rp + 1
        while j < len(text) and text[j] in ' \t\r\n':
            j += 1
        if j < len(text) and text[j] == '{':
            e = _match(text, j, '{', '}')
            return text[m.end():rp], text[j + 1:e]
    return None


def _match(s, i, o, c):
    depth = 0
    j = i
    while j < len(s):
        ch = s[j]
        if ch == '"':
            j = _skip_str(s, j)
            continue
        if ch == "'":
            k = j + 1
            while k < len(s) and s[k] != "'":
                k += 2 if s[k] == '\\' else 1
            j = k + 1
            continue
        if ch == o:
            depth += 1
        elif ch == c:
            depth -= 1
            if depth == 0:
                return j
        j += 1
    raise CParseError('unbalanced %s' % o)


def _skip_str(s, j):
    k = j + 1
    while k < len(s) and s[k] != '"':
        k += 2 if s[k] == '\\' else 1
    return k + 1


def _stmt_end(s, i):
    """index of the ';' ending the simple statement that starts at i (skipping (), [], {} and literals)"""
    j = i
    while j < len(s):
        ch = s[j]
        if ch == '"':
            j = _skip_str(s, j)
            continue
        if ch == "'":
            k = j + 1
            while k < len(s) and s[k] != "'":
                k += 2 if s[k] == '\\' else 1
            j = k + 1
            continue
        if ch in '([{':
            j = _match(s, j, ch, {'(': ')', '[': ']', '{': '}'}[ch]) + 1
            continue
        if ch == ';':
            return j
        j += 1
    raise CParseError('statement without ; near %r' % s[i:i + 40])


_KW = re.compile(r'(if|for|while|do|switch|return|break|continue|goto|else|case|default)\b')
_DECL = re.compile(r'^((?:(?:static|const|unsigned|signed|register|volatile)\s+)*'
                   r'(?:char|int|long|short|void|double|float|size_t|Py_ssize_t|Py_UCS4|Py_UCS2|Py_UCS1|Py_hash_t|PyObject|_PyUnicodeWriter|\{\{\s*\w+\s*\}\}|\w+_t)'
                   r'(?:\s+(?:const|long|int))*)(?=[\s*])\s*(.*)$', re.S)


class CParser:
    def __init__(self, text):
        self.s = text
        self.i = 0

    def ws(self):
        while self.i < len(self.s) and self.s[self.i] in ' \t\r\n':
            self.i += 1

    def block_items(self, end):
        out = []
        while True:
            self.ws()
            if self.i >= end:
                return out
            out.append(self.stmt())

    def paren(self):
        self.ws()
        if self.s[self.i] != '(':
            raise CParseError('expected ( near %r' % self.s[self.i:self.i + 30])
        e = _match(self.s, self.i, '(', ')')
        t = self.s[self.i + 1:e]
        self.i = e + 1
        return t.strip()

    def stmt(self):
        self.ws()
        s, i = self.s, self.i
        if s[i] == '{' and not s.startswith('{{', i):
            e = _match(s, i, '{', '}')
            self.i = i + 1
            items = self.block_items(e)
            self.i = e + 1
            return St('block', items, pos=i)
        if s[i] == ';':
            self.i = i + 1
            return St('block', [], pos=i)
        m = _KW.match(s, i)
        if m:
            kw = m.group(1)
            self.i = m.end()
            if kw == 'if':
                cond = self.paren()
                then = self.stmt()
                self.ws()
                save = self.i
                m2 = _KW.match(s, self.i)
                if m2 and m2.group(1) == 'else':
                    self.i = m2.end()
                    return St('if', cond, then, self.stmt(), pos=i)
                self.i = save
                return St('if', cond, then, None, pos=i)
            if kw == 'for':
                head = self.paren()
                parts = [p.strip() for p in _split_top(head, ';')]
                if len(parts) != 3:
                    raise CParseError('for header %r' % head)
                return St('for', parts[0], parts[1], parts[2], self.stmt(), pos=i)
            if kw == 'while':
                cond = self.paren()
                return St('while', cond, self.stmt(), pos=i)
            if kw == 'do':
                body = self.stmt()
                self.ws()
                m2 = _KW.match(s, self.i)
                if not m2 or m2.group(1) != 'while':
                    raise CParseError('do without while')
                self.i = m2.end()
                cond = self.paren()
                self.ws()
                if s[self.i] != ';':
                    raise CParseError('do-while without ;')
                self.i += 1
                return St('do', body, cond, pos=i)
            if kw == 'switch':
                e = self.paren()
                return St('switch', e, self.stmt(), pos=i)
            if kw in ('return', 'goto'):
                e = _stmt_end(s, self.i)
                t = s[self.i:e].strip()
                self.i = e + 1
                return St(kw, t, pos=i)
            if kw in ('break', 'continue'):
                e = _stmt_end(s, self.i)
                self.i = e + 1
                return St(kw, pos=i)
            if kw == 'case':
                e = s.index(':', self.i)
                t = s[self.i:e].strip()
                self.i = e + 1
                return St('case', t, pos=i)
            if kw == 'default':
                e = s.index(':', self.i)
                self.i = e + 1
                return St('default', pos=i)
            raise CParseError('unexpected keyword %s' % kw)
        m = re.match(r'([A-Za-z_]\w*)\s*:(?!:)', s[i:])
        if m and not _KW.match(m.group(1)):
            self.i = i + m.end()
            return St('label', m.group(1), pos=i)
        e = _stmt_end(s, i)
        t = s[i:e].strip()
        self.i = e + 1
        md = _DECL.match(t)
        if md and not re.match(r'^\w+\s*\(', t):
            return St('decl', md.group(1).strip(), _declarators(md.group(2)), pos=i)
        return St('expr', t, pos=i)


def _split_top(t, sep):
    out, depth, cur, j = [], 0, '', 0
    while j < len(t):
        ch = t[j]
        if ch in '"\'':
            k = _skip_str(t, j) if ch == '"' else None
            if k is None:
                k = j + 1
                while k < len(t) and t[k] != "'":
                    k += 2 if t[k] == '\\' else 1
                k += 1
            cur += t[j:k]
            j = k
            continue
        if ch in '([{':
            depth += 1
        elif ch in ')]}':
            depth -= 1
        if ch == sep and depth == 0:
            out.append(cur)
            cur = ''
        else:
            cur += ch
        j += 1
    out.append(cur)
    return out


def _declarators(t):
    """'*dpos, *end = digits + 3' -> [(name, pointer?, array size text or None, init text or None)]"""
    out = []
    for d in _split_top(t, ','):
        d = d.strip()
        init = None
        parts = _split_assign(d)
        if parts:
            d, _, init = parts
        m = re.match(r'^(\**)\s*(?:const\s+)?([A-Za-z_]\w*)\s*(?:\[(.*)\])?$', d.strip(), re.S)
        if not m:
            raise CParseError('declarator %r' % d)
        out.append((m.group(2), bool(m.group(1)), m.group(3), init.strip() if init is not None else None))
    return out


_ASSIGN_OPS = ('<<=', '>>=', '+=', '-=', '*=', '/=', '%=', '|=', '&=', '^=', '=')


def _split_assign(t):
    """top-level assignment: -> (lhs, op, rhs) or None"""
    depth, j = 0, 0
    while j < len(t):
        ch = t[j]
        if ch == '"':
            j = _skip_str(t, j)
            continue
        if ch == "'":
            k = j + 1
            while k < len(t) and t[k] != "'":
                k += 2 if t[k] == '\\' else 1
            j = k + 1
            continue
        if ch in '([{':
            depth += 1
        elif ch in ')]}':
            depth -= 1
        elif depth == 0:
            for op in _ASSIGN_OPS:
                if t.startswith(op, j):
                    if op == '=' and (t[j + 1:j + 2] == '=' or (j > 0 and t[j - 1] in '=!<>')):
                        break
                    return t[:j].strip(), op, t[j + len(op):].strip()
        j += 1
    return None


def parse_body(text):
    p = CParser(text)
    return p.block_items(len(text))


def walk_st(items):
    for st in items:
        yield st
        for sub in (st.a, st.b, st.c, st.d):
            if isinstance(sub, St):
                yield from walk_st([sub])
            elif isinstance(sub, list) and sub and isinstance(sub[0], St):
                yield from walk_st(sub)


_STRS = re.compile(r'"(?:\\.|[^"\\])*"')


def cx(text):
    """C expression text -> cexpr AST (string literals become identifiers __STR__)"""
    t = _STRS.sub(' __STR__ ', text)
    try:
        return cexpr.parse(t)
    except cexpr.ParseError as e:
        raise CParseError('%s in %r' % (e, text[:80]))


def strip_casts(e):
    while e[0] == 'cast' or (e[0] == 'call' and e[1] in ('likely', 'unlikely') and len(e[2]) == 1):
        e = e[2] if e[0] == 'cast' else e[2][0]
    return e


# ====================================================================================================== linear forms
class Undecided(Exception):
    pass


class LF:
    """c + sum(k_i * sym_i); plain ints are used where no symbol occurs"""
    __slots__ = ('c', 't')

    def __init__(self, c=0, t=None):
        self.c = c
        self.t = {k: v for k, v in (t or {}).items() if v}

    @staticmethod
    def of(v):
        if isinstance(v, LF):
            return v
        if isinstance(v, bool):
            return LF(int(v))
        if isinstance(v, int):
            return LF(v)
        raise Undecided('not an integer: %r' % (v,))

    @staticmethod
    def sym(name):
        return LF(0, {name: 1})

    def norm(self):
        return self.c if not self.t else self

    def __add__(self, o):
        o = LF.of(o)
        t = dict(self.t)
        for k, v in o.t.items():
            t[k] = t.get(k, 0) + v
        return LF(self.c + o.c, t).norm()

    __radd__ = __add__

    def __neg__(self):
        return LF(-self.c, {k: -v for k, v in self.t.items()}).norm()

    def __sub__(self, o):
        return self + (-LF.of(o))

    def __rsub__(self, o):
        return LF.of(o) + (-self)

    def __mul__(self, o):
        if isinstance(o, LF):
            if o.t and self.t:
                raise Undecided('product of two symbolic values')
            if not o.t:
                o = o.c
            else:
                return o * self.c
        return LF(self.c * o, {k: v * o for k, v in self.t.items()}).norm()

    __rmul__ = __mul__

    def __eq__(self, o):
        if isinstance(o, (int, LF)) and not isinstance(o, bool):
            o = LF.of(o)
            return self.c == o.c and self.t == o.t
        return NotImplemented

    def __hash__(self):
        return hash((self.c, tuple(sorted(self.t.items()))))

    def __repr__(self):
        s = ''.join('%+d*%s' % (v, k) if v != 1 else '+%s' % k for k, v in sorted(self.t.items()))
        return ('%s%+d' % (s.lstrip('+'), self.c)) if self.c else s.lstrip('+')


def _add(a, b):
    if type(a) is int and type(b) is int:
        return a + b
    r = LF.of(a) + b
    return r.norm() if isinstance(r, LF) else r


def _sub(a, b):
    if type(a) is int and type(b) is int:
        return a - b
    r = LF.of(a) - b
    return r.norm() if isinstance(r, LF) else r


def lf_range(v, bounds):
    """-> (min, max) with None = unbounded"""
    v = LF.of(v)
    lo = hi = v.c
    for k, c in v.t.items():
        b_lo, b_hi = bounds.get(k, (None, None))
        a, b = (b_lo, b_hi) if c > 0 else (b_hi, b_lo)
        lo = None if (lo is None or a is None) else lo + c * a
        hi = None if (hi is None or b is None) else hi + c * b
    return lo, hi


_INT_CMP = {'==': lambda a, b: a == b, '!=': lambda a, b: a != b, '<': lambda a, b: a < b, '>': lambda a, b: a > b,
            '<=': lambda a, b: a <= b, '>=': lambda a, b: a >= b}


def decide(op, a, b, bounds):
    """truth of `a op b` for integers / linear forms, the same for every admissible value of the symbols, else Undecided"""
    if type(a) is int and type(b) is int:
        return _INT_CMP[op](a, b)
    d = LF.of(a) - LF.of(b)
    lo, hi = lf_range(d, bounds)
    if op in ('==', '!='):
        if lo is not None and hi is not None and lo == hi == 0:
            r = True
        elif (lo is not None and lo > 0) or (hi is not None and hi < 0):
            r = False
        else:
            raise Undecided('%r %s %r' % (a, op, b))
        return r if op == '==' else not r
    if op in ('<', '>='):
        if hi is not None and hi < 0:
            r = True
        elif lo is not None and lo >= 0:
            r = False
        else:
            raise Undecided('%r %s %r' % (a, op, b))
        return r if op == '<' else not r
    if op in ('<=', '>'):
        if hi is not None and hi <= 0:
            r = True
        elif lo is not None and lo > 0:
            r = False
        else:
            raise Undecided('%r %s %r' % (a, op, b))
        return r if op == '<=' else not r
    raise Undecided('operator %s' % op)


# ====================================================================================================== piece lists (character buffers)
class Piece:
    """kind: 'fill' (payload = character value), 'run' (payload = (name, offset into the run)), 'uninit', 'term' (payload: list of opaque byte terms, length = len)"""
    __slots__ = ('n', 'kind', 'payload')

    def __init__(self, n, kind, payload=None):
        self.n, self.kind, self.payload = n, kind, payload

    def __repr__(self):
        if self.kind == 'fill':
            return '%r*%r' % (chr(self.payload) if isinstance(self.payload, int) and 32 <= self.payload < 127 else self.payload, self.n)
        if self.kind == 'run':
            return '%s[%r:+%r]' % (self.payload[0], self.payload[1], self.n)
        if self.kind == 'byte':
            return 'byte(%r)' % (self.payload,)
        return '?*%r' % (self.n,)


def _split_piece(p, k):
    """piece p cut after k characters -> (left, right)"""
    if p.kind == 'run':
        return Piece(k, 'run', p.payload), Piece(_sub(p.n, k), 'run', (p.payload[0], _add(p.payload[1], k)))
    if p.kind == 'byte':
        raise Undecided('cut inside a single byte')
    return Piece(k, p.kind, p.payload), Piece(_sub(p.n, k), p.kind, p.payload)


def _n(v):
    return v.norm() if isinstance(v, LF) else v


def _possibly(op, a, b, bounds):
    """true when `a op b` holds for SOME admissible value of the symbols (the extremes of a linear form over independent ranges are attained)"""
    try:
        return decide(op, a, b, bounds)
    except Undecided:
        return True


class Buf:
    def __init__(self, name, size, bounds):
        self.name, self.size, self.bounds = name, size, bounds
        self.pieces = [Piece(size, 'uninit')]
        self.overflow = None
        self.lower_open = False      # positions below the first written one are not checked against the start (capacity is checked elsewhere)

    def _cut(self, pos):
        """make `pos` a piece boundary; -> index of the piece starting at pos (len(pieces) if pos == size)"""
        acc = 0
        for i, p in enumerate(self.pieces):
            open_low = self.lower_open and i == 0
            try:
                if decide('==', acc, pos, self.bounds):
                    return i
            except Undecided:
                if not open_low:
                    raise
            end = _add(acc, p.n)
            if decide('<', pos, end, self.bounds):
                if not open_low and not decide('>', pos, acc, self.bounds):
                    raise Undecided('position %r before %r' % (pos, acc))
                a, b = _split_piece(p, _sub(pos, acc))
                self.pieces[i:i + 1] = [a, b]
                return i + 1
            acc = end
        if decide('==', acc, pos, self.bounds):
            return len(self.pieces)
        raise Undecided('position %r outside buffer %s of size %r' % (pos, self.name, self.size))

    def write(self, pos, pieces):
        total = 0
        for p in pieces:
            total = _add(total, p.n)
        if (not self.lower_open and _possibly('<', pos, 0, self.bounds)) or _possibly('>', _add(pos, total), self.size, self.bounds):
            self.overflow = 'write of %r characters at position %r of %s[%r]' % (total, pos, self.name, self.size)
            raise BufferOverflow(self.overflow)
        if decide('==', total, 0, self.bounds):
            return
        i = self._cut(pos)
        j = self._cut(_add(pos, total))
        self.pieces[i:j] = [Piece(p.n, p.kind, p.payload) for p in pieces]

    def read(self, pos, n):
        if (not self.lower_open and _possibly('<', pos, 0, self.bounds)) or _possibly('>', _add(pos, n), self.size, self.bounds):
            raise BufferOverflow('read of %r characters at position %r of %s[%r]' % (n, pos, self.name, self.size))
        if decide('==', n, 0, self.bounds):
            return []
        i = self._cut(pos)
        j = self._cut(_add(pos, n))
        return [Piece(p.n, p.kind, p.payload) for p in self.pieces[i:j]]


class BufferOverflow(Exception):
    pass


def norm_pieces(pieces, bounds):
    """drop empty pieces, merge adjacent equal fills / contiguous runs"""
    out = []
    for p in pieces:
        try:
            if decide('==', p.n, 0, bounds):
                continue
        except Undecided:
            pass
        if out and out[-1].kind == p.kind == 'fill' and out[-1].payload == p.payload:
            out[-1] = Piece(_add(out[-1].n, p.n), 'fill', p.payload)
        elif out and out[-1].kind == p.kind == 'uninit':
            out[-1] = Piece(_add(out[-1].n, p.n), 'uninit')
        elif out and out[-1].kind == p.kind == 'run' and out[-1].payload[0] == p.payload[0] and _add(out[-1].payload[1], out[-1].n) == p.payload[1]:
            out[-1] = Piece(_add(out[-1].n, p.n), 'run', out[-1].payload)
        else:
            out.append(Piece(p.n, p.kind, p.payload))
    return out


def show_pieces(pieces):
    return ' '.join(repr(p) for p in pieces) or '(empty)'


def same_pieces(a, b):
    if len(a) != len(b):
        return False
    for x, y in zip(a, b):
        if x.kind != y.kind or x.payload != y.payload or not (LF.of(x.n) == LF.of(y.n)):
            return False
    return True


# ====================================================================================================== abstract interpreter for small C helpers
class Ptr:
    __slots__ = ('buf', 'off')

    def __init__(self, buf, off):
        self.buf, self.off = buf, off

    def __repr__(self):
        return '&%s[%r]' % (self.buf.name, self.off)


class Opaque:
    __slots__ = ('tag',)

    def __init__(self, tag):
        self.tag = tag

    def __repr__(self):
        return '<%s>' % (self.tag,)


class RunChar:
    """one character of an opaque run (a digit)"""
    __slots__ = ('name', 'off')

    def __init__(self, name, off):
        self.name, self.off = name, off

    def __repr__(self):
        return '%s[%r]' % (self.name, self.off)


class StrObj:
    """a Python str being built: pieces + the buffer it owns (PyUnicode_New) if any"""
    def __init__(self, pieces=None, buf=None, maxchar=None, how=''):
        self.pieces, self.buf, self.maxchar, self.how = pieces, buf, maxchar, how

    def content(self):
        return self.buf.pieces if self.buf is not None else self.pieces

    def __repr__(self):
        return '<string from %s>' % (self.how or '?')


class Table:
    def __init__(self, name, items):
        self.name, self.items = name, items


class _Ret(Exception):
    def __init__(self, v):
        self.v = v


class _Goto(Exception):
    def __init__(self, label):
        self.label = label


class _Break(Exception):
    pass


class _Continue(Exception):
    pass


class NeedDecision(Exception):
    pass


class Unmodelled(Exception):
    pass


INT_CASTS = ('int', 'long', 'Py_ssize_t', 'size_t', 'char', 'unsigned', 'Py_UCS4', 'short', 'signed', 'const')


class CInterp:
    MAX_UNROLL = 700

    def __init__(self, functions, bounds=None, consts=None, type_bits=None, type_unsigned=False, decisions=None):
        self.functions = functions          # name -> (param names, body items)
        self.bounds = bounds if bounds is not None else {}
        self.consts = dict(consts or {})
        self.type_bits, self.type_unsigned = type_bits, type_unsigned
        self.decisions = list(decisions) if decisions is not None else None
        self.cursor = 0
        self.trace = []
        self.loop_hook = None               # callable(interp, St, env) -> True if handled
        self.call_hook = None               # callable(interp, name, arg asts, env) -> value or NotImplemented
        self.depth = 0
        self.nbuf = 0

    # ------------------------------------------------------------------ helpers
    def new_buf(self, name, size):
        self.nbuf += 1
        return Buf('%s' % name, size, self.bounds)

    def truth(self, v):
        if isinstance(v, bool):
            return v
        if isinstance(v, int):
            return v != 0
        if isinstance(v, LF):
            try:
                return decide('!=', v, 0, self.bounds)
            except Undecided as e:
                ans = self.ask(str(e))
                if v.c == 0 and len(v.t) == 1 and list(v.t.values()) == [1]:
                    (sym,) = v.t
                    lo, hi = self.bounds.get(sym, (None, None))
                    if not ans:
                        self.bounds[sym] = (0, 0)
                    elif lo == 0:
                        self.bounds[sym] = (1, hi)
                return ans
        if isinstance(v, (Ptr, StrObj, Table)):
            return True
        if isinstance(v, BV):
            return bool(bv_cmp('!=', v, 0))
        if isinstance(v, Opaque):
            return self.ask(v.tag)
        raise Unmodelled('truth of %r' % (v,))

    def ask(self, what):
        if self.decisions is None:
            raise Undecided(what)
        if self.cursor >= len(self.decisions):
            raise NeedDecision(what)
        v = self.decisions[self.cursor]
        self.cursor += 1
        self.trace.append((what, v))
        return v

    def cmp(self, op, a, b):
        if isinstance(a, Ptr) and isinstance(b, Ptr) and a.buf is b.buf:
            a, b = a.off, b.off
        if isinstance(a, (int, LF)) and isinstance(b, (int, LF)):
            try:
                return int(decide(op, a, b, self.bounds))
            except Undecided as e:
                return int(self.ask(str(e)))
        if isinstance(a, BV) or isinstance(b, BV):
            return bv_cmp(op, a, b)
        if isinstance(a, RunChar) or isinstance(b, RunChar):
            raise Unmodelled('comparison of a digit character')
        if isinstance(a, (StrObj, Ptr)) and b == 0 and op in ('==', '!='):
            return int(op == '!=')
        if isinstance(a, Opaque) or isinstance(b, Opaque):
            return int(self.ask('%r %s %r' % (a, op, b)))
        raise Unmodelled('comparison %r %s %r' % (a, op, b))

    # ------------------------------------------------------------------ expressions
    def ev(self, e, env):
        k = e[0]
        if k in ('num', 'char'):
            return e[1]
        if k == 'id':
            nm = e[1]
            if nm in env:
                return env[nm]
            if nm in self.consts:
                return self.consts[nm]
            if nm == 'NULL':
                return 0
            return Opaque(nm)
        if k == 'cast':
            v = self.ev(e[2], env)
            ty = e[1]
            if isinstance(v, int) and not isinstance(v, bool):
                words = ty.replace('*', ' ').split()
                if '{{' in ty and self.type_bits:
                    m = 1 << self.type_bits
                    v &= m - 1
                    if not self.type_unsigned and v >= m >> 1:
                        v -= m
                elif words and words[-1] == 'int' and 'unsigned' not in words and '*' not in ty:
                    v &= 0xffffffff
                    if v >= 1 << 31:
                        v -= 1 << 32
                elif 'char' in words and '*' not in ty:
                    v &= 0xff
            elif isinstance(v, BV) and '*' not in ty:
                words = ty.split()
                if 'char' in words:
                    v = v.trunc(8)
                elif words and words[-1] == 'int' and 'unsigned' not in words:
                    if v.hi >= 1 << 31:
                        raise Unmodelled('(int) cast of a symbolic value beyond INT_MAX')
            return v
        if k == 'sizeof':
            t = e[1].strip()
            if t in env and isinstance(env[t], Ptr) and env[t].off == 0 and ('array', t) in env:
                return env[t].buf.size
            if '{{' in t or t in ('value',):
                if not self.type_bits:
                    raise Unmodelled('sizeof(%s) without a type width' % t)
                return self.type_bits // 8
            raise Unmodelled('sizeof(%s)' % t)
        if k == 'un':
            op = e[1]
            if op == '*':
                p = self.ev(e[2], env)
                return self.load(p, 0)
            if op == '&':
                return Opaque('&')
            v = self.ev(e[2], env)
            if op == '!':
                return int(not self.truth(v))
            if op == '-':
                if isinstance(v, (int, LF)):
                    return -v
            if op == '+':
                return v
            if op == '~' and isinstance(v, int):
                return ~v
            raise Unmodelled('unary %s on %r' % (op, v))
        if k == 'tern':
            return self.ev(e[2] if self.truth(self.ev(e[1], env)) else e[3], env)
        if k == 'call':
            return self.call(e[1], e[2], env)
        if k == 'bin':
            op = e[1]
            if op == '&&':
                return int(self.truth(self.ev(e[2], env)) and self.truth(self.ev(e[3], env)))
            if op == '||':
                return int(self.truth(self.ev(e[2], env)) or self.truth(self.ev(e[3], env)))
            a, b = self.ev(e[2], env), self.ev(e[3], env)
            return self.binop(op, a, b)
        raise Unmodelled('expression node %s' % k)

    def binop(self, op, a, b):
        if op == '[]':
            if isinstance(a, Table):
                if not isinstance(b, int):
                    raise Unmodelled('table index %r' % (b,))
                if not 0 <= b < len(a.items):
                    raise BufferOverflow('%s[%d] read, the table has %d entries' % (a.name, b, len(a.items)))
                return a.items[b]
            return self.load(a, b)
        if op in ('==', '!=', '<', '>', '<=', '>='):
            return self.cmp(op, a, b)
        if isinstance(a, BV) or isinstance(b, BV):
            return bv_binop(op, a, b)
        if isinstance(a, Ptr) and isinstance(b, (int, LF)) and op in ('+', '-'):
            return Ptr(a.buf, _n(LF.of(a.off) + (b if op == '+' else -b)))
        if isinstance(b, Ptr) and isinstance(a, (int, LF)) and op == '+':
            return Ptr(b.buf, _add(b.off, a))
        if isinstance(a, Ptr) and isinstance(b, Ptr) and op == '-' and a.buf is b.buf:
            return _sub(a.off, b.off)
        if isinstance(a, (int, LF)) and isinstance(b, (int, LF)):
            if op == '+':
                return _add(a, b)
            if op == '-':
                return _sub(a, b)
            if op == '*':
                return _n(LF.of(a) * (b if isinstance(b, int) else b))
            if isinstance(a, int) and isinstance(b, int):
                try:
                    return cexpr.evaluate(('bin', op, ('num', a), ('num', b)), {})
                except cexpr.EvalError as ex:
                    raise Unmodelled(str(ex))
            if op == '<<' and isinstance(b, int):
                return _n(LF.of(a) * (1 << b))
            raise Unmodelled('%r %s %r' % (a, op, b))
        if isinstance(a, Opaque) or isinstance(b, Opaque):
            return Opaque('(%r %s %r)' % (a, op, b))
        raise Unmodelled('%r %s %r' % (a, op, b))

    def load(self, p, idx):
        if isinstance(p, Table):
            return self.binop('[]', p, idx)
        if isinstance(p, Opaque):
            return Opaque('%s[%r]' % (p.tag, idx))
        if not isinstance(p, Ptr):
            raise Unmodelled('load through %r' % (p,))
        pos = _add(p.off, idx)
        pcs = p.buf.read(pos, 1)
        if len(pcs) != 1:
            raise Undecided('load of %s[%r]' % (p.buf.name, pos))
        q = pcs[0]
        if q.kind == 'fill':
            return q.payload
        if q.kind == 'byte':
            return q.payload
        if q.kind == 'run':
            return RunChar(q.payload[0], q.payload[1])
        raise UninitRead('%s[%r] is read before it is written' % (p.buf.name, pos))

    def store(self, p, idx, v):
        if not isinstance(p, Ptr):
            raise Unmodelled('store through %r' % (p,))
        pos = _add(p.off, idx)
        if isinstance(v, int):
            pc = Piece(1, 'fill', v & 0xff if v >= 0 else v)
        elif isinstance(v, RunChar):
            pc = Piece(1, 'run', (v.name, v.off))
        elif isinstance(v, (BV, Opaque)):
            pc = Piece(1, 'byte', v)
        else:
            raise Unmodelled('store of %r' % (v,))
        p.buf.write(pos, [pc])

    # ------------------------------------------------------------------ calls
    def call(self, name, args, env):
        if self.call_hook is not None:
            r = self.call_hook(self, name, args, env)
            if r is not NotImplemented:
                return r
        if name in ('likely', 'unlikely') and len(args) == 1:
            return self.ev(args[0], env)
        if name == 'abs' and len(args) == 1:
            v = self.ev(args[0], env)
            if isinstance(v, int):
                return abs(v)
            raise Unmodelled('abs(%r)' % (v,))
        if name in ('assert', 'Py_DECREF', 'Py_XDECREF', 'Py_INCREF', 'CYTHON_UNUSED_VAR', 'PyMem_Free', 'CYTHON_MAYBE_UNUSED_VAR'):
            return 0
        if name == 'memset' and len(args) == 3:
            p, c, n = (self.ev(a, env) for a in args)
            if not isinstance(p, Ptr) or not isinstance(c, int):
                raise Unmodelled('memset(%r, %r, ..)' % (p, c))
            p.buf.write(p.off, [Piece(n, 'fill', c)])
            return p
        if name == 'memcpy' and len(args) == 3:
            d, s, n = (self.ev(a, env) for a in args)
            if not isinstance(d, Ptr) or not isinstance(s, Ptr):
                raise Unmodelled('memcpy(%r, %r, ..)' % (d, s))
            d.buf.write(d.off, s.buf.read(s.off, n))
            return d
        if name == 'PyUnicode_New' and len(args) == 2:
            n, mx = self.ev(args[0], env), self.ev(args[1], env)
            return StrObj(buf=self.new_buf('result', n), maxchar=mx, how='PyUnicode_New')
        if name in ('PyUnicode_DATA', '__Pyx_PyUnicode_DATA') and len(args) == 1:
            o = self.ev(args[0], env)
            if isinstance(o, StrObj) and o.buf is not None:
                return Ptr(o.buf, 0)
            return Opaque('data(%r)' % (o,))
        if name in ('__Pyx_PyUnicode_WRITE', 'PyUnicode_WRITE') and len(args) == 4:
            kind, data, idx, val = (self.ev(a, env) for a in args)
            if isinstance(data, Ptr):
                if kind != self.consts.get('PyUnicode_1BYTE_KIND', 1):
                    raise BufferOverflow('%s with character size %r into a string allocated with 1 byte per character' % (name, kind))
                self.store(data, idx, val)
                return 0
            raise Unmodelled('%s into %r' % (name, data))
        if name == 'PyUnicode_FromOrdinal' and len(args) == 1:
            v = self.ev(args[0], env)
            return StrObj(pieces=[self._char_piece(v)], how='PyUnicode_FromOrdinal')
        if name in ('PyUnicode_DecodeLatin1', 'PyUnicode_DecodeASCII', 'PyUnicode_DecodeUTF8') and len(args) >= 2:
            p, n = self.ev(args[0], env), self.ev(args[1], env)
            if not isinstance(p, Ptr):
                raise Unmodelled('%s(%r)' % (name, p))
            return StrObj(pieces=p.buf.read(p.off, n), how=name)
        if name == 'PySequence_Repeat' and len(args) == 2:
            s, n = self.ev(args[0], env), self.ev(args[1], env)
            if isinstance(s, StrObj) and isinstance(n, int):
                if n < 0:
                    n = 0
                c = s.content()
                if len(c) == 1 and c[0].kind == 'fill':
                    return StrObj(pieces=[Piece(c[0].n * n, 'fill', c[0].payload)], how=name)
                return StrObj(pieces=[Piece(q.n, q.kind, q.payload) for _ in range(n) for q in c], how=name)
            raise Unmodelled('PySequence_Repeat(%r, %r)' % (s, n))
        if name in ('PyUnicode_Concat', '__Pyx_PyUnicode_Concat') and len(args) == 2:
            a, b = self.ev(args[0], env), self.ev(args[1], env)
            if isinstance(a, StrObj) and isinstance(b, StrObj):
                return StrObj(pieces=list(a.content()) + list(b.content()), how=name)
            raise Unmodelled('PyUnicode_Concat(%r, %r)' % (a, b))
        if name in self.functions:
            return self.invoke(name, [self.ev(a, env) for a in args])
        for a in args:
            self.ev(a, env)
        return Opaque('%s()' % name)

    def _char_piece(self, v):
        if isinstance(v, int):
            return Piece(1, 'fill', v)
        if isinstance(v, RunChar):
            return Piece(1, 'run', (v.name, v.off))
        if isinstance(v, (BV, Opaque)):
            return Piece(1, 'byte', v)
        raise Unmodelled('character %r' % (v,))

    def invoke(self, name, argv):
        params, body = self.functions[name]
        if len(params) != len(argv):
            raise Unmodelled('%s called with %d arguments' % (name, len(argv)))
        self.depth += 1
        if self.depth > 4:
            raise Unmodelled('call depth')
        env = dict(zip(params, argv))
        try:
            self.run_items(body, env, toplevel=True)
            r = 0
        except _Ret as ret:
            r = ret.v
        self.depth -= 1
        return r

    # ------------------------------------------------------------------ statements
    def run_items(self, items, env, toplevel=False):
        i = 0
        while i < len(items):
            try:
                self.run_stmt(items[i], env)
            except _Goto as g:
                if not toplevel:
                    raise
                idx = [j for j, s in enumerate(items) if s.kind == 'label' and s.a == g.label]
                if not idx:
                    raise Unmodelled('goto %s: label is not at the top level of the function' % g.label)
                i = idx[0]
                continue
            i += 1

    def assign(self, lhs, op, rhs_ast, env):
        rhs = self.ev(rhs_ast, env)
        if lhs[0] == 'pre':
            nm = lhs[2]
            env[nm] = self.binop('+' if lhs[1] == '++' else '-', env[nm], 1)
            target = ('un', '*', ('id', nm))
        else:
            target = lhs[1]
        if op != '=':
            cur = self.ev(target, env)
            rhs = self.binop(op[:-1], cur, rhs)
        if target[0] == 'id':
            env[target[1]] = rhs
        elif target[0] == 'un' and target[1] == '*':
            self.store(self.ev(target[2], env), 0, rhs)
        elif target[0] == 'bin' and target[1] == '[]':
            self.store(self.ev(target[2], env), self.ev(target[3], env), rhs)
        else:
            raise Unmodelled('assignment target %r' % (target,))

    def run_expr(self, t, env):
        c = _EXPR_CACHE.get(t)
        if c is None:
            c = _EXPR_CACHE[t] = _classify_expr(t)
        if c[0] == 'assign':
            self.assign(c[1], c[2], c[3], env)
        elif c[0] == 'incdec':
            nm, op = c[1], c[2]
            if nm not in env:
                raise Unmodelled('%s of an unknown variable' % t)
            env[nm] = self.binop('+' if op == '++' else '-', env[nm], 1)
        elif c[0] == 'expr':
            self.ev(c[1], env)

    def run_stmt(self, st, env):
        k = st.kind
        if k == 'block':
            self.run_items(st.a, env)
        elif k == 'expr':
            self.run_expr(st.a, env)
        elif k == 'decl':
            for name, is_ptr, arr, init in st.b:
                if arr is not None:
                    if init is not None and init.lstrip().startswith('{'):
                        body = init.strip()[1:-1]
                        env[name] = Table(name, [self.ev(cx(x), env) for x in split_args(body) if x.strip()])
                        continue
                    size = self.ev(cx(arr), env) if arr.strip() else None
                    buf = self.new_buf(name, size)
                    env[name] = Ptr(buf, 0)
                    env[('array', name)] = True
                    if init is not None:
                        raise Unmodelled('array initialiser of %s' % name)
                elif init is not None:
                    env[name] = self.ev(cx(init), env)
                else:
                    env[name] = Opaque('uninitialised %s' % name)
        elif k == 'if':
            if self.truth(self.ev(cx(st.a), env)):
                self.run_stmt(st.b, env)
            elif st.c is not None:
                self.run_stmt(st.c, env)
        elif k == 'return':
            raise _Ret(self.ev(cx(st.a), env) if st.a else 0)
        elif k == 'goto':
            raise _Goto(st.a)
        elif k == 'label':
            pass
        elif k == 'break':
            raise _Break()
        elif k == 'continue':
            raise _Continue()
        elif k == 'for':
            self.run_for(st, env)
        elif k in ('do', 'while', 'switch'):
            if self.loop_hook is None or not self.loop_hook(self, st, env):
                raise Unmodelled('%s statement' % k)
        else:
            raise Unmodelled('statement %s' % k)

    def run_for(self, st, env):
        if self.loop_hook is not None and self.loop_hook(self, st, env):
            return
        init, cond, step, body = st.a, st.b, st.c, st.d
        if init:
            md = _DECL.match(init)
            if md:
                for name, is_ptr, arr, ini in _declarators(md.group(2)):
                    env[name] = self.ev(cx(ini), env) if ini is not None else Opaque(name)
            else:
                self.run_expr(init, env)
        c = strip_casts(cx(cond))
        if not (c[0] == 'bin' and c[1] in ('<', '<=') and c[2][0] == 'id'):
            raise Unmodelled('for condition %r' % cond)
        var = c[2][1]
        ms = re.match(r'^(?:\+\+\s*%s|%s\s*\+\+|%s\s*\+=\s*1)$' % ((re.escape(var),) * 3), step.strip())
        if not ms:
            raise Unmodelled('for step %r' % step)
        bound = self.ev(c[3], env)
        if c[1] == '<=':
            bound = self.binop('+', bound, 1)
        start = env.get(var)
        if not isinstance(start, (int, LF)) or not isinstance(bound, (int, LF)):
            raise Unmodelled('for loop from %r to %r' % (start, bound))
        trip = _sub(bound, start)
        if isinstance(trip, int) and trip > 8 and self._bulk_loop(var, start, bound, trip, body, env):
            return
        if isinstance(trip, int):
            if trip > self.MAX_UNROLL:
                raise Unmodelled('loop with %d iterations' % trip)
            i = start
            while self.truth(self.cmp('<', env[var], bound)):
                try:
                    self.run_stmt(body, env)
                except _Continue:
                    pass
                except _Break:
                    return
                env[var] = self.binop('+', env[var], 1)
            return
        # symbolic trip count: the body must be one character store  dst[var + k] = constant | src[var + j]
        if decide('<', trip, 0, self.bounds):
            return
        if not decide('>=', trip, 0, self.bounds):
            raise Undecided('trip count %r' % (trip,))
        if not self._bulk_loop(var, start, bound, trip, body, env, strict=True):
            raise Unmodelled('loop with a symbolic trip count')

    def _bulk_loop(self, var, start, bound, trip, body, env, strict=False):
        """a counted loop whose body is one contiguous character store is a fill / copy of `trip` characters; -> False when the body has another shape"""
        stmts = body.a if body.kind == 'block' else [body]
        if len(stmts) != 1 or stmts[0].kind != 'expr':
            if strict:
                raise Unmodelled('loop with a symbolic trip count and a compound body')
            return False
        t = stmts[0].a
        dst = val = None
        parts = _split_assign(t)
        if parts and parts[1] == '=':
            lhs = cx(parts[0])
            if lhs[0] == 'bin' and lhs[1] == '[]':
                dst, val = ('bin', '+', lhs[2], lhs[3]), cx(parts[2])
        else:
            e = cx(t)
            if e[0] == 'call' and e[1] in ('__Pyx_PyUnicode_WRITE', 'PyUnicode_WRITE') and len(e[2]) == 4:
                dst, val = ('bin', '+', e[2][1], e[2][2]), e[2][3]
        if dst is None:
            if strict:
                raise Unmodelled('loop body %r' % t)
            return False
        env0 = dict(env)
        env0[var] = start
        d0 = self.ev(dst, env0)
        env1 = dict(env)
        env1[var] = self.binop('+', start, 1)
        d1 = self.ev(dst, env1)
        if not (isinstance(d0, Ptr) and isinstance(d1, Ptr) and d0.buf is d1.buf and _sub(d1.off, d0.off) == 1):
            if strict:
                raise Unmodelled('loop store %r is not contiguous in the loop variable' % t)
            return False
        uses_var = any(x == ('id', var) for x in cexpr.walk(val))
        if not uses_var:
            v = self.ev(val, env0)
            if not isinstance(v, int):
                if strict:
                    raise Unmodelled('loop fill value %r' % (v,))
                return False
            d0.buf.write(d0.off, [Piece(trip, 'fill', v)])
        else:
            v = strip_casts(val)
            if not (v[0] == 'bin' and v[1] == '[]'):
                if strict:
                    raise Unmodelled('loop value %r' % t)
                return False
            s0 = self.ev(('bin', '+', v[2], v[3]), env0)
            s1 = self.ev(('bin', '+', v[2], v[3]), env1)
            if not (isinstance(s0, Ptr) and isinstance(s1, Ptr) and s0.buf is s1.buf and _sub(s1.off, s0.off) == 1):
                if strict:
                    raise Unmodelled('loop source %r is not contiguous in the loop variable' % t)
                return False
            d0.buf.write(d0.off, s0.buf.read(s0.off, trip))
        env[var] = bound
        return True


class UninitRead(Exception):
    pass


_EXPR_CACHE = {}


def _classify_expr(t):
    t = t.strip()
    if not t:
        return ('empty',)
    parts = _split_assign(t)
    if parts:
        lhs, op, rhs = parts
        pre = re.match(r'^\*\s*\(?\s*(--|\+\+)\s*([A-Za-z_]\w*)\s*\)?$', lhs)
        if pre:
            return ('assign', ('pre', pre.group(1), pre.group(2)), op, cx(rhs))
        return ('assign', ('plain', cx(lhs)), op, cx(rhs))
    m = re.match(r'^(?:(\+\+|--)\s*\(?\s*([A-Za-z_]\w*)\s*\)?|\(?\s*([A-Za-z_]\w*)\s*\)?\s*(\+\+|--))$', t)
    if m:
        return ('incdec', m.group(2) or m.group(3), m.group(1) or m.group(4))
    return ('expr', cx(t))


class BV:
    """bit vector of an unknown non-negative value: bit i is 0, 1 or ('v', i) = bit i of the original value; [lo, hi] bounds the current value"""
    __slots__ = ('bits', 'lo', 'hi')
    N = 64

    def __init__(self, bits, lo, hi):
        self.bits = tuple(bits)
        blo = sum(1 << i for i, b in enumerate(self.bits) if b == 1)
        bhi = sum(1 << i for i, b in enumerate(self.bits) if b != 0)
        self.lo = max(lo, blo) if lo is not None else blo
        self.hi = min(hi, bhi) if hi is not None else bhi

    @staticmethod
    def of_class(lo, hi):
        return BV([((lo >> i) & 1) if (lo >> i) == (hi >> i) else ('v', i) for i in range(BV.N)], lo, hi)

    def __eq__(self, o):
        return isinstance(o, BV) and self.bits == o.bits

    def __hash__(self):
        return hash(self.bits)

    def __repr__(self):
        top = max([i for i, b in enumerate(self.bits) if b != 0] or [0])
        return 'bits<%s>' % ''.join(str(b) if b in (0, 1) else 'v' for b in reversed(self.bits[:top + 1]))

    def and_(self, c):
        bits = [b if (c >> i) & 1 else 0 for i, b in enumerate(self.bits)]
        if c < 0 and (-c) & (-c - 1) == 0:
            return BV(bits, self.lo & c, self.hi & c)          # clearing low bits is monotone
        return BV(bits, 0, min(self.hi, c) if c >= 0 else self.hi)

    def or_(self, c):
        if c < 0:
            raise Unmodelled('or with a negative constant')
        return BV([1 if (c >> i) & 1 else b for i, b in enumerate(self.bits)], None, None)

    def shr(self, k):
        return BV(self.bits[k:] + (0,) * k, self.lo >> k, self.hi >> k)

    def trunc(self, n):
        if self.hi < (1 << n):
            return self
        return BV(self.bits[:n] + (0,) * (BV.N - n), None, None)


def bv_binop(op, a, b):
    if isinstance(a, int) and isinstance(b, BV) and op in ('&', '|'):
        a, b = b, a
    if isinstance(a, BV) and isinstance(b, int) and not isinstance(b, bool):
        if op == '&':
            return a.and_(b)
        if op == '|':
            return a.or_(b)
        if op == '>>' and 0 <= b < BV.N:
            return a.shr(b)
    raise Unmodelled('bit-vector operation %r %s %r' % (a, op, b))


def bv_cmp(op, a, b):
    """BV against an int, decided on the interval"""
    flip = {'<': '>', '>': '<', '<=': '>=', '>=': '<=', '==': '==', '!=': '!='}
    if isinstance(b, BV):
        a, b, op = b, a, flip[op]
    if not isinstance(b, int):
        raise Unmodelled('comparison of two symbolic values')
    lo, hi = a.lo, a.hi
    res = {'<': (hi < b, lo >= b), '<=': (hi <= b, lo > b), '>': (lo > b, hi <= b), '>=': (lo >= b, hi < b),
           '==': (lo == hi == b, b < lo or b > hi), '!=': (b < lo or b > hi, lo == hi == b)}[op]
    if res[0]:
        return 1
    if res[1]:
        return 0
    raise Undecided('%r %s %r' % (a, op, b))


# ====================================================================================================== shared loading helpers
TYPECONV = 'TypeConversion.c'
STRTOOLS = 'StringTools.c'
_cx_cache = {}
_cx_plain = cx


def cx(text):          # noqa: F811  (memoised front of the parser above)
    r = _cx_cache.get(text)
    if r is None:
        r = _cx_cache[text] = _cx_plain(text)
    return r


def section_text(ctx, file, section, typ='impl'):
    sec = ctx.cat.section(file, section, typ)
    if sec is None:
        raise AnalysisError('utility section %s::%s (%s) not found' % (file, section, typ))
    return sec


def param_names(params):
    out = []
    for p in split_args(params):
        m = re.search(r'([A-Za-z_]\w*)\s*(?:\[[^\]]*\])?\s*$', p.strip())
        if not m:
            raise AnalysisError('cannot read parameter %r' % p)
        out.append(m.group(1))
    return out


def load_function(ctx, file, section, name, chooser):
    sec = section_text(ctx, file, section)
    try:
        text = preprocess(sec.raw, chooser)
        f = find_function(text, name)
        if f is None:
            raise AnalysisError('%s::%s: function %s not found' % (file, section, name))
        line = sec.line + text[:text.find(f[1])].count('\n') if f[1] in text else sec.line
        return param_names(f[0]), parse_body(f[1]), line
    except CParseError as e:
        raise AnalysisError('%s::%s: cannot parse %s: %s' % (file, section, name, e))


def assigned_names(st):
    out = set()
    for s in walk_st([st]):
        if s.kind == 'expr':
            parts = _split_assign(s.a)
            if parts:
                for nm in re.findall(r'[A-Za-z_]\w*', parts[0]):
                    out.add(nm)
            else:
                m = re.match(r'^(?:(?:\+\+|--)\s*\(?\s*([A-Za-z_]\w*)|\(?\s*([A-Za-z_]\w*)\s*\)?\s*(?:\+\+|--))', s.a.strip())
                if m:
                    out.add(m.group(1) or m.group(2))
        elif s.kind == 'decl':
            for name, _, _, _ in s.b:
                out.add(name)
    return out


def int_literals(items):
    out = set()
    for s in walk_st(items):
        texts = [t for t in (s.a, s.b, s.c) if isinstance(t, str)]
        if s.kind == 'decl':
            texts += [x for d in s.b for x in (d[2], d[3]) if isinstance(x, str)]
        for t in texts:
            for m in re.finditer(r"(?<![\w'.])(0[xX][0-9a-fA-F]+|\d+)[uUlL]*(?![\w'.])", _STRS.sub('', re.sub(r"'(?:\\.|[^'\\])+'", '', t))):
                out.add(int(m.group(1), 0))
    return out


# ====================================================================================================== C18-LAYOUT
DIGIT_FN = '__Pyx__{{TO_PY_FUNCTION}}'
BUILD_FN = '__Pyx_PyUnicode_BuildFromAscii'
MINUS, SPACE, ZERO = ord('-'), ord(' '), ord('0')


def _digit_loop_hook(n, z, state):
    """Summary of the digit loop (established by C18-DIGITS): the write pointer ends n+z characters below its start, the characters are
    z excess '0' + the n digits, the excess-digit flag is z."""
    def hook(interp, st, env):
        if st.kind != 'do' or state.get('done'):
            return False
        if id(st) not in _AN:
            _AN[id(st)] = (st, assigned_names(st.a))
        names = _AN[id(st)][1]
        ptrs = [nm for nm in names if isinstance(env.get(nm), Ptr)]
        flags = [nm for nm in names if env.get(nm) == 0 and isinstance(env.get(nm), int) and nm in state['flag_candidates']]
        if len(ptrs) != 1:
            raise Unmodelled('digit loop: %d write pointers (%s)' % (len(ptrs), ptrs))
        if len(flags) > 1:
            raise Unmodelled('digit loop: several excess-digit flags %s' % flags)
        if z and not flags:
            state['infeasible'] = True
        p = env[ptrs[0]]
        total = _add(n, z)
        start = _sub(p.off, total)
        pcs = ([Piece(1, 'fill', ZERO)] if z else []) + [Piece(n, 'run', ('DIGITS', 0))]
        p.buf.lower_open = True          # the capacity of the digit buffer is the business of C18-DIGITS
        p.buf.write(start, pcs)
        env[ptrs[0]] = Ptr(p.buf, start)
        for nm in flags:
            env[nm] = z
        for nm in names - set(ptrs) - set(flags):
            env[nm] = Opaque('after the loop: %s' % nm)
        state['done'] = True
        return True
    return hook


_FC = {}
_AN = {}


def _memo_fc(body):
    k = id(body)
    if k not in _FC:
        _FC[k] = (body, flag_candidates(body))
    return _FC[k][1]


def flag_candidates(items):
    """variables that a statement inside the do-while loop assigns a comparison result"""
    out = set()
    for st in items:
        if st.kind == 'do':
            for s in walk_st([st.a]):
                if s.kind == 'expr':
                    parts = _split_assign(s.a)
                    if parts and parts[1] == '=' and re.fullmatch(r'[A-Za-z_]\w*', parts[0]):
                        e = strip_casts(cx(parts[2]))
                        if e[0] == 'bin' and e[1] in ('<', '>', '<=', '>=', '==', '!='):
                            out.add(parts[0])
    return out


def expected_layout(neg, n, width, pad, bounds):
    """format(value, '>{width}d') for pad ' ' / format(value, '0{width}d') for pad '0' as a piece list; -> (total length, pieces)"""
    body = _add(n, neg)
    total = width if decide('>', width, body, bounds) else body
    fill = _sub(total, body)
    sign = [Piece(1, 'fill', MINUS)] if neg else []
    digits = [Piece(n, 'run', ('DIGITS', 0))]
    if pad == SPACE:
        return total, [Piece(fill, 'fill', SPACE)] + sign + digits
    return total, sign + [Piece(fill, 'fill', ZERO)] + digits


def layout_scenarios(max_lit):
    out = []
    hi = min(max(max_lit, 2), 40) + 4
    for unsigned in (False, True):
        values = (0, 1, (1 << 64) - 1) if unsigned else (-2, -1, 0, 1)
        for value in values:
            for z in (0, 1):
                for nspec in (1, ('ge', 2)):
                    for pad in (SPACE, ZERO):
                        widths = [('abs', 0), ('abs', 1)] + [('rel', d) for d in range(-1, hi)]
                        for w in widths:
                            out.append((unsigned, value, z, nspec, pad, w))
    return out


def run_layout(int_fn, build_fn, scen, consts):
    """-> (expected total, expected pieces, StrObj or exception text)"""
    unsigned, value, z, nspec, pad, (wk, wd) = scen
    bounds = {'n': (nspec[1], None)} if isinstance(nspec, tuple) else {}
    n = LF.sym('n') if isinstance(nspec, tuple) else nspec
    width = wd if wk == 'abs' else _add(n, wd)
    params, body = int_fn
    state = {'flag_candidates': _memo_fc(body)}
    it = CInterp({BUILD_FN: build_fn}, bounds=bounds, consts=consts, type_bits=64, type_unsigned=unsigned)
    it.loop_hook = _digit_loop_hook(n, z, state)
    env = dict(zip(params, [value, width, pad, ord('d')]))
    if len(params) != 4:
        raise Unmodelled('%s takes %d parameters' % (DIGIT_FN, len(params)))
    try:
        it.run_items(body, env, toplevel=True)
        res = 0
    except _Ret as r:
        res = r.v
    if state.get('infeasible'):
        return None
    if not state.get('done'):
        raise Unmodelled('the digit loop (do ... while) was not reached')
    neg = 1 if (not unsigned and value < 0) else 0
    total, exp = expected_layout(neg, n, width, pad, bounds)
    return total, norm_pieces(exp, bounds), res, bounds


def describe_scenario(scen):
    unsigned, value, z, nspec, pad, (wk, wd) = scen
    nsym = isinstance(nspec, tuple)
    return '%s value %s, %s digits%s, width %s, padding %r' % ('unsigned' if unsigned else 'signed', 'max' if value > 2 else value, 'n>=%d' % nspec[1] if nsym else '%d' % nspec,
                                                             ' (+1 excess zero)' if z else '', ('%d' % wd) if wk == 'abs' else ('n%+d' % wd if nsym else '%d' % (nspec + wd)), chr(pad))


def layout_problems(int_fn, build_fn, consts):
    # the width classes reach past every constant the sign/width/padding code adds or compares with
    tail = int_fn[1]
    for i, st in enumerate(int_fn[1]):
        if st.kind == 'do':
            tail = int_fn[1][i + 1:]
    lits = int_literals(tail) | int_literals(build_fn[1])
    small = [x for x in lits if x <= 64]
    problems = []
    count = 0
    todo = layout_scenarios(max(small) if small else 2)
    todo.reverse()
    while todo:
        scen = todo.pop()
        try:
            try:
                r = run_layout(int_fn, build_fn, scen, consts)
            except Undecided:
                # the outcome depends on the number of digits beyond the class: refine  n >= k  into  n == k  and  n >= k+1
                nspec = scen[3]
                if not isinstance(nspec, tuple) or nspec[1] > 24:
                    raise
                todo.append(scen[:3] + (('ge', nspec[1] + 1),) + scen[4:])
                todo.append(scen[:3] + (nspec[1],) + scen[4:])
                continue
            if r is None:
                continue
            count += 1
            total, exp, res, bounds = r
            if not isinstance(res, StrObj):
                problems.append((scen, 'returns %r instead of a string' % (res,)))
                continue
            got = norm_pieces(res.content(), bounds)
            if not same_pieces(got, exp):
                problems.append((scen, 'builds  %s  where format() gives  %s' % (show_pieces(got), show_pieces(exp))))
            elif res.maxchar is not None and not (isinstance(res.maxchar, int) and res.maxchar < 128):
                problems.append((scen, 'allocates the ASCII text with maximum character %r (non-canonical string)' % (res.maxchar,)))
        except BufferOverflow as e:
            count += 1
            problems.append((scen, 'out-of-bounds access: %s' % e))
        except UninitRead as e:
            count += 1
            problems.append((scen, str(e)))
    return count, problems


LAYOUT_PC_INT = '''
    char digits[sizeof(T)*3+2];
    char *dpos, *end = digits + sizeof(T)*3+2;
    Py_ssize_t length, ulength;
    int prepend_sign, last_one_off;
    T remaining;
    const T neg_one = (T) -1, const_zero = (T) 0;
    const int is_unsigned = neg_one > const_zero;
    remaining = value;
    last_one_off = 0;
    dpos = end;
    do {
        int digit_pos = abs((int)(remaining % 100));
        remaining = remaining / 100;
        dpos -= 2;
        memcpy(dpos, DIGIT_PAIRS_10 + digit_pos * 2, 2);
        last_one_off = (digit_pos < 10);
    } while (remaining != 0);
    dpos += last_one_off;
    length = end - dpos;
    ulength = length;
    prepend_sign = 0;
    if (!is_unsigned && value <= neg_one) {
        if (padding_char == ' ' || width <= length + 2) {
            *(--dpos) = '-';
            ++length;
        } else {
            prepend_sign = 1;
        }
        ++ulength;
    }
    if (width > ulength) {
        ulength = width;
    }
    return __Pyx_PyUnicode_BuildFromAscii(ulength, dpos, (int) length, prepend_sign, padding_char);
'''
LAYOUT_PC_BUILD = '''
    PyObject *uval;
    Py_ssize_t uoffset = ulength - clength;
    Py_ssize_t i;
    void *udata;
    uval = PyUnicode_New(ulength, 127);
    if (unlikely(!uval)) return NULL;
    udata = PyUnicode_DATA(uval);
    if (uoffset > 0) {
        i = 0;
        if (prepend_sign) {
            __Pyx_PyUnicode_WRITE(PyUnicode_1BYTE_KIND, udata, 0, '-');
            i++;
        }
        for (; i < uoffset; i++) {
            __Pyx_PyUnicode_WRITE(PyUnicode_1BYTE_KIND, udata, i, padding_char);
        }
    }
    for (i=0; i < clength; i++) {
        __Pyx_PyUnicode_WRITE(PyUnicode_1BYTE_KIND, udata, uoffset+i, chars[i]);
    }
    return uval;
'''
LAYOUT_CONSTS = {'PyUnicode_1BYTE_KIND': 1, 'PyUnicode_2BYTE_KIND': 2, 'PyUnicode_4BYTE_KIND': 4}


def rule_layout(ctx):
    r = Rule('C18-LAYOUT', 'C-level integer formatting: for every class of (signedness, sign of the value, number of digits, width relative to the digits, padding character) the '
             'characters assembled by the tail of __Pyx__{{TO_PY_FUNCTION}} and __Pyx_PyUnicode_BuildFromAscii are format()\'s layout - right-aligned with spaces, or sign first '
             'then zeros - with every cell of the result written exactly inside its allocation (abstract interpretation on linear forms and piece lists)', floor=600)
    no_gcc = lambda cond: False if 'GCC_DIAGNOSTIC' in cond else _unknown_cond(cond)
    ip, ibody, iline = load_function(ctx, TYPECONV, 'CIntToPyUnicode', DIGIT_FN, no_gcc)
    key0 = 'TypeConversion.c::CIntToPyUnicode+StringTools.c::BuildPyUnicode:layout'
    for cfg, val in (('unicode-internals', True), ('generic-api', False)):
        chooser = lambda cond, val=val: val if cond.strip() == 'CYTHON_USE_UNICODE_INTERNALS' else _unknown_cond(cond)
        bp, bbody, bline = load_function(ctx, STRTOOLS, 'BuildPyUnicode', BUILD_FN, chooser)
        try:
            count, problems = layout_problems((ip, ibody), (bp, bbody), LAYOUT_CONSTS)
        except (Undecided, Unmodelled, CParseError) as e:
            raise AnalysisError('C18-LAYOUT (%s): the helpers cannot be interpreted: %s' % (cfg, e))
        key = '%s:%s' % (key0, cfg)
        for i in range(count):
            r.inst('%s#%d' % (key, i), sample=None)
        r.samples.append('%s: %d scenarios' % (key, count))
        if problems:
            scen, msg = problems[0]
            r.violate(key, 'Cython/Utility/' + TYPECONV, iline,
                      'the integer-to-text helpers (%s branch of BuildFromAscii) do not produce format()\'s text for %d of %d scenario classes; first: %s: %s%s'
                      % (cfg, len(problems), count, describe_scenario(scen), msg,
                         ''.join('; also %s: %s' % (describe_scenario(s), m) for s, m in problems[1:3])))
    try:
        pc_count, pc = layout_problems((['value', 'width', 'padding_char', 'format_char'], parse_body(LAYOUT_PC_INT.replace('T', '{{TYPE}}').replace('DIGI{{TYPE}}', 'DIGIT'))),
                                       (['ulength', 'chars', 'clength', 'prepend_sign', 'padding_char'], parse_body(LAYOUT_PC_BUILD)), LAYOUT_CONSTS)
    except (Undecided, Unmodelled, CParseError) as e:
        raise AnalysisError('C18-LAYOUT positive control cannot be interpreted: %s' % e)
    r.positive_control(any('width n+2' in describe_scenario(s) and s[4] == ZERO for s, m in pc) and not any(s[4] == SPACE for s, m in pc),
                       "sign written in front of the digits for width == digits + 2 ('0-5' instead of '-05')")
    return r


def _unknown_cond(cond):
    raise AnalysisError('unexpected preprocessor condition %r in an analysed helper: the configurations of the rule are out of date' % cond)


# ====================================================================================================== C18-DIGITS
# Reference (format-spec mini-language, integer presentation types): 'o' octal base 8, 'd' decimal base 10, 'x' hex base 16 with lower-case digits
# above 9, 'X' the same with upper-case digits.
BASE_OF = {'o': 8, 'd': 10, 'x': 16, 'X': 16}


def numeral(i, base, k, upper):
    out = ''
    for _ in range(k):
        out = '0123456789abcdef'[i % base] + out
        i //= base
    return out.upper() if upper else out


def c_string_tables(raw):
    """static const char NAME[...] = { "..." "..." };  ->  {NAME: text}"""
    out = {}
    text = strip_c_comments(raw)
    for m in re.finditer(r'\bchar\s+([A-Za-z_]\w*)\s*\[[^\]]*\]\s*=\s*\{?((?:\s*"(?:\\.|[^"\\])*")+)\s*\}?\s*;', text):
        out[m.group(1)] = ''.join(bytes(x, 'latin-1').decode('unicode_escape') for x in re.findall(r'"((?:\\.|[^"\\])*)"', m.group(2)))
    return out


def subst(e, env):
    k = e[0]
    if k == 'id':
        return env.get(e[1], e)
    if k in ('num', 'char', 'sizeof'):
        return e
    if k == 'cast':
        return ('cast', e[1], subst(e[2], env))
    if k == 'un':
        return ('un', e[1], subst(e[2], env))
    if k == 'bin':
        return ('bin', e[1], subst(e[2], env), subst(e[3], env))
    if k == 'tern':
        return ('tern', subst(e[1], env), subst(e[2], env), subst(e[3], env))
    if k == 'call':
        return ('call', e[1], [subst(a, env) for a in e[2]])
    raise Unmodelled('expression node %s' % k)


def lin(e, env=None):
    """AST -> linear form over its identifiers (casts transparent); Unmodelled if not linear"""
    k = e[0]
    if k in ('num', 'char'):
        return e[1]
    if k == 'id':
        if env and e[1] in env:
            return env[e[1]]
        return LF.sym(e[1])
    if k == 'cast':
        return lin(e[2], env)
    if k == 'sizeof':
        return LF.sym('sizeof(%s)' % e[1].replace(' ', ''))
    if k == 'un' and e[1] == '-':
        return -LF.of(lin(e[2], env))
    if k == 'bin' and e[1] in ('+', '-', '*'):
        a, b = lin(e[2], env), lin(e[3], env)
        try:
            r = {'+': lambda: LF.of(a) + b, '-': lambda: LF.of(a) - b, '*': lambda: LF.of(a) * b}[e[1]]()
        except Undecided:
            raise Unmodelled('non-linear expression')
        return r.norm() if isinstance(r, LF) else r
    raise Unmodelled('not a linear expression: %r' % (e,))


def const_of(e):
    try:
        return cexpr.evaluate(e, {})
    except cexpr.EvalError:
        return None


def sym_exec_simple(stmts, env, writes, fc_var=None):
    """straight-line symbolic execution on expression trees: env name -> AST in terms of the entry values; `writes` collects (dest AST, count, kind, source AST)"""
    for st in stmts:
        if st.kind == 'block':
            sym_exec_simple(st.a, env, writes)
        elif st.kind == 'decl':
            for name, is_ptr, arr, init in st.b:
                if arr is not None:
                    raise Unmodelled('array declaration inside the digit loop')
                if init is not None:
                    env[name] = subst(cx(init), env)
        elif st.kind == 'expr':
            c = _EXPR_CACHE.get(st.a) or _EXPR_CACHE.setdefault(st.a, _classify_expr(st.a))
            if c[0] == 'assign':
                lhs, op, rhs = c[1], c[2], subst(c[3], env)
                if lhs[0] == 'pre':
                    nm = lhs[2]
                    env[nm] = ('bin', '+' if lhs[1] == '++' else '-', env.get(nm, ('id', nm)), ('num', 1))
                    if op != '=':
                        raise Unmodelled('compound store through a pointer')
                    writes.append((env[nm], 1, 'single', rhs))
                elif lhs[1][0] == 'id':
                    nm = lhs[1][1]
                    env[nm] = rhs if op == '=' else ('bin', op[:-1], env.get(nm, ('id', nm)), rhs)
                elif lhs[1][0] == 'un' and lhs[1][1] == '*' and op == '=':
                    writes.append((subst(lhs[1][2], env), 1, 'single', rhs))
                elif lhs[1][0] == 'bin' and lhs[1][1] == '[]' and op == '=':
                    writes.append((('bin', '+', subst(lhs[1][2], env), subst(lhs[1][3], env)), 1, 'single', rhs))
                else:
                    raise Unmodelled('store %r inside the digit loop' % (st.a,))
            elif c[0] == 'incdec':
                env[c[1]] = ('bin', '+' if c[2] == '++' else '-', env.get(c[1], ('id', c[1])), ('num', 1))
            elif c[0] == 'expr':
                e = c[1]
                if e[0] == 'call' and e[1] == 'memcpy' and len(e[2]) == 3:
                    n = const_of(subst(e[2][2], env))
                    if n is None:
                        raise Unmodelled('memcpy with a non-constant length')
                    writes.append((subst(e[2][0], env), n, 'copy', subst(e[2][1], env)))
                elif e[0] == 'call' and e[1] == 'assert':
                    pass
                else:
                    raise Unmodelled('statement %r inside the digit loop' % (st.a,))
        elif st.kind == 'break':
            return
        else:
            raise Unmodelled('%s statement inside a digit case' % st.kind)


def switch_cases(sw):
    """St('switch') -> {label value or 'default': [statements up to break]}"""
    if sw.b.kind != 'block':
        raise Unmodelled('switch without a block')
    out, labels, cur = {}, [], None
    for st in sw.b.a:
        if st.kind in ('case', 'default'):
            if cur is not None and cur and cur[-1].kind != 'break':
                raise Unmodelled('case falls through')
            if cur is not None and cur:
                labels = []
            lab = 'default' if st.kind == 'default' else const_of(cx(st.a))
            if lab is None:
                raise Unmodelled('case label %r' % st.a)
            labels.append(lab)
            cur = []
            for l in labels:
                out[l] = cur
        elif cur is None:
            raise Unmodelled('statement before the first case')
        else:
            cur.append(st)
    return out


def _unwrap_index(e):
    """abs((int)(R % M)) -> (R expr, M, has_abs)"""
    e = strip_casts(e)
    has_abs = False
    if e[0] == 'call' and e[1] in ('abs', 'labs', 'llabs') and len(e[2]) == 1:
        has_abs = True
        e = strip_casts(e[2][0])
    if e[0] == 'bin' and e[1] == '%':
        return strip_casts(e[2]), const_of(e[3]), has_abs
    return None, None, has_abs


def digit_loop_facts(params, body, tables, fmt_chars):
    """-> list of (key suffix, ok?, message) obligations, plus informational dict"""
    out = []
    do_i = [i for i, st in enumerate(body) if st.kind == 'do']
    if len(do_i) != 1:
        raise Unmodelled('%d do-while loops in the integer formatter' % len(do_i))
    loop = body[do_i[0]]
    prefix = body[:do_i[0]]
    inner = loop.a.a if loop.a.kind == 'block' else [loop.a]
    sws = [st for st in inner if st.kind == 'switch']
    if len(sws) != 1:
        raise Unmodelled('digit loop without exactly one switch')
    sw = sws[0]
    sel = strip_casts(cx(sw.a))
    if sel[0] != 'id':
        raise Unmodelled('switch on %r' % (sw.a,))
    fc_var = sel[1]
    if fc_var not in params:
        raise Unmodelled('the digit switch does not select on a parameter')
    if fc_var in assigned_names(loop.a):
        raise Unmodelled('the format character is modified inside the digit loop')
    cases = switch_cases(sw)
    # loop condition: continue exactly while the remaining value is non-zero
    cond = strip_casts(cx(loop.b))
    ids = sorted({x[1] for x in cexpr.walk(cond) if x[0] == 'id'})
    if len(ids) != 1:
        raise Unmodelled('loop condition %r' % loop.b)
    rem = ids[0]
    table = [bool(cexpr.evaluate(cond, {rem: v}, calls={'likely': lambda x: x, 'unlikely': lambda x: x})) for v in (-3, 0, 3)]
    out.append(('loop-condition', table == [True, False, True],
                'the digit loop continues while `%s` (negative/zero/positive remaining value: %s); it must run exactly until the remaining value is 0' % (loop.b, table)))
    flags = flag_candidates(body)
    info = {'cases': {}}
    other = [st for st in inner if st is not sw]
    for ch in fmt_chars:
        # ---- prefix: straight-line assignments and `if (format_char == 'C') {...}` remappings, evaluated for this input character
        env = {}
        writes = []

        def run_prefix(stmts):
            for st in stmts:
                if st.kind == 'if':
                    c = subst(cx(st.a), env)
                    try:
                        v = cexpr.evaluate(c, {fc_var: ord(ch)}, calls={'likely': lambda x: x, 'unlikely': lambda x: x})
                    except cexpr.EvalError:
                        raise Unmodelled('condition %r before the digit loop' % st.a)
                    br = st.b if v else st.c
                    if br is not None:
                        run_prefix(br.a if br.kind == 'block' else [br])
                elif st.kind == 'decl':
                    for name, is_ptr, arr, init in st.b:
                        if arr is None and init is not None:
                            env[name] = subst(cx(init), env)
                        elif arr is not None:
                            env[name] = ('id', name)
                else:
                    sym_exec_simple([st], env, writes)
        run_prefix(prefix)
        if writes:
            raise Unmodelled('stores before the digit loop')
        fc_now = env.get(fc_var, ('num', ord(ch)))
        fc_val = const_of(fc_now)
        key = 'digits:%s' % ch
        if fc_val is None:
            raise Unmodelled('format character after the prefix is %r' % (fc_now,))
        stmts = cases.get(fc_val)
        if stmts is None:
            out.append((key + ':case', False, "format character %r reaches the digit switch as %r, which has no case (default branch: no digit is produced)" % (ch, chr(fc_val))))
            continue
        entry = dict(env)
        ptr0 = {k: v for k, v in env.items()}
        cenv = {}
        # inside the loop the variables are the loop-carried values: start from identities, keep the prefix values of loop-invariant names
        assigned = assigned_names(loop.a)
        for k, v in env.items():
            if k not in assigned:
                cenv[k] = v
        cwrites = []
        sym_exec_simple(other_before(inner, sw), cenv, cwrites)
        sym_exec_simple(stmts, cenv, cwrites)
        sym_exec_simple(other_after(inner, sw), cenv, cwrites)
        base = BASE_OF[ch]
        if len(cwrites) != 1:
            raise Unmodelled('case %r performs %d stores' % (chr(fc_val), len(cwrites)))
        dest, k, kind, src = cwrites[0]
        ptrs = sorted({x[1] for x in cexpr.walk(dest) if x[0] == 'id'})
        if len(ptrs) != 1:
            raise Unmodelled('store destination %r' % (dest,))
        p = ptrs[0]
        d_lin = lin(dest)
        p_end = lin(cenv.get(p, ('id', p)))
        out.append((key + ':advance', d_lin == LF.sym(p) - k and p_end == LF.sym(p) - k,
                    "case %r writes %d character(s) at %r and leaves the write pointer at %r; both must be %d below the previous position (digits are produced right to left without gaps)"
                    % (chr(fc_val), k, d_lin, p_end, k)))
        # source: TABLE + index*stride   or   TABLE[index]
        s = strip_casts(src)
        tab = idx = stride = None
        if kind == 'copy' and s[0] == 'bin' and s[1] == '+':
            for a, b in ((s[2], s[3]), (s[3], s[2])):
                b2 = strip_casts(b)
                if b2[0] == 'bin' and b2[1] == '*':
                    for x, y in ((b2[2], b2[3]), (b2[3], b2[2])):
                        if const_of(y) is not None:
                            tab, idx, stride = a, x, const_of(y)
            if tab is None:
                # TABLE + index  (stride 1)
                for a, b in ((s[2], s[3]), (s[3], s[2])):
                    try:
                        la = lin(a)
                    except Unmodelled:
                        continue
                    if isinstance(la, LF) and len(la.t) == 1 and _unwrap_index(b)[1] is not None:
                        tab, idx, stride = a, b, 1
        elif kind == 'single' and s[0] == 'bin' and s[1] == '[]':
            tab, idx, stride = s[2], s[3], 1
        if tab is None:
            raise Unmodelled('digit source %r' % (src,))
        r_expr, modulus, has_abs = _unwrap_index(idx)
        if r_expr != ('id', rem) or modulus is None:
            raise Unmodelled('digit index %r is not `%s %% constant`' % (idx, rem))
        out.append((key + ':abs', has_abs, "case %r indexes the digit table with the raw remainder `%s %% %d`, which is negative for negative values; it must go through abs()" % (chr(fc_val), rem, modulus)))
        # advance of the remaining value
        nxt = strip_casts(cenv.get(rem, ('id', rem)))
        if nxt[0] == 'bin' and nxt[1] == '/' and strip_casts(nxt[2]) == ('id', rem) and const_of(nxt[3]) is not None:
            divisor = const_of(nxt[3])
            out.append((key + ':divisor', divisor == modulus, "case %r takes `%s %% %d` as digits but continues with `%s / %d`: digits are lost or repeated" % (chr(fc_val), rem, modulus, rem, divisor)))
        elif nxt[0] == 'bin' and nxt[1] == '>>':
            out.append((key + ':divisor', False, "case %r advances with a right shift: for a negative value of a signed type the shift is arithmetic and never reaches 0 (the loop relies on "
                        "C's truncating division and abs() of the remainder)" % chr(fc_val)))
            divisor = None
        else:
            raise Unmodelled('the remaining value becomes %r' % (nxt,))
        out.append((key + ':group', modulus == base ** k and stride == k,
                    "format %r is base %d; case %r takes the remainder modulo %s, writes %d character(s) per step with table stride %s: modulus must be base**characters and the stride equal "
                    "to the characters written" % (ch, base, chr(fc_val), modulus, k, stride)))
        # table content
        t_lin = lin(tab)
        names = [n for n in (t_lin.t if isinstance(t_lin, LF) else {})]
        if len(names) != 1 or t_lin.t[names[0]] != 1 or names[0] not in tables:
            raise Unmodelled('digit table %r' % (tab,))
        text, off = tables[names[0]], t_lin.c
        if modulus == base ** k and stride == k:
            bad = [i for i in range(modulus) if text[off + i * k: off + (i + 1) * k] != numeral(i, base, k, ch == 'X')]
            out.append((key + ':table', not bad, "digit table %s%s: entry %s is %r, the %d-character base-%d numeral is %r%s" % (
                names[0], '+%d' % off if off else '', bad[0] if bad else '', text[off + bad[0] * k: off + (bad[0] + 1) * k] if bad else '', k, base,
                numeral(bad[0], base, k, ch == 'X') if bad else '', ' (+%d more entries)' % (len(bad) - 1) if len(bad) > 1 else '')))
        # excess leading zero flag: truth table over every index value
        for fl in sorted(flags):
            v0 = env.get(fl)
            init0 = const_of(v0) if v0 is not None else None
            if fl in cenv and cenv[fl] != ('id', fl) and fl in assigned_names(St('block', stmts)):
                try:
                    tt = [bool(cexpr.evaluate(cenv[fl], {rem: i}, calls={'abs': abs})) for i in range(modulus)]
                except cexpr.EvalError as ex:
                    raise Unmodelled('flag %s = %r: %s' % (fl, cenv[fl], ex))
                want = [k > 1 and i < base ** (k - 1) for i in range(modulus)]
                wrong = [i for i in range(modulus) if tt[i] != want[i]]
                out.append((key + ':excess-zero', not wrong, "case %r sets %s for index %s%s; the first of the %d characters is an excess '0' exactly for indices below %d" % (
                    chr(fc_val), fl, wrong[:4], '...' if len(wrong) > 4 else '', k, base ** (k - 1) if k > 1 else 0)))
            else:
                out.append((key + ':excess-zero', k == 1 and init0 == 0, "case %r does not set %s (initial value %r) although it writes %d characters per step" % (chr(fc_val), fl, v0, k)))
        info['cases'][ch] = (base, k)
    return out, info


def other_before(inner, sw):
    i = inner.index(sw)
    return inner[:i]


def other_after(inner, sw):
    i = inner.index(sw)
    return inner[i + 1:]


def digits_needed(base, k, bits, signed):
    mag = (1 << (bits - 1)) if signed else (1 << bits) - 1
    nd = 0
    while mag:
        mag //= base
        nd += 1
    loop = -(-nd // k) * k
    return max(loop, nd + 1) if signed else loop


def _eval_sizeof(e, nbytes):
    def rep(x):
        if x[0] == 'sizeof':
            return ('num', nbytes)
        if x[0] == 'bin':
            return ('bin', x[1], rep(x[2]), rep(x[3]))
        if x[0] == 'cast':
            return rep(x[2])
        if x[0] == 'un':
            return ('un', x[1], rep(x[2]))
        return x
    return const_of(rep(e))


def buffer_facts(body, info):
    """capacity of the digit buffer for every integer width"""
    out = []
    arrays = [(st, d) for st in body if st.kind == 'decl' for d in st.b if d[2] is not None]
    if len(arrays) != 1:
        raise Unmodelled('%d local arrays in the integer formatter' % len(arrays))
    name, _, size_text, _ = arrays[0][1]
    size_e = cx(size_text)
    end_e = None
    for st in body:
        if st.kind == 'decl':
            for nm, is_ptr, arr, init in st.b:
                if is_ptr and init is not None:
                    e = cx(init)
                    l = None
                    try:
                        l = lin(e)
                    except Unmodelled:
                        pass
                    if isinstance(l, LF) and l.t.get(name) == 1 and len([k for k in l.t if not k.startswith('sizeof')]) == 1 and (l.c or len(l.t) > 1):
                        end_e = ('bin', '-', e, ('id', name))
    if end_e is None:
        raise Unmodelled('the end pointer of the digit buffer was not found')
    for nbytes in (1, 2, 4, 8, 16):
        size = _eval_sizeof(size_e, nbytes)
        try:
            endoff = lin(subst_sizeof(end_e, nbytes))
        except Unmodelled:
            endoff = None
        need = max(digits_needed(b, k, nbytes * 8, sg) for (b, k) in set(info['cases'].values()) for sg in (True, False)) if info['cases'] else 0
        ok = isinstance(size, int) and isinstance(endoff, int) and need <= endoff <= size
        out.append(('buffer:%d' % nbytes, ok, "for a %d-byte integer type the digit buffer has %s characters and the write pointer starts at offset %s; the longest text "
                    "(digit groups of the most negative value plus the sign) needs %d" % (nbytes, size, endoff, need)))
    return out


def subst_sizeof(e, nbytes):
    if e[0] == 'sizeof':
        return ('num', nbytes)
    if e[0] == 'bin':
        return ('bin', e[1], subst_sizeof(e[2], nbytes), subst_sizeof(e[3], nbytes))
    if e[0] == 'cast':
        return subst_sizeof(e[2], nbytes)
    if e[0] == 'id':
        return ('num', 0) if False else e
    return e


DIGITS_PC = '''
    char digits[sizeof(T)*3+2];
    char *dpos, *end = digits + sizeof(T)*3+2;
    int last_one_off;
    T remaining;
    remaining = value;
    last_one_off = 0;
    dpos = end;
    do {
        int digit_pos;
        switch (format_char) {
        case 'o':
            digit_pos = abs((int)(remaining % (8*8)));
            remaining = (T) (remaining / (8*8));
            dpos -= 2;
            memcpy(dpos, DIGIT_PAIRS_8 + digit_pos * 2, 2);
            last_one_off = (digit_pos < 10);
            break;
        case 'd':
            digit_pos = abs((int)(remaining % (10*10)));
            remaining = (T) (remaining / 10);
            dpos -= 2;
            memcpy(dpos, DIGIT_PAIRS_10 + digit_pos * 2, 2);
            last_one_off = (digit_pos < 10);
            break;
        default:
            break;
        }
    } while (remaining != 0);
    dpos += last_one_off;
'''


def rule_digits(ctx, accepted_chars=None):
    r = Rule('C18-DIGITS', 'digit loop of the C integer formatter: for every format character the remainder modulus, the divisor, the characters written per step, the table '
             'stride and the excess-zero test belong to the base of that format (o 8, d 10, x/X 16); the digit tables hold the numerals in order (upper case for X); the loop runs '
             'until the value is 0; the stack buffer holds the longest text of 1..16-byte integer types', floor=24)
    no_gcc = lambda cond: False if 'GCC_DIAGNOSTIC' in cond else _unknown_cond(cond)
    params, body, line = load_function(ctx, TYPECONV, 'CIntToPyUnicode', DIGIT_FN, no_gcc)
    tables = c_string_tables(section_text(ctx, TYPECONV, 'CIntToDigits').raw)
    if len(tables) < 2:
        raise AnalysisError('TypeConversion.c::CIntToDigits: digit tables not found (%s)' % sorted(tables))
    chars = sorted(accepted_chars) if accepted_chars else ['X', 'd', 'o', 'x']
    chars = [c for c in chars if c in BASE_OF]
    key0 = 'TypeConversion.c::CIntToPyUnicode:'
    try:
        facts, info = digit_loop_facts(params, body, tables, chars)
        facts += buffer_facts(body, info)
    except (Unmodelled, CParseError, cexpr.EvalError) as e:
        raise AnalysisError('C18-DIGITS: the digit loop cannot be modelled: %s' % e)
    for suffix, ok, msg in facts:
        r.inst(key0 + suffix, sample='%s%s' % (key0, suffix))
        if not ok:
            r.violate(key0 + suffix, 'Cython/Utility/' + TYPECONV, line, msg)
    try:
        pbody = parse_body(DIGITS_PC.replace('(T)', '({{TYPE}})').replace('T remaining', '{{TYPE}} remaining'))
        pf, _ = digit_loop_facts(['value', 'width', 'padding_char', 'format_char'], pbody,
                                 {'DIGIT_PAIRS_8': ''.join(numeral(i, 8, 2, False) for i in range(64)), 'DIGIT_PAIRS_10': ''.join(numeral(i, 10, 2, False) for i in range(100))}, ['d', 'o'])
    except (Unmodelled, CParseError, cexpr.EvalError) as e:
        raise AnalysisError('C18-DIGITS positive control cannot be modelled: %s' % e)
    bad = {s for s, ok, m in pf if not ok}
    r.positive_control(bad == {'digits:d:divisor', 'digits:o:excess-zero'}, 'decimal case dividing by 10 after % 100; octal case testing digit_pos < 10')
    return r


# ====================================================================================================== C18-JOINC
JOIN_FN = '__Pyx_PyUnicode_Join'
# CPython string representation (unicodeobject.h): kind 1 holds characters up to 0xff (compact ASCII up to 0x7f), kind 2 up to 0xffff, kind 4 the rest; the kind is
# also the number of bytes per character.  A string must use the smallest kind that holds its characters (canonical form): equality first compares the kinds.
def maxchar_class(m):
    return 0 if m < 0x80 else 1 if m < 0x100 else 2 if m < 0x10000 else 4


def explore_c(run, max_runs=400):
    """run(decisions) -> result; explores every valuation of the undecided conditions"""
    out, stack = [], [[]]
    while stack:
        dec = stack.pop()
        try:
            out.append(run(dec))
        except NeedDecision:
            stack.append(dec + [True])
            stack.append(dec + [False])
            if len(stack) + len(out) > max_runs:
                raise Unmodelled('too many paths')
    return out


class _Stop(Exception):
    pass


def join_facts(params, body, consts):
    """-> [(key suffix, ok, message)] over all or-combinations of substring kinds"""
    facts = {}
    zero_sets = []

    def fact(key, ok, msg):
        if key not in facts or (facts[key][0] and not ok):
            facts[key] = (ok, msg)
    if len(params) != 4:
        raise Unmodelled('%s takes %d parameters' % (JOIN_FN, len(params)))
    for kind in [4, 0] + list(range(8)):
        want_class = 0 if kind == 0 else 1 if kind == 1 else 2 if kind < 4 else 4
        want_size = max(want_class, 1)
        probe = len(zero_sets) < 2

        def run(dec, kind=kind, want_class=want_class, want_size=want_size, probe=probe):
            bounds = {'len': (0, None), 'cnt': (0, None)}
            it = CInterp({}, bounds=bounds, consts=consts, decisions=dec)
            st = {'iter': 0, 'probe': probe and len(zero_sets) < 2}

            def call_hook(interp, name, args, env):
                if name in ('__Pyx_PyUnicode_GET_LENGTH', 'PyUnicode_GET_LENGTH') and st.get('in_loop'):
                    st['L'] = LF.sym('L')
                    bounds.setdefault('L', (0, None))
                    return st['L']
                if name in ('PyUnicode_CopyCharacters', '_PyUnicode_FastCopyCharacters') and len(args) == 5 and st.get('in_loop'):
                    to, to_start, frm, from_start, n = (interp.ev(a, env) for a in args)
                    st['copied'] = True
                    ok = to is st['result'] and _eq(to_start, st['P']) and _eq(from_start, 0) and 'L' in st and _eq(n, st['L'])
                    fact('copy-characters', ok, '%s(%r, %r, <substring>, %r, %r): the substring must be copied completely to the current write position of the result' % (name, to, to_start, from_start, n))
                    return 0
                if name == 'memcpy' and len(args) == 3 and st.get('in_loop'):
                    d, src, n = (interp.ev(a, env) for a in args)
                    st['copied'] = True
                    size = st['charsize']
                    ok = isinstance(d, Ptr) and d.buf is st['result'].buf and 'L' in st and _eq(d.off, LF.of(st['P']) * size) and _eq(n, LF.of(st['L']) * size)
                    fact('memcpy-scale:%d' % kind, ok, 'or-ed substring kinds %d (result allocated with %d byte(s) per character): memcpy writes %r bytes at byte offset %r; it must write '
                         'length*%d bytes at position*%d' % (kind, size, n, getattr(d, 'off', d), size, size))
                    return 0
                return NotImplemented

            def loop_hook(interp, lst, env):
                if lst.kind != 'for' or st.get('seen'):
                    return False
                st['seen'] = True
                res = [v for v in env.values() if isinstance(v, StrObj) and v.buf is not None]
                if len(res) != 1:
                    raise Unmodelled('%d strings allocated before the copy loop' % len(res))
                st['result'] = res[0]
                mx = res[0].maxchar
                if not isinstance(mx, int):
                    raise Unmodelled('maximum character %r' % (mx,))
                fact('maxchar:%d' % kind, maxchar_class(mx) == want_class,
                     'or-ed substring kinds %d: the result is allocated for characters up to 0x%x (%s); the widest substring kind in this combination needs %s (a wider '
                     'allocation is a non-canonical string, a narrower one truncates)' % (kind, mx, _kind_name(maxchar_class(mx)), _kind_name(want_class)))
                st['charsize'] = max(maxchar_class(mx), 1)
                fact('length', _eq(res[0].buf.size, LF.sym('len')), 'the result is allocated with %r characters instead of the length argument' % (res[0].buf.size,))
                # the character size variables the loop uses
                body_names = {x[1] for s2 in walk_st([lst.d]) for t in (s2.a, s2.b, s2.c) if isinstance(t, str) for x in _ids(t)}
                sizes = {nm: v for nm, v in env.items() if isinstance(nm, str) and nm in body_names and isinstance(v, int) and nm not in params}
                # one abstract iteration
                counters = [nm for nm in sorted(body_names) if type(env.get(nm)) is int and env.get(nm) == 0 and nm not in params]
                zero_sets.append(set(counters))
                if st.get('probe'):
                    raise _Stop()
                counters = sorted(set.intersection(*zero_sets))      # zero at loop entry for every kind combination: the write position, not a size
                m = re.match(r'^\s*(?:\w+\s+)?([A-Za-z_]\w*)\s*=', lst.a)
                loopvar = m.group(1) if m else None
                counters = [c for c in counters if c != loopvar]
                if len(counters) != 1:
                    raise Unmodelled('write position of the copy loop: candidates %s' % counters)
                pos = counters[0]
                st['P'] = LF.sym('P')
                bounds['P'] = (0, None)
                env2 = dict(env)
                env2[pos] = st['P']
                if loopvar:
                    env2[loopvar] = LF.sym('i')
                    bounds['i'] = (0, None)
                st['in_loop'] = True
                try:
                    interp.run_stmt(lst.d, env2)
                    done = True
                except _Continue:
                    done = True
                except _Break:
                    done = False
                st['in_loop'] = False
                if done:
                    want = _add(st['P'], st.get('L', 0))
                    fact('advance', _eq_b(env2[pos], want, bounds), 'after copying a substring of length L the write position `%s` is %r on some path; it must be P + L '
                         '(later substrings would overwrite or leave gaps)' % (pos, env2[pos]))
                    if 'L' in st and bounds.get('L', (0, None))[0] != 0 or ('L' in st and bounds.get('L') == (1, None)):
                        pass
                    if 'L' in st and bounds.get('L') != (0, 0) and not st.get('copied'):
                        fact('copies', False, 'a path through the loop body completes for a non-empty substring without copying it')
                    ukv = [v for nm, v in sizes.items()]
                raise _Stop()
            it.call_hook = call_hook
            it.loop_hook = loop_hook
            env = dict(zip(params, [Opaque('values'), LF.sym('cnt'), LF.sym('len'), kind]))
            try:
                it.run_items(body, env, toplevel=True)
            except _Ret:
                pass
            except _Stop:
                pass
            except BufferOverflow as e:
                fact('table:%d' % kind, False, 'or-ed substring kinds %d: %s' % (kind, e))
                return
            if not st.get('seen'):
                # paths that leave before the loop (allocation failure, overflow) are fine; at least one path must reach it
                return 'early'
            return 'loop'
        results = explore_c(run)
        if probe:
            facts.clear()
            continue
        if 'loop' not in results and ('table:%d' % kind) not in facts:
            raise Unmodelled('no path reaches the copy loop for kind %d' % kind)
    return [(k, ok, msg) for k, (ok, msg) in sorted(facts.items())]


def _kind_name(c):
    return {0: 'ASCII', 1: '1-byte kind', 2: '2-byte kind', 4: '4-byte kind'}[c]


def _ids(text):
    try:
        return [x for x in cexpr.walk(cx(text)) if x[0] == 'id']
    except CParseError:
        return [('id', m) for m in re.findall(r'[A-Za-z_]\w*', text)]


def _eq(a, b):
    try:
        return LF.of(a) == LF.of(b)
    except Undecided:
        return False


def _eq_b(a, b, bounds):
    try:
        return decide('==', a, b, bounds)
    except Undecided:
        return False


JOIN_PC = '''
    PyObject *result_uval;
    int result_ukind, kind_shift;
    Py_ssize_t i, char_pos;
    void *result_udata;
    static const Py_UCS4 max_char[5] = {0x7fU, 0xffU, 0xffffU, 0x10ffffU, 0x10ffffU};
    if (kind > PyUnicode_4BYTE_KIND) kind = PyUnicode_4BYTE_KIND;
    result_uval = PyUnicode_New(result_ulength, max_char[kind]);
    if (unlikely(!result_uval)) return NULL;
    kind_shift = kind >> 1;
    result_ukind = 1 << kind_shift;
    result_udata = PyUnicode_DATA(result_uval);
    char_pos = 0;
    for (i=0; i < value_count; i++) {
        int ukind;
        Py_ssize_t ulength;
        void *udata;
        PyObject *uval = values[i];
        ulength = __Pyx_PyUnicode_GET_LENGTH(uval);
        if (unlikely(!ulength))
            continue;
        ukind = __Pyx_PyUnicode_KIND(uval);
        udata = __Pyx_PyUnicode_DATA(uval);
        if (ukind == result_ukind) {
            memcpy((char *)result_udata + (char_pos << kind_shift), udata, (size_t) ulength);
        } else {
            _PyUnicode_FastCopyCharacters(result_uval, char_pos, uval, 0, ulength);
        }
        char_pos += ulength;
    }
    return result_uval;
'''
JOIN_CONSTS = {'PyUnicode_1BYTE_KIND': 1, 'PyUnicode_2BYTE_KIND': 2, 'PyUnicode_4BYTE_KIND': 4, 'PY_SSIZE_T_MAX': (1 << 63) - 1}


def rule_joinc(ctx):
    r = Rule('C18-JOINC', '__Pyx_PyUnicode_Join (the f-string builder): for every or-combination 0..7 of the substring kinds the result is allocated in the canonical kind of the widest '
             'substring (max_char table, clamp), raw copies are scaled by that character size, substrings are copied completely to the current write position and the position advances '
             'by the substring length on every path of the loop body', floor=14)
    key0 = 'StringTools.c::JoinPyUnicode:'
    n_cfg = 0
    for cfg, py313 in (('py>=3.13', True), ('py<3.13', False)):
        def chooser(cond, py313=py313):
            c = ' '.join(cond.split())
            if c.startswith('__Pyx_PyUnicode_Join_CAN_USE_KIND_AND_LENGTH'):
                return True
            if c == '!CYTHON_ASSUME_SAFE_SIZE':
                return True
            if c.startswith('PY_VERSION_HEX >= 0x030d0000'):
                return py313
            if 'FastCopyCharacters' in c:
                return True
            return _unknown_cond(cond)
        params, body, line = load_function(ctx, STRTOOLS, 'JoinPyUnicode', JOIN_FN, chooser)
        try:
            facts = join_facts(params, body, JOIN_CONSTS)
        except (Unmodelled, Undecided, CParseError) as e:
            raise AnalysisError('C18-JOINC (%s): %s cannot be interpreted: %s' % (cfg, JOIN_FN, e))
        n_cfg += 1
        for suffix, ok, msg in facts:
            key = '%s%s' % (key0, suffix)
            r.inst('%s@%s' % (key, cfg), sample='%s (%s)' % (key, cfg))
            vkey = key0 + suffix.split(':')[0]          # one report per obligation, the first failing kind combination in the message
            if not ok and not any(f.construct == vkey for f in r.findings):
                r.violate(vkey, 'Cython/Utility/' + STRTOOLS, line, msg)
    r.info('the character-by-character fallback (#else of the _PyUnicode_FastCopyCharacters test) is not interpreted')
    try:
        pf = join_facts(['values', 'value_count', 'result_ulength', 'kind'], parse_body(JOIN_PC), JOIN_CONSTS)
    except (Unmodelled, Undecided, CParseError) as e:
        raise AnalysisError('C18-JOINC positive control cannot be interpreted: %s' % e)
    bad = {s for s, ok, m in pf if not ok}
    r.positive_control({'maxchar:3', 'memcpy-scale:2', 'memcpy-scale:4'} <= bad and 'maxchar:2' not in bad and 'advance' not in bad,
                       'max_char[1|2] = 0x10ffff and a memcpy that is not scaled by the character size')
    return r


# ====================================================================================================== C18-CHRRANGE / C18-CHRPAD
UCHAR_FN = '__Pyx_uchar_{{TO_PY_FUNCTION}}'
PADDED_FN = '__Pyx_PyUnicode_FromOrdinal_Padded'
CHECK_FN = '__Pyx_CheckUnicodeValue'
MAX_UNICODE = 0x10FFFF


def _no_cond(cond):
    if 'GCC_DIAGNOSTIC' in cond:
        return False
    return _unknown_cond(cond)


def range_representatives(literals, bits, unsigned):
    """boundary representatives: every threshold t of the guard (its literals, 0, the unicode limit, the int truncation limits) as t-1, t, t+1, in every
    32-bit page the type reaches, plus the extremes of the type"""
    thresholds = set(literals) | {0, 1, MAX_UNICODE, MAX_UNICODE + 1, 0xD800, 0xE000, 1 << 31, 1 << 32}
    thresholds |= {t + 1 for t in literals}
    lows = set()
    for t in thresholds:
        lows |= {t - 1, t, t + 1}
    vals = set()
    for hi in (0, 1, (1 << 31) - 1, (1 << 32) - 1):
        for l in lows:
            vals.add((hi << 32) + l)
    lo_t, hi_t = (0, (1 << bits) - 1) if unsigned else (-(1 << (bits - 1)), (1 << (bits - 1)) - 1)
    vals |= {lo_t, hi_t, hi_t - 1, -1, -2, -MAX_UNICODE - 1, lo_t + 1}
    # bit-test atoms (`value & C`, `value & ~C`, shifts): a literal of the guard may be used as a MASK, where the classes are not the intervals around it but the sets
    # of bits it selects.  A bit test is monotone in the bit set, so it is decided per bit: every single bit alone (with its interval neighbours), the largest code point
    # and every literal of the guard with exactly one bit flipped (one bit missing from / one bit added to the mask), and both ends of every 16-bit plane up to twice
    # the unicode range (a mask with a hole drops whole planes).
    for k in range(bits):
        vals |= {1 << k, (1 << k) - 1, (1 << k) + 1, -(1 << k), MAX_UNICODE ^ (1 << k)}
        if k < 33:
            for l in literals:
                if l > 0xff:
                    vals |= {l ^ (1 << k), (l | (1 << k)) & ~((1 << k) - 1), l & ~(1 << k) | ((1 << k) - 1)}
    for plane in range(0x22):
        vals |= {plane << 16, (plane << 16) | 0xFFFF, (plane << 16) | 0x8000}
    return sorted(v for v in vals if lo_t <= v <= hi_t)


def chrrange_problems(uchar_fn, check_fn):
    params, body = uchar_fn
    if len(params) != 3:
        raise Unmodelled('%s takes %d parameters' % (UCHAR_FN, len(params)))
    lits = {x for x in int_literals(body) | int_literals(check_fn[1])}
    problems, count = [], 0
    for bits in (8, 16, 32, 64):
        for unsigned in (False, True):
            for v in range_representatives(lits, bits, unsigned):
                for width in (0, 1, 5):
                    count += 1
                    st = {}

                    def hook(interp, name, args, env, st=st):
                        if name == 'PyErr_SetString':
                            st['exc'] = args[0][1] if args and args[0][0] == 'id' else '?'
                            return 0
                        if name == 'PyUnicode_FromOrdinal' and len(args) == 1:
                            st['char'] = interp.ev(args[0], env)
                            st['how'] = 'plain'
                            return StrObj(pieces=[], how=name)
                        if name == PADDED_FN and len(args) == 3:
                            st['char'], st['w'], st['pad'] = (interp.ev(a, env) for a in args)
                            st['how'] = 'padded'
                            return StrObj(pieces=[], how=name)
                        return NotImplemented
                    it = CInterp({CHECK_FN: check_fn}, consts={}, type_bits=bits, type_unsigned=unsigned)
                    it.call_hook = hook
                    env = dict(zip(params, [v, width, SPACE]))
                    try:
                        it.run_items(body, env, toplevel=True)
                        res = 0
                    except _Ret as r:
                        res = r.v
                    who = '%s %d-bit value %s, width %d' % ('unsigned' if unsigned else 'signed', bits, hex(v), width)
                    valid = 0 <= v <= MAX_UNICODE
                    if valid:
                        if not isinstance(res, StrObj) or st.get('char') != v:
                            problems.append((who, 'is rejected or converted as %r; CPython formats the character' % (st.get('char'),)))
                        elif (st.get('how') == 'plain' and width > 1) or (st.get('how') == 'padded' and (width < 1 or (st.get('w'), st.get('pad')) != (width, SPACE))):
                            problems.append((who, 'loses the width/padding (%s, width %r, padding %r)' % (st.get('how'), st.get('w'), st.get('pad'))))
                    else:
                        if isinstance(res, StrObj):
                            c = st.get('char')
                            problems.append((who, "passes the range check and is handed on as character %s; CPython raises OverflowError('%%c arg not in range(0x110000)')"
                                             % (hex(c) if isinstance(c, int) else c)))
                        elif st.get('exc') != 'PyExc_OverflowError':
                            problems.append((who, 'raises %s; CPython raises OverflowError' % st.get('exc')))
    return count, problems


CHRRANGE_PC_UCHAR = '''
    const T neg_one = (T) -1, const_zero = (T) 0;
    const int is_unsigned = neg_one > const_zero;
    if (unlikely(!(is_unsigned || value > 0) || !(sizeof(value) <= 2 || (!(value & ~ (T) 0x01fffff) && __Pyx_CheckUnicodeValue((int) value))))) {
        PyErr_SetString(PyExc_OverflowError, "%c arg not in range(0x110000)");
        return NULL;
    }
    if (width <= 1) {
        return PyUnicode_FromOrdinal((int) value);
    }
    return __Pyx_PyUnicode_FromOrdinal_Padded((int) value, width, padding_char);
'''


def rule_chrrange(ctx):
    """C18-CHRRANGE  (registered since the repair a3e04b332 of FINDING_C18_1).  Round 9: the representatives also decide the bit-test atoms of the guard
    (a literal used as a mask: per-bit classes, one-bit-flipped literals, plane ends) - seed C18n wrote the mask as the largest code point 0x10ffff."""
    r = Rule('C18-CHRRANGE', "f'{c_int:c}': the range guard of __Pyx_uchar_{{TO_PY_FUNCTION}} rejects exactly the values outside 0..0x10FFFF with OverflowError and hands the accepted value on "
             'unchanged, for signed/unsigned types of 1, 2, 4 and 8 bytes (truth table over the boundary classes of every threshold of the guard and the per-bit classes of its bit tests, with C truncation of the (int) cast)', floor=3500)
    up, ubody, line = load_function(ctx, TYPECONV, 'CIntToPyUnicode', UCHAR_FN, _no_cond)
    cp, cbody, _ = load_function(ctx, TYPECONV, 'COrdinalToPyUnicode', CHECK_FN, _no_cond)
    try:
        count, problems = chrrange_problems((up, ubody), (cp, cbody))
    except (Unmodelled, Undecided, CParseError) as e:
        raise AnalysisError('C18-CHRRANGE: %s cannot be interpreted: %s' % (UCHAR_FN, e))
    key = 'TypeConversion.c::CIntToPyUnicode:uchar-range'
    for i in range(count):
        r.inst('%s#%d' % (key, i))
    r.samples.append('%s: %d (type, value class, width) cases' % (key, count))
    if problems:
        r.violate(key, 'Cython/Utility/' + TYPECONV, line, "the range check of the 'c' format is wrong for %d of %d cases; first: %s %s%s" % (
            len(problems), count, problems[0][0], problems[0][1], ''.join('; %s %s' % p for p in problems[1:3])))
    try:
        pc_count, pc = chrrange_problems((['value', 'width', 'padding_char'], parse_body(CHRRANGE_PC_UCHAR.replace('(T)', '({{TYPE}})').replace('const T', 'const {{TYPE}}'))),
                                         (['value'], parse_body('return value <= 1114111;')))
    except (Unmodelled, Undecided, CParseError) as e:
        raise AnalysisError('C18-CHRRANGE positive control cannot be interpreted: %s' % e)
    r.positive_control(bool(pc) and all(' value 0x0,' in w for w, m in pc), 'a guard that rejects 0 for signed types')
    return r


def utf8_reference(v, lo):
    """RFC 3629 bit layout for a value of the class starting at lo: list of 8-bit BVs"""
    n = 1 if lo < 0x80 else 2 if lo < 0x800 else 3 if lo < 0x10000 else 4
    if n == 1:
        return [BV(v.bits[:7] + (0,) * (BV.N - 7), None, None)]
    out = []
    for j in range(n - 1):
        out.append(BV(v.bits[6 * j:6 * j + 6] + (0, 1) + (0,) * (BV.N - 8), None, None))
    lead_payload = 7 - n
    marker = {2: (0, 1, 1), 3: (0, 1, 1, 1), 4: (0, 1, 1, 1, 1)}[n]        # bits from position lead_payload upwards: 0 then n ones
    out.append(BV(v.bits[6 * (n - 1):6 * (n - 1) + lead_payload] + marker + (0,) * (BV.N - 8), None, None))
    out.reverse()
    return out


def value_classes(literals):
    pts = {0, 0x80, 0x100, 0x800, 0xD800, 0xE000, 0x10000, MAX_UNICODE + 1}
    for c in literals:
        if 1 < c <= MAX_UNICODE:
            pts |= {c, c + 1}
    pts = sorted(p for p in pts if 0 <= p <= MAX_UNICODE + 1)
    return [(a, b - 1) for a, b in zip(pts, pts[1:])]


def chrpad_problems(padded_fn, build_fn, internals):
    params, body = padded_fn
    if len(params) != 3:
        raise Unmodelled('%s takes %d parameters' % (PADDED_FN, len(params)))
    lits = int_literals(body)
    widths = {1, 2, 3}
    for c in lits:
        if 2 <= c <= 600:
            widths |= {c - 1, c, c + 1, c + 2}
    widths = sorted(w for w in widths if w >= 1)
    problems, count = [], 0
    pad = ZERO
    for lo, hi in value_classes(lits):
        for w in widths:
            count += 1
            who = 'character U+%04X..U+%04X, width %d' % (lo, hi, w)
            v = BV.of_class(lo, hi)
            it = CInterp({BUILD_FN: build_fn}, consts=dict(LAYOUT_CONSTS, CYTHON_USE_UNICODE_INTERNALS=int(internals)), type_bits=32)
            env = dict(zip(params, [v, w, pad]))
            try:
                it.run_items(body, env, toplevel=True)
                res = 0
            except _Ret as r:
                res = r.v
            except BufferOverflow as e:
                problems.append((who, 'out-of-bounds access: %s' % e))
                continue
            except UninitRead as e:
                problems.append((who, str(e)))
                continue
            if not isinstance(res, StrObj):
                problems.append((who, 'returns %r instead of a string' % (res,)))
                continue
            got = norm_pieces(res.content(), {})
            surrogate = 0xD800 <= lo <= 0xDFFF
            if res.how == 'PyUnicode_DecodeUTF8':
                if surrogate:
                    problems.append((who, 'a surrogate code point is sent through the UTF-8 decoder, which rejects it (UnicodeDecodeError)'))
                    continue
                want = [Piece(w - 1, 'fill', pad)] + [Piece(1, 'byte', b) for b in utf8_reference(v, lo)]
                what = 'UTF-8 bytes'
            else:
                want = [Piece(w - 1, 'fill', pad), Piece(1, 'byte', BV(v.bits, None, None))]
                what = 'characters (%s)' % res.how
                if res.how == 'PyUnicode_DecodeASCII' and hi > 0x7f:
                    problems.append((who, 'a non-ASCII character is decoded as ASCII'))
                    continue
                if res.maxchar is not None and isinstance(res.maxchar, int) and hi > res.maxchar:
                    problems.append((who, 'the result is allocated for characters up to 0x%x' % res.maxchar))
                    continue
            want = norm_pieces(want, {})
            if not same_pieces(got, want):
                problems.append((who, 'builds the %s  %s  instead of  %s' % (what, show_pieces(got), show_pieces(want))))
    return count, problems


CHRPAD_PC = '''
    Py_ssize_t padding_length = ulength - 1;
    if (likely((padding_length <= 250) && (value < 0xD800 || value > 0xDFFF))) {
        char chars[256];
        if (value <= 255) {
            memset(chars, padding_char, (size_t) padding_length);
            chars[ulength-1] = (char) value;
            return PyUnicode_DecodeLatin1(chars, ulength, NULL);
        }
        char *cpos = chars + sizeof(chars);
        if (value < 0x800) {
            *--cpos = (char) (0x80 | (value & 0x3f));
            value >>= 6;
            *--cpos = (char) (0xc0 | (value & 0x1f));
        } else if (value <= 0x10000) {
            *--cpos = (char) (0x80 | (value & 0x3f));
            value >>= 6;
            *--cpos = (char) (0x80 | (value & 0x3f));
            value >>= 6;
            *--cpos = (char) (0xe0 | (value & 0x0f));
        } else {
            *--cpos = (char) (0x80 | (value & 0x3f));
            value >>= 6;
            *--cpos = (char) (0x80 | (value & 0x3f));
            value >>= 6;
            *--cpos = (char) (0x80 | (value & 0x3f));
            value >>= 6;
            *--cpos = (char) (0xf0 | (value & 0x07));
        }
        cpos -= padding_length;
        memset(cpos, padding_char, (size_t) padding_length);
        return PyUnicode_DecodeUTF8(cpos, chars + sizeof(chars) - cpos, NULL);
    }
    {
        PyObject *uchar, *padding_uchar, *padding, *result;
        padding_uchar = PyUnicode_FromOrdinal(padding_char);
        padding = PySequence_Repeat(padding_uchar, padding_length);
        uchar = PyUnicode_FromOrdinal(value);
        result = PyUnicode_Concat(padding, uchar);
        return result;
    }
'''


def rule_chrpad(ctx):
    r = Rule('C18-CHRPAD', "f'{c_int:5c}': __Pyx_PyUnicode_FromOrdinal_Padded builds  padding * (width-1) + chr(value)  for every class of code points (boundaries of Latin-1, the UTF-8 lengths, "
             'the surrogates and every constant of the function) and every width class around its buffer limits: writes stay inside the stack buffer, surrogates avoid the UTF-8 '
             'decoder, and the encoded bytes are the RFC 3629 bit slices of the value (bit-vector interpretation)', floor=150)
    pp, pbody, line = load_function(ctx, TYPECONV, 'COrdinalToPyUnicode', PADDED_FN, _no_cond)
    key0 = 'TypeConversion.c::COrdinalToPyUnicode:padded'
    for cfg, internals in (('unicode-internals', True), ('generic-api', False)):
        chooser = lambda cond, val=internals: val if cond.strip() == 'CYTHON_USE_UNICODE_INTERNALS' else _unknown_cond(cond)
        bp, bbody, _ = load_function(ctx, STRTOOLS, 'BuildPyUnicode', BUILD_FN, chooser)
        try:
            count, problems = chrpad_problems((pp, pbody), (bp, bbody), internals)
        except (Unmodelled, Undecided, CParseError) as e:
            raise AnalysisError('C18-CHRPAD (%s): %s cannot be interpreted: %s' % (cfg, PADDED_FN, e))
        key = '%s:%s' % (key0, cfg)
        for i in range(count):
            r.inst('%s#%d' % (key, i))
        r.samples.append('%s: %d (code point class, width) cases' % (key, count))
        if problems:
            r.violate(key, 'Cython/Utility/' + TYPECONV, line, 'the padded character builder is wrong for %d of %d cases; first: %s %s%s' % (
                len(problems), count, problems[0][0], problems[0][1], ''.join('; %s %s' % p for p in problems[1:3])))
    try:
        pc_count, pc = chrpad_problems((['value', 'ulength', 'padding_char'], parse_body(CHRPAD_PC)), (['a'], []), False)
    except (Unmodelled, Undecided, CParseError) as e:
        raise AnalysisError('C18-CHRPAD positive control cannot be interpreted: %s' % e)
    r.positive_control(bool(pc) and all('U+10000..U+10000' in w for w, m in pc), 'U+10000 encoded with three bytes')
    return r


# ====================================================================================================== C18-CHELP (small decision tables of the object helpers)
# References.  C-API "PyOS_double_to_string": flags Py_DTSF_ADD_DOT_0 (0x02) "ensures that the returned string will not look like an integer".  float.__repr__ uses
# ('r', 0, Py_DTSF_ADD_DOT_0); float.__format__ with an explicit presentation type passes no flag (only '#' adds Py_DTSF_ALT), so '3' stays '3' for '.0f'.
# format(x, '') == str(x); for exact int and float str(x) is repr(x) (tp_str is inherited from object and calls tp_repr); str(None) == 'None'.
DTSF = {'Py_DTSF_SIGN': 1, 'Py_DTSF_ADD_DOT_0': 2, 'Py_DTSF_ALT': 4, 'Py_DTSF_NO_NEG_0': 8}
FAST_TYPES = {'Long': 'int', 'Float': 'float', 'Unicode': 'str'}


def dbl_facts(params, body, codes):
    out = []
    if len(params) != 3:
        raise Unmodelled('__Pyx_PyUnicode_FromDouble takes %d parameters' % len(params))
    for ch in sorted(codes):
        seen = {}

        def hook(interp, name, args, env, seen=seen):
            if name == 'PyOS_double_to_string' and len(args) >= 4:
                seen['args'] = [interp.ev(a, env) for a in args[:4]]
                return Opaque('buffer')
            if name == 'PyUnicode_FromString':
                return StrObj(pieces=[], how=name)
            return NotImplemented
        it = CInterp({}, consts=DTSF, decisions=[True] * 4)
        it.call_hook = hook
        env = dict(zip(params, [Opaque('value'), ord(ch), LF.sym('prec')]))
        try:
            it.run_items(body, env, toplevel=True)
        except _Ret:
            pass
        if 'args' not in seen:
            raise Unmodelled('PyOS_double_to_string is not called for code %r' % ch)
        val, code, prec, flags = seen['args']
        want = DTSF['Py_DTSF_ADD_DOT_0'] if ch == 'r' else 0
        # the flag only acts on results without an exponent (format_float_short: `!use_exp && add_dot_0_if_integer`); e/E always have one
        allowed = {want, DTSF['Py_DTSF_ADD_DOT_0']} if ch in 'eE' else {want}
        out.append(('double-flags:%s' % ch, flags in allowed and code == ord(ch) and _eq(prec, LF.sym('prec')),
                    "format code %r: PyOS_double_to_string is called with code %r, precision %r and flags %r; CPython uses the code and precision as given and flags %d (%s)"
                    % (ch, chr(code) if isinstance(code, int) and 0 < code < 128 else code, prec, flags, want,
                       "repr() adds '.0' to integral values" if ch == 'r' else "format() with a presentation type never adds '.0': f'{3.0:.0f}' is '3'")))
    return out


def none_facts(text):
    """__Pyx_PyUnicode_Unicode(obj): the text for None, the object itself otherwise"""
    f = find_function(text, '__Pyx_PyUnicode_Unicode')
    if f is None:
        raise Unmodelled('__Pyx_PyUnicode_Unicode not found')
    lits = []

    def lit(m):
        lits.append(bytes(m.group(1), 'latin-1').decode('unicode_escape'))
        return '__PYU%d__' % (len(lits) - 1)
    btext = re.sub(r'\bPYUNICODE\s*\(\s*"((?:\\.|[^"\\])*)"\s*\)', lit, f[1])
    params, body = param_names(f[0]), parse_body(btext)
    out = []
    for what, val in (('None', 1), ('a string', 2)):
        consts = {'Py_None': 1}
        consts.update({'__PYU%d__' % i: ('text', t) for i, t in enumerate(lits)})

        def hook(interp, name, args, env):
            if name in ('__Pyx_NewRef', 'Py_NewRef') and len(args) == 1:
                return interp.ev(args[0], env)
            return NotImplemented
        it = CInterp({}, consts=consts)
        it.call_hook = hook
        it.cmp = _cmp_tokens(it.cmp)
        try:
            it.run_items(body, dict(zip(params, [val])), toplevel=True)
            res = 0
        except _Ret as r:
            res = r.v
        want = ('text', str(None)) if val == 1 else 2
        out.append(('str-of-none:%s' % what.split()[-1], res == want, "__Pyx_PyUnicode_Unicode (str() of a value typed `str`) returns %s for %s; it must return %s"
                    % ('the text %r' % (res[1],) if isinstance(res, tuple) else 'the argument itself' if res == val else repr(res), what,
                       "the text 'None'" if val == 1 else 'the argument itself')))
    return out


def _cmp_tokens(orig):
    def cmp(op, a, b):
        if isinstance(a, tuple) or isinstance(b, tuple):
            return int((a == b) == (op == '=='))
        return orig(op, a, b)
    return cmp


def _check_type(e, exact=None):
    """Py<T>_CheckExact(x) / Py<T>_Check(x) inside likely()/unlikely() -> T   (exact: optional list that receives whether the check is the exact one)"""
    e = strip_casts(e)
    if e[0] == 'call':
        m = re.fullmatch(r'Py(\w+?)_Check(Exact)?', e[1])
        if m:
            if exact is not None:
                exact.append(bool(m.group(2)))
            return m.group(1)
    return None


def _typed_names(x):
    """type names T mentioned as Py<T>_Type... or _Py<T>_Format... in an expression / statement list"""
    names = set()
    for m in re.finditer(r'\b_?Py([A-Z][a-z]+)_(?:Type\b|Format\w+|AsString\w*)', x):
        names.add(m.group(1))
    return names


def fastpath_facts(ctx):
    out = []
    # ---- macro variants of __Pyx_PyObject_FormatSimple
    raw = strip_c_comments(section_text(ctx, STRTOOLS, 'PyObjectFormatSimple', 'proto').raw).replace('\\\n', ' ')
    n = 0
    for mi, m in enumerate(re.finditer(r'#\s*define\s+__Pyx_PyObject_FormatSimple\s*\(([^)]*)\)\s*(.*)', raw)):
        rest = m.group(2).strip()
        k = 0
        while True:
            parts = _split_ternary(rest)
            if parts is None:
                break
            cond, then, rest = parts
            e = (None, cx(cond), then)
            ex = []
            t = _check_type(e[1], ex)
            if t is None:
                raise Unmodelled('FormatSimple variant %d: condition %r' % (mi, cond))
            used = _typed_names(then)
            n += 1
            ok = t in FAST_TYPES and used <= {t} and ex == [True]
            out.append(('format-simple:%d:%s' % (mi, t), ok, "__Pyx_PyObject_FormatSimple (variant %d): objects that pass `%s` are handled with %s: a fast path must test the exact type "
                        "(a subclass may override __format__/__str__/__repr__), use the slots of the type it tested, and exist only for int, float, str (str(x) == format(x, ''))"
                        % (mi, cond, sorted(used) or 'the object itself')))
            k += 1
    if n < 3:
        raise Unmodelled('only %d type fast paths found in the __Pyx_PyObject_FormatSimple macros' % n)
    # ---- __Pyx_PyObject_Format: if (Py<T>_CheckExact(obj)) { ... _Py<T>_FormatAdvancedWriter(...) }
    impl = section_text(ctx, STRTOOLS, 'PyObjectFormat')
    text = preprocess(impl.raw, lambda cond: True if cond.strip() == 'CYTHON_USE_UNICODE_WRITER' else _unknown_cond(cond))
    f = find_function(text, '__Pyx_PyObject_Format')
    if f is None:
        raise Unmodelled('__Pyx_PyObject_Format not found')
    m2 = 0

    def visit(st):
        nonlocal m2
        if st.kind == 'if':
            ex = []
            t = _check_type(cx(st.a), ex)
            if t is not None:
                used = set()
                for s2 in walk_st([st.b]):
                    for x in (s2.a, s2.b):
                        if isinstance(x, str):
                            used |= _typed_names(x)
                m2 += 1
                out.append(('format:%s' % t, used <= {t} and t in ('Long', 'Float') and ex == [True], "__Pyx_PyObject_Format: objects that pass `%s` are formatted with the %s formatter "
                            "(the check must be the exact-type check of the formatter's type)" % (st.a, sorted(used))))
            if st.c is not None:
                visit(st.c)
    for st in parse_body(f[1]):
        visit(st)
    if m2 < 2:
        raise Unmodelled('only %d typed fast paths found in __Pyx_PyObject_Format' % m2)
    return out


def _split_ternary(t):
    """'(c ? a : b)' -> (c, a, b) at the top level, None if there is no conditional"""
    t = t.strip()
    while t.startswith('(') and _match(t, 0, '(', ')') == len(t) - 1:
        t = t[1:-1].strip()
    depth, q = 0, None
    for i, ch in enumerate(t):
        if ch in '([':
            depth += 1
        elif ch in ')]':
            depth -= 1
        elif ch == '?' and depth == 0 and q is None:
            q = i
        elif ch == ':' and depth == 0 and q is not None:
            return t[:q].strip(), t[q + 1:i].strip(), t[i + 1:].strip()
    return None


def _unparse(e):
    k = e[0]
    if k in ('num', 'char'):
        return str(e[1])
    if k == 'id':
        return e[1]
    if k == 'call':
        return '%s(%s)' % (e[1], ', '.join(_unparse(a) for a in e[2]))
    if k == 'cast':
        return '(%s)%s' % (e[1], _unparse(e[2]))
    if k == 'un':
        return e[1] + _unparse(e[2])
    if k == 'bin':
        return '(%s %s %s)' % (_unparse(e[2]), e[1], _unparse(e[3]))
    if k == 'tern':
        return '(%s ? %s : %s)' % tuple(_unparse(x) for x in e[1:])
    return '?'


def rule_chelp(ctx, double_codes=('e', 'E', 'f', 'F', 'g', 'G', 'r')):
    r = Rule('C18-CHELP', "decision tables of the small formatting helpers: __Pyx_PyUnicode_FromDouble passes Py_DTSF_ADD_DOT_0 exactly for the repr code; __Pyx_PyUnicode_Unicode returns the text "
             "'None' exactly for None; every type fast path of __Pyx_PyObject_FormatSimple / __Pyx_PyObject_Format uses the slots / formatter of the type it checked", floor=14)
    facts = []
    try:
        dp, dbody, dline = load_function(ctx, TYPECONV, 'CDoubleToPyUnicode', '__Pyx_PyUnicode_FromDouble', _no_cond)
        facts += [('TypeConversion.c::CDoubleToPyUnicode:' + k, ok, m, 'Cython/Utility/' + TYPECONV, dline) for k, ok, m in dbl_facts(dp, dbody, double_codes)]
        sec = section_text(ctx, STRTOOLS, 'PyUnicode_Unicode')
        facts += [('StringTools.c::PyUnicode_Unicode:' + k, ok, m, 'Cython/Utility/' + STRTOOLS, sec.line) for k, ok, m in none_facts(preprocess(sec.raw, _no_cond))]
        fsec = section_text(ctx, STRTOOLS, 'PyObjectFormatSimple', 'proto')
        facts += [('StringTools.c::PyObjectFormat:' + k, ok, m, 'Cython/Utility/' + STRTOOLS, fsec.line) for k, ok, m in fastpath_facts(ctx)]
    except (Unmodelled, Undecided, CParseError) as e:
        raise AnalysisError('C18-CHELP: a helper cannot be interpreted: %s' % e)
    for key, ok, msg, rel, line in facts:
        r.inst(key, sample=key)
        if not ok:
            r.violate(key, rel, line, msg)
    pc = dbl_facts(['value', 'format_char', 'precision'], parse_body('const int flags = Py_DTSF_ADD_DOT_0; char *buffer = PyOS_double_to_string(value, format_char, precision, flags, NULL); '
                                                                      'return PyUnicode_FromString(buffer);'), 'fr')
    r.positive_control([k for k, ok, m in pc if not ok] == ['double-flags:f'], 'Py_DTSF_ADD_DOT_0 passed for the f presentation type')
    return r
