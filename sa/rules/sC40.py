"""C40, strengthening: the *pair table* of the spanning-type computation that safe type inference uses.

SimpleAssignmentTypeInferer merges the types of all assignments to one variable with
    safe_spanning_type(types) = f(reduce(find_spanning_type, types))
find_spanning_type -> PyrexTypes.spanning_type -> _spanning_type -> widest_numeric_type / result_type_of_builtin_operation are
pure decision functions over type *kinds*.  This module evaluates their code (checker-owned evaluator `rules.pC07.Eval`, never
an import of the repository) over the COMPLETE finite partition of the kinds a pure-Python value can have at inference time
(bint, C integers of the ranks that literals / len() / range() produce, Py_UCS4, C float/double, C double complex, the builtin
Python types int / float / complex / str, the generic object) and obtains the table  (kind1, kind2) -> kind of the variable.

  C40-BOOL     a variable that holds a bool (bint) on one assignment and a value of any other kind on another one is a Python
               object: a C number cannot remember that it was a `bool` (`True` comes back as 1 / 1.0).          [armed]
  C40-PYTYPE   more generally the C type chosen for a variable must have the same Python type as *each* of the merged kinds
               (int+double -> double turns the int 1 into 1.0).                                     [pending finding, not armed]
"""
import ast

from ..core import Rule, AnalysisError, node_src
from ..engine import tables
from .pC07 import Eval, Obj, Unsupported, RepoFn, Sym, Method, ModRef

TI = 'Cython/Compiler/TypeInference.py'
PT = 'Cython/Compiler/PyrexTypes.py'


class PairEval(Eval):
    """Eval + membership tests of a stub in a literal tuple/list of singletons (identity, like PyrexType.__eq__ of the singletons)."""

    def compare(self, a, op, b, lit=False):
        if isinstance(op, (ast.In, ast.NotIn)) and isinstance(b, (tuple, list)) and isinstance(a, (Obj, Sym)):
            if any(not isinstance(x, (Obj, Sym, RepoFn, Method, ModRef)) and x is not None for x in b):
                raise Unsupported('membership of a stub in a container of plain values')
            r = any(x is a for x in b)
            return r if isinstance(op, ast.In) else not r
        return Eval.compare(self, a, op, b, lit)


# ------------------------------------------------------------------------------------------------ ranks of the singletons, from the source
def _fold(node, env):
    if isinstance(node, ast.Constant) and isinstance(node.value, (int, float)) and not isinstance(node.value, bool):
        return node.value
    if isinstance(node, ast.Name) and node.id in env:
        return env[node.id]
    if isinstance(node, ast.BinOp) and isinstance(node.op, (ast.Add, ast.Sub)):
        a, b = _fold(node.left, env), _fold(node.right, env)
        return a + b if isinstance(node.op, ast.Add) else a - b
    if isinstance(node, ast.UnaryOp) and isinstance(node.op, ast.USub):
        return -_fold(node.operand, env)
    if isinstance(node, ast.Call) and isinstance(node.func, ast.Attribute) and node.func.attr == 'index' and isinstance(node.func.value, ast.Name) \
            and isinstance(env.get(node.func.value.id), tuple) and len(node.args) == 1 and isinstance(node.args[0], ast.Constant):
        try:
            return env[node.func.value.id].index(node.args[0].value)
        except ValueError:
            pass
    raise AnalysisError('PyrexTypes: cannot fold %s' % node_src(node))


def singleton_ranks(ctx):
    """{'c_long_type': (ctor, rank, signed)} for the module-level `c_xxx_type = Ctor(rank[, signed])` singletons of PyrexTypes."""
    def build():
        tree = ctx.parse(PT)
        env, out = {}, {}
        for st in tree.body:
            if not (isinstance(st, ast.Assign) and len(st.targets) == 1 and isinstance(st.targets[0], ast.Name)):
                continue
            name, v = st.targets[0].id, st.value
            if name == 'rank_to_type_name':
                lit = tables.literal(v)
                if not isinstance(lit, tuple):
                    raise AnalysisError('PyrexTypes.rank_to_type_name is not a literal tuple')
                env[name] = lit
            elif name.startswith('RANK_') or name in ('UNSIGNED', 'SIGNED'):
                env[name] = _fold(v, env)
            elif name.startswith('c_') and name.endswith('_type') and isinstance(v, ast.Call) and isinstance(v.func, ast.Name) and v.args:
                try:
                    rank = _fold(v.args[0], env)
                except AnalysisError:
                    continue
                signed = _fold(v.args[1], env) if len(v.args) > 1 else 1
                out[name] = (v.func.id, rank, signed)
        return out
    return ctx.memo('sC40.singleton_ranks', build)


# ------------------------------------------------------------------------------------------------ the kind domain
class Kind:
    """One class of the partition: label, the Python type a value of this kind has, constructor of the stub."""
    def __init__(self, label, pytype, obj, singleton=None):
        self.label, self.pytype, self.obj, self.singleton = label, pytype, obj, singleton


class PairDomain:
    def __init__(self, ctx):
        self.ctx = ctx
        self.ix = ix = ctx.index
        pt = ix.mod('PyrexTypes')
        ranks = singleton_ranks(ctx)
        need = ('c_bint_type', 'c_int_type', 'c_long_type', 'c_ulong_type', 'c_longlong_type', 'c_py_ssize_t_type', 'c_py_ucs4_type',
                'c_float_type', 'c_double_type', 'c_longdouble_type')
        for n in need:
            if n not in ranks:
                raise AnalysisError('PyrexTypes.%s = Ctor(rank, ...) not found' % n)
        for n in ('py_object_type', 'c_double_complex_type', 'soft_complex_type', 'spanning_type', '_spanning_type', 'widest_numeric_type',
                  'result_type_of_builtin_operation'):
            if n not in pt.bindings:
                raise AnalysisError('PyrexTypes.%s vanished' % n)

        def T(label, **kw):
            kw.setdefault('equivalent_type', None)
            kw.setdefault('can_coerce_to_pyobject', lambda scope: True)
            return Obj(label, flag_default=False, **kw)

        def cnum(name, label, **kw):
            ctor, rank, signed = ranks[name]
            return T(label, is_numeric=True, rank=rank, signed=signed, **kw)

        self.py_object = T('object', is_pyobject=True)
        self.py_int = T('Python int', is_pyobject=True, is_builtin_type=True, is_pyint_type=True)
        self.py_float = T('Python float', is_pyobject=True, is_builtin_type=True, is_pyfloat_type=True)
        self.py_complex = T('Python complex', is_pyobject=True, is_builtin_type=True, is_pycomplex_type=True)
        self.py_str = T('Python str', is_pyobject=True, is_builtin_type=True)
        self.bint = cnum('c_bint_type', 'bint', is_int=True)
        self.c_double = cnum('c_double_type', 'C double', is_float=True, equivalent_type=self.py_float)
        self.c_float = cnum('c_float_type', 'C float', is_float=True)
        self.c_longdouble = cnum('c_longdouble_type', 'C long double', is_float=True)
        self.c_dcomplex = T('C double complex', is_numeric=True, is_complex=True, real_type=self.c_double, equivalent_type=self.py_complex, rank=0, signed=1)
        self.soft = T('soft complex', is_numeric=True, is_complex=True, real_type=self.c_double, rank=0, signed=1)
        self.made_complex = []

        def make_complex(real):
            if real is self.c_double:
                return self.c_dcomplex
            o = T('C complex over %s' % real.label, is_numeric=True, is_complex=True, real_type=real, rank=0, signed=1)
            self.made_complex.append(o)
            return o

        ints = [cnum('c_int_type', 'C int', is_int=True), cnum('c_long_type', 'C long', is_int=True),
                cnum('c_ulong_type', 'C unsigned long', is_int=True), cnum('c_longlong_type', 'C long long', is_int=True),
                cnum('c_py_ssize_t_type', 'Py_ssize_t', is_int=True)]
        ucs4 = cnum('c_py_ucs4_type', 'Py_UCS4', is_int=True, is_unicode_char=True)
        self.kinds = [Kind('bint', 'bool', self.bint)] + [Kind(o.label, 'int', o) for o in ints] + [
            Kind('Py_UCS4', 'str', ucs4),
            Kind('C float', 'float', self.c_float), Kind('C double', 'float', self.c_double), Kind('C long double', 'float', self.c_longdouble),
            Kind('C double complex', 'complex', self.c_dcomplex),
            Kind('Python int', 'int', self.py_int), Kind('Python float', 'float', self.py_float), Kind('Python complex', 'complex', self.py_complex),
            Kind('Python str', 'str', self.py_str), Kind('object', None, self.py_object),
        ]
        self.by_obj = {id(k.obj): k for k in self.kinds}
        self.overrides = {
            ('PyrexTypes', 'py_object_type'): self.py_object, ('PyrexTypes', 'c_double_type'): self.c_double, ('PyrexTypes', 'c_float_type'): self.c_float,
            ('PyrexTypes', 'c_bint_type'): self.bint, ('PyrexTypes', 'soft_complex_type'): self.soft, ('PyrexTypes', 'c_double_complex_type'): self.c_dcomplex,
            ('PyrexTypes', 'c_int_type'): ints[0],
            ('Builtin', 'int_type'): self.py_int, ('Builtin', 'float_type'): self.py_float, ('Builtin', 'complex_type'): self.py_complex,
            ('Builtin', 'unicode_type'): self.py_str,
            ('PyrexTypes', 'remove_cv_ref'): (lambda tp, remove_fakeref=False: tp),
            ('PyrexTypes', 'CComplexType'): make_complex,
        }

    def pytype_of(self, res):
        """Python type of a value stored in a variable of the resulting type; None = generic object (keeps every value as it is)."""
        if not isinstance(res, Obj):
            raise AnalysisError('the spanning type evaluates to %r, which is not a type' % (res,))
        k = self.by_obj.get(id(res))
        if k is not None:
            return k.pytype, k.label
        a = res.attrs
        if a.get('is_pyobject'):
            return None, res.label
        if a.get('is_complex'):
            return 'complex', res.label
        raise AnalysisError('unclassified result type %r' % res)

    def span(self, module, fnode, objs, might_overflow=False):
        ev = PairEval(self.ix, overrides=self.overrides)

        def fold(f, seq):
            seq = list(seq)
            if not seq:
                raise Unsupported('reduce over no types')
            acc = seq[0]
            for x in seq[1:]:
                acc = ev.call(f, [acc, x])
            return acc
        ev.overrides[('TypeInference', 'reduce')] = fold
        return ev.call(RepoFn(module, fnode), [list(objs), might_overflow, Obj('scope', flag_default=False)])


def pair_table(dom, module, fnode, only_bint=None):
    """-> [(labels tuple, result label, result python type, is C type, [python types of the inputs])] for all ordered pairs (+ the sticky triple for bint)."""
    out = []
    kinds = dom.kinds
    bint = kinds[0]
    for a in kinds:
        for b in kinds:
            if only_bint is True and not (a is bint or b is bint):
                continue
            if only_bint is False and (a is bint or b is bint):
                continue
            seqs = [(a, b)]
            if only_bint is True and a is not bint:
                seqs.append((a, a, b))            # [X, X, bint]: the bool arrives after the others were merged
            if only_bint is True and b is not bint:
                seqs.append((a, b, b))            # [bint, X, X]: object is sticky
            for seq in seqs:
                try:
                    res = dom.span(module, fnode, [k.obj for k in seq])
                except Unsupported as e:
                    raise AnalysisError('safe_spanning_type cannot be evaluated for [%s]: %s' % (', '.join(k.label for k in seq), e))
                pyt, label = dom.pytype_of(res)
                is_c = not (isinstance(res, Obj) and res.attrs.get('is_pyobject') is True)
                out.append((tuple(k.label for k in seq), label, pyt, is_c, [k.pytype for k in seq]))
    return out


def _anchors(ctx):
    m = ctx.index.mod('TypeInference')
    fn = m.functions.get('safe_spanning_type')
    fs = m.functions.get('find_spanning_type')
    if fn is None or fs is None:
        raise AnalysisError('TypeInference.safe_spanning_type / find_spanning_type vanished')
    return m, fn, fs


_PC_BOOL = ("def safe_spanning_type(types, might_overflow, scope):\n"
            "    result_type = reduce(narrow_find, types)\n"
            "    if result_type.is_pyobject or result_type.is_float or result_type is PyrexTypes.c_bint_type:\n        return result_type\n"
            "    return py_object_type\n"
            "def narrow_find(type1, type2):\n"
            "    if type1 is type2:\n        return type1\n"
            "    elif (type1 is PyrexTypes.c_bint_type and type2.is_int) or (type2 is PyrexTypes.c_bint_type and type1.is_int):\n        return py_object_type\n"
            "    return PyrexTypes.spanning_type(type1, type2)\n")


def _control_table(dom, module, only_bint):
    body = ast.parse(_PC_BOOL).body
    sst, nf = body[0], body[1]
    saved = dict(dom.overrides)
    dom.overrides[('TypeInference', 'narrow_find')] = RepoFn(module, nf)
    try:
        return pair_table(dom, module, sst, only_bint=only_bint)
    finally:
        dom.overrides.clear()
        dom.overrides.update(saved)


def rule_BOOL(ctx, floor=55):
    r = Rule('C40-BOOL', 'a variable assigned a bool (bint) and a value of any other kind is inferred as a Python object by safe_spanning_type, in either order '
                         '(pair table of find_spanning_type / PyrexTypes.spanning_type over all pure-Python value kinds)', floor)
    m, fn, fs = _anchors(ctx)
    dom = PairDomain(ctx)
    bad = {}
    for labels, res, pyt, is_c, pyts in pair_table(dom, m, fn, only_bint=True):
        key = 'safe_spanning_type:[%s]' % ', '.join(labels)
        pure = all(x == 'bint' for x in labels)
        r.inst(key, sample='[%s] -> %s' % (', '.join(labels), res), nontrivial=not pure)
        if pure:
            if res != 'bint' and is_c:
                r.violate(key, TI, fs.lineno, 'only bools are assigned but the variable becomes the C type %s: True comes back as a number' % res)
            continue
        if is_c:
            other = [x for x in labels if x != 'bint'][0]
            bad.setdefault(other, []).append((labels, res, pyt))
    for other, rows in bad.items():
        labels, res, pyt = rows[0]
        r.violate('safe_spanning_type:bint+%s' % other, TI, fs.lineno,
                  'a variable that holds a bool on one path and a %s on another is inferred as the C type %s (assignment orders: %s): when it holds the bool the function '
                  'returns %s instead of True/False (type and repr change; infer_types=False keeps the bool)'
                  % (other, res, '; '.join('[%s]' % ', '.join(l) for l, _, _ in rows),
                     {'float': '1.0/0.0', 'int': '1/0', 'complex': '(1+0j)'}.get(pyt, 'a converted value')))
    ctl = _control_table(dom, m, True)
    r.positive_control(any(is_c and 'C double' in labels for labels, res, pyt, is_c, pyts in ctl) and
                       not any(is_c and set(labels) == {'bint', 'C long'} for labels, res, pyt, is_c, pyts in ctl),
                       'guard narrowed to bint+int: bint+double becomes a C double')
    return r


def rule_PYTYPE(ctx, floor=150):
    """pending finding (FINDING_1): int + float kinds are merged to C double on the unmodified tree."""
    r = Rule('C40-PYTYPE', 'the C type safe_spanning_type chooses for a variable has the Python type of every merged kind '
                           '(a C double variable returns 1.0 for the int 1 it was assigned)', floor)
    m, fn, fs = _anchors(ctx)
    dom = PairDomain(ctx)
    bad = {}
    for labels, res, pyt, is_c, pyts in pair_table(dom, m, fn, only_bint=False):
        key = 'safe_spanning_type:[%s]' % ', '.join(labels)
        r.inst(key, sample='[%s] -> %s' % (', '.join(labels), res), nontrivial=labels[0] != labels[1])
        if is_c and any(p != pyt for p in pyts):
            for l, p in zip(labels, pyts):
                if p != pyt:
                    # construct = which Python type is lost to which: a handful of classes instead of one key per pair of C kinds
                    bad.setdefault((p, pyt), []).append((labels, res, l))
    for (lost_py, got_py), rows in sorted(bad.items()):
        pairs = sorted({' + '.join(sorted(set(labels))) for labels, res, l in rows})
        labels, res, l = rows[0]
        r.violate('safe_spanning_type:%s-comes-back-as-%s' % (lost_py, got_py), TI, fs.lineno,
                  'safe inference merges a %s kind with a %s kind into one C variable (%d kind pairs, e.g. %s -> %s): a %s assigned to the variable comes back as %s, '
                  'infer_types=False keeps its type' % (lost_py, got_py, len(pairs), pairs[0], res, lost_py, got_py))
    ctl = _control_table(dom, m, False)
    r.positive_control(any(is_c and set(labels) == {'C long', 'C double'} for labels, res, pyt, is_c, pyts in ctl), 'int merged with double becomes a C double')
    return r
