"""C40, strengthening: the *pair table* of the spanning-type computation that safe type inference uses.

SimpleAssignmentTypeInferer merges the types of all assignments to one variable with
    safe_spanning_type(types) = f(reduce(find_spanning_type, types))
find_spanning_type -> PyrexTypes.spanning_type -> _spanning_type -> widest_numeric_type / result_type_of_builtin_operation are
pure decision functions over type *kinds*.  This module evaluates their code (checker-owned evaluator `rules.pC07.Eval`, never
an import of the repository) over the COMPLETE finite partition of the kinds a pure-Python value can have at inference time
(bint, C integers of the ranks that literals / len() / range() produce, Py_UCS4, C float/double, C double complex, the builtin
Python types int / float / complex / str, the generic object) and obtains the table  (kind1, kind2) -> kind of the variable.

  C40-BOOL     a variable that holds a bool (bint) on one assignment and a value of any other kind on another one is a Python
               object: a C number cannot remember that it was a `bool` (`True` comes back as 1 / 1.0).          [armed]
  C40-PYTYPE   more generally the C type chosen for a variable must have the same Python type as *each* of the merged kinds
               (int+double -> double turns the int 1 into 1.0).                                     [pending finding, not armed]
"""
import ast

from ..core import Rule, AnalysisError, node_src
from ..engine import tables
from .pC07 import Eval, Obj, Unsupported, RepoFn, Sym, Method, ModRef

TI = 'Cython/Compiler/TypeInference.py'
PT = 'Cython/Compiler/PyrexTypes.py'


class PairEval(Eval):
    """Eval + membership tests of a stub in a literal tuple/list of singletons (identity, like PyrexType.__eq__ of the singletons)."""

    def compare(self, a, op, b, lit=False):
        if isinstance(op, (ast.In, ast.NotIn)) and isinstance(b, (tuple, list)) and isinstance(a, (Obj, Sym)):
            if any(not isinstance(x, (Obj, Sym, RepoFn, Method, ModRef)) and x is not None for x in b):
                raise Unsupported('membership of a stub in a container of plain values')
            r = any(x is a for x in b)
            return r if isinstance(op, ast.In) else not r
        return Eval.compare(self, a, op, b, lit)


# ------------------------------------------------------------------------------------------------ ranks of the singletons, from the source
def _fold(node, env):
    if isinstance(node, ast.Constant) and isinstance(node.value, (int, float)) and not isinstance(node.value, bool):
        return node.value
    if isinstance(node, ast.Name) and node.id in env:
        return env[node.id]
    if isinstance(node, ast.BinOp) and isinstance(node.op, (ast.Add, ast.Sub)):
        a, b = _fold(node.left, env), _fold(node.right, env)
        return a + b if isinstance(node.op, ast.Add) else a - b
    if isinstance(node, ast.UnaryOp) and isinstance(node.op, ast.USub):
        return -_fold(node.operand, env)
    if isinstance(node, ast.Call) and isinstance(node.func, ast.Attribute) and node.func.attr == 'index' and isinstance(node.func.value, ast.Name) \
            and isinstance(env.get(node.func.value.id), tuple) and len(node.args) == 1 and isinstance(node.args[0], ast.Constant):
        try:
            return env[node.func.value.id].index(node.args[0].value)
        except ValueError:
            pass
    raise AnalysisError('PyrexTypes: cannot fold %s' % node_src(node))


def singleton_ranks(ctx):
    """{'c_long_type': (ctor, rank, signed)} for the module-level `c_xxx_type = Ctor(rank[, signed])` singletons of PyrexTypes."""
    def build():
        tree = ctx.parse(PT)
        env, out = {}, {}
        for st in tree.body:
            if not (isinstance(st, ast.Assign) and len(st.targets) == 1 and isinstance(st.targets[0], ast.Name)):
                continue
            name, v = st.targets[0].id, st.value
            if name == 'rank_to_type_name':
                lit = tables.literal(v)
                if not isinstance(lit, tuple):
                    raise AnalysisError('PyrexTypes.rank_to_type_name is not a literal tuple')
                env[name] = lit
            elif name.startswith('RANK_') or name in ('UNSIGNED', 'SIGNED'):
                env[name] = _fold(v, env)
            elif name.startswith('c_') and name.endswith('_type') and isinstance(v, ast.Call) and isinstance(v.func, ast.Name) and v.args:
                try:
                    rank = _fold(v.args[0], env)
                except AnalysisError:
                    continue
                signed = _fold(v.args[1], env) if len(v.args) > 1 else 1
                out[name] = (v.func.id, rank, signed)
        return out
    return ctx.memo('sC40.singleton_ranks', build)


# ------------------------------------------------------------------------------------------------ the kind domain
class Kind:
    """One class of the partition: label, the Python type a value of this kind has, constructor of the stub."""
    def __init__(self, label, pytype, obj, singleton=None):
        self.label, self.pytype, self.obj, self.singleton = label, pytype, obj, singleton


class PairDomain:
    def __init__(self, ctx):
        self.ctx = ctx
        self.ix = ix = ctx.index
        pt = ix.mod('PyrexTypes')
        ranks = singleton_ranks(ctx)
        need = ('c_bint_type', 'c_int_type', 'c_long_type', 'c_ulong_type', 'c_longlong_type', 'c_py_ssize_t_type', 'c_py_ucs4_type',
                'c_float_type', 'c_double_type', 'c_longdouble_type')
        for n in need:
            if n not in ranks:
                raise AnalysisError('PyrexTypes.%s = Ctor(rank, ...) not found' % n)
        for n in ('py_object_type', 'c_double_complex_type', 'soft_complex_type', 'spanning_type', '_spanning_type', 'widest_numeric_type',
                  'result_type_of_builtin_operation'):
            if n not in pt.bindings:
                raise AnalysisError('PyrexTypes.%s vanished' % n)

        def T(label, **kw):
            kw.setdefault('equivalent_type', None)
            kw.setdefault('can_coerce_to_pyobject', lambda scope: True)
            return Obj(label, flag_default=False, **kw)

        def cnum(name, label, **kw):
            ctor, rank, signed = ranks[name]
            return T(label, is_numeric=True, rank=rank, signed=signed, **kw)

        self.py_object = T('object', is_pyobject=True)
        self.py_int = T('Python int', is_pyobject=True, is_builtin_type=True, is_pyint_type=True)
        self.py_float = T('Python float', is_pyobject=True, is_builtin_type=True, is_pyfloat_type=True)
        self.py_complex = T('Python complex', is_pyobject=True, is_builtin_type=True, is_pycomplex_type=True)
        self.py_str = T('Python str', is_pyobject=True, is_builtin_type=True)
        self.bint = cnum('c_bint_type', 'bint', is_int=True)
        self.c_double = cnum('c_double_type', 'C double', is_float=True, equivalent_type=self.py_float)
        self.c_float = cnum('c_float_type', 'C float', is_float=True)
        self.c_longdouble = cnum('c_longdouble_type', 'C long double', is_float=True)
        self.c_dcomplex = T('C double complex', is_numeric=True, is_complex=True, real_type=self.c_double, equivalent_type=self.py_complex, rank=0, signed=1)
        self.soft = T('soft complex', is_numeric=True, is_complex=True, real_type=self.c_double, rank=0, signed=1)
        self.made_complex = []

        def make_complex(real):
            if real is self.c_double:
                return self.c_dcomplex
            o = T('C complex over %s' % real.label, is_numeric=True, is_complex=True, real_type=real, rank=0, signed=1)
            self.made_complex.append(o)
            return o

        ints = [cnum('c_int_type', 'C int', is_int=True), cnum('c_long_type', 'C long', is_int=True),
                cnum('c_ulong_type', 'C unsigned long', is_int=True), cnum('c_longlong_type', 'C long long', is_int=True),
                cnum('c_py_ssize_t_type', 'Py_ssize_t', is_int=True)]
        ucs4 = cnum('c_py_ucs4_type', 'Py_UCS4', is_int=True, is_unicode_char=True)
        self.kinds = [Kind('bint', 'bool', self.bint)] + [Kind(o.label, 'int', o) for o in ints] + [
            Kind('Py_UCS4', 'str', ucs4),
            Kind('C float', 'float', self.c_float), Kind('C double', 'float', self.c_double), Kind('C long double', 'float', self.c_longdouble),
            Kind('C double complex', 'complex', self.c_dcomplex),
            Kind('Python int', 'int', self.py_int), Kind('Python float', 'float', self.py_float), Kind('Python complex', 'complex', self.py_complex),
            Kind('Python str', 'str', self.py_str), Kind('object', None, self.py_object),
        ]
        self.by_obj = {id(k.obj): k for k in self.kinds}
        self.overrides = {
            ('PyrexTypes', 'py_object_type'): self.py_object, ('PyrexTypes', 'c_double_type'): self.c_double, ('PyrexTypes', 'c_float_type'): self.c_float,
            ('PyrexTypes', 'c_bint_type'): self.bint, ('PyrexTypes', 'soft_complex_type'): self.soft, ('PyrexTypes', 'c_double_complex_type'): self.c_dcomplex,
            ('PyrexTypes', 'c_int_type'): ints[0],
            ('Builtin', 'int_type'): self.py_int, ('Builtin', 'float_type'): self.py_float, ('Builtin', 'complex_type'): self.py_complex,
            ('Builtin', 'unicode_type'): self.py_str,
            ('PyrexTypes', 'remove_cv_ref'): (lambda tp, remove_fakeref=False: tp),
            ('PyrexTypes', 'CComplexType'): make_complex,
        }

    def pytype_of(self, res):
        """Python type of a value stored in a variable of the resulting type; None = generic object (keeps every value as it is)."""
        if not isinstance(res, Obj):
            raise AnalysisError('the spanning type evaluates to %r, which is not a type' % (res,))
        k = self.by_obj.get(id(res))
        if k is not None:
            return k.pytype, k.label
        a = res.attrs
        if a.get('is_pyobject'):
            return None, res.label
        if a.get('is_complex'):
            return 'complex', res.label
        raise AnalysisError('unclassified result type %r' % res)

    def span(self, module, fnode, objs, might_overflow=False):
        ev = PairEval(self.ix, overrides=self.overrides)

        def fold(f, seq):
            seq = list(seq)
            if not seq:
                raise Unsupported('reduce over no types')
            acc = seq[0]
            for x in seq[1:]:
                acc = ev.call(f, [acc, x])
            return acc
        ev.overrides[('TypeInference', 'reduce')] = fold
        return ev.call(RepoFn(module, fnode), [list(objs), might_overflow, Obj('scope', flag_default=False)])


def pair_table(dom, module, fnode, only_bint=None):
    """-> [(labels tuple, result label, result python type, is C type, [python types of the inputs])] for all ordered pairs (+ the sticky triple for bint)."""
    out = []
    kinds = dom.kinds
    bint = kinds[0]
    for a in kinds:
        for b in kinds:
            if only_bint is True and not (a is bint or b is bint):
                continue
            if only_bint is False and (a is bint or b is bint):
                continue
            seqs = [(a, b)]
            if only_bint is True and a is not bint:
                seqs.append((a, a, b))            # [X, X, bint]: the bool arrives after the others were merged
            if only_bint is True and b is not bint:
                seqs.append((a, b, b))            # [bint, X, X]: object is sticky
            for seq in seqs:
                try:
                    res = dom.span(module, fnode, [k.obj for k in seq])
                except Unsupported as e:
                    raise AnalysisError('safe_spanning_type cannot be evaluated for [%s]: %s' % (', '.join(k.label for k in seq), e))
                pyt, label = dom.pytype_of(res)
                is_c = not (isinstance(res, Obj) and res.attrs.get('is_pyobject') is True)
                out.append((tuple(k.label for k in seq), label, pyt, is_c, [k.pytype for k in seq]))
    return out


def _anchors(ctx):
    m = ctx.index.mod('TypeInference')
    fn = m.functions.get('safe_spanning_type')
    fs = m.functions.get('find_spanning_type')
    if fn is None or fs is None:
        raise AnalysisError('TypeInference.safe_spanning_type / find_spanning_type vanished')
    return m, fn, fs


# The embedded example is self-contained (it calls nothing of the repository): the control tests the rule's own detection, so an edit of
# PyrexTypes.spanning_type / widest_numeric_type is reported as a finding about the repository instead of breaking the control.
_PC_BOOL = ("def safe_spanning_type(types, might_overflow, scope):\n"
            "    result_type = reduce(narrow_find, types)\n"
            "    if result_type.is_pyobject or result_type.is_float or result_type is PyrexTypes.c_bint_type:\n        return result_type\n"
            "    return py_object_type\n"
            "def narrow_find(type1, type2):\n"
            "    if type1 is type2:\n        return type1\n"
            "    elif (type1 is PyrexTypes.c_bint_type and type2.is_int) or (type2 is PyrexTypes.c_bint_type and type1.is_int):\n        return py_object_type\n"
            "    elif type1.is_float:\n        return type1\n"
            "    elif type2.is_float:\n        return type2\n"
            "    return py_object_type\n")


def _control_table(dom, module, only_bint):
    """rows of the embedded variant for the kinds the controls look at: bint, C long, C double"""
    body = ast.parse(_PC_BOOL).body
    sst, nf = body[0], body[1]
    saved = dict(dom.overrides)
    dom.overrides[('TypeInference', 'narrow_find')] = RepoFn(module, nf)
    kinds = {k.label: k for k in dom.kinds}
    seqs = [('bint', 'C double'), ('C double', 'bint'), ('bint', 'C long'), ('C long', 'bint')] if only_bint else [('C long', 'C double'), ('C double', 'C long')]
    out = []
    try:
        for labels in seqs:
            seq = [kinds[l] for l in labels]
            try:
                res = dom.span(module, sst, [k.obj for k in seq])
            except Unsupported as e:
                raise AnalysisError('embedded example cannot be evaluated: %s' % e)
            pyt, label = dom.pytype_of(res)
            is_c = not (isinstance(res, Obj) and res.attrs.get('is_pyobject') is True)
            out.append((tuple(labels), label, pyt, is_c, [k.pytype for k in seq]))
        return out
    finally:
        dom.overrides.clear()
        dom.overrides.update(saved)


def rule_BOOL(ctx, floor=55):
    r = Rule('C40-BOOL', 'a variable assigned a bool (bint) and a value of any other kind is inferred as a Python object by safe_spanning_type, in either order '
                         '(pair table of find_spanning_type / PyrexTypes.spanning_type over all pure-Python value kinds)', floor)
    m, fn, fs = _anchors(ctx)
    dom = PairDomain(ctx)
    bad = {}
    for labels, res, pyt, is_c, pyts in pair_table(dom, m, fn, only_bint=True):
        key = 'safe_spanning_type:[%s]' % ', '.join(labels)
        pure = all(x == 'bint' for x in labels)
        r.inst(key, sample='[%s] -> %s' % (', '.join(labels), res), nontrivial=not pure)
        if pure:
            if res != 'bint' and is_c:
                r.violate(key, TI, fs.lineno, 'only bools are assigned but the variable becomes the C type %s: True comes back as a number' % res)
            continue
        if is_c:
            other = [x for x in labels if x != 'bint'][0]
            bad.setdefault(other, []).append((labels, res, pyt))
    for other, rows in bad.items():
        labels, res, pyt = rows[0]
        r.violate('safe_spanning_type:bint+%s' % other, TI, fs.lineno,
                  'a variable that holds a bool on one path and a %s on another is inferred as the C type %s (assignment orders: %s): when it holds the bool the function '
                  'returns %s instead of True/False (type and repr change; infer_types=False keeps the bool)'
                  % (other, res, '; '.join('[%s]' % ', '.join(l) for l, _, _ in rows),
                     {'float': '1.0/0.0', 'int': '1/0', 'complex': '(1+0j)'}.get(pyt, 'a converted value')))
    ctl = _control_table(dom, m, True)
    r.positive_control(any(is_c and 'C double' in labels for labels, res, pyt, is_c, pyts in ctl) and
                       not any(is_c and set(labels) == {'bint', 'C long'} for labels, res, pyt, is_c, pyts in ctl),
                       'guard narrowed to bint+int: bint+double becomes a C double')
    return r


def rule_PYTYPE(ctx, floor=150):
    """pending finding (FINDING_1): int + float kinds are merged to C double on the unmodified tree."""
    r = Rule('C40-PYTYPE', 'the C type safe_spanning_type chooses for a variable has the Python type of every merged kind '
                           '(a C double variable returns 1.0 for the int 1 it was assigned)', floor)
    m, fn, fs = _anchors(ctx)
    dom = PairDomain(ctx)
    bad = {}
    for labels, res, pyt, is_c, pyts in pair_table(dom, m, fn, only_bint=False):
        key = 'safe_spanning_type:[%s]' % ', '.join(labels)
        r.inst(key, sample='[%s] -> %s' % (', '.join(labels), res), nontrivial=labels[0] != labels[1])
        if is_c and any(p != pyt for p in pyts):
            for l, p in zip(labels, pyts):
                if p != pyt:
                    # construct = which Python type is lost to which: a handful of classes instead of one key per pair of C kinds
                    bad.setdefault((p, pyt), []).append((labels, res, l))
    for (lost_py, got_py), rows in sorted(bad.items()):
        pairs = sorted({' + '.join(sorted(set(labels))) for labels, res, l in rows})
        labels, res, l = rows[0]
        r.violate('safe_spanning_type:%s-comes-back-as-%s' % (lost_py, got_py), TI, fs.lineno,
                  'safe inference merges a %s kind with a %s kind into one C variable (%d kind pairs, e.g. %s -> %s): a %s assigned to the variable comes back as %s, '
                  'infer_types=False keeps its type' % (lost_py, got_py, len(pairs), pairs[0], res, lost_py, got_py))
    ctl = _control_table(dom, m, False)
    r.positive_control(any(is_c and set(labels) == {'C long', 'C double'} for labels, res, pyt, is_c, pyts in ctl), 'int merged with double becomes a C double')
    return r


# ====================================================================================================== fourth round
# C40-ENV       MarkOverflowingArithmetic looks names up in `self.env`; the handler of every function node installs the function's own local scope for
#               the visit of its children and puts the previous scope back afterwards (evaluated with the checker's evaluator on stub nodes).
# C40-WIDTH     the C type chosen for two merged C numbers is at least as wide as either (rank of the result >= rank of the inputs of its kind; a
#               Python float needs a C double).
# C40-LITRANGE  the two places that decide "this integer literal fits a C long" (IntNode.find_suitable_type_for_value, Utils.long_literal) use the same
#               interval, and it lies inside what every C long holds (32 bits).
# C40-NONE      the list of assigned types handed to the spanning type contains a Python object type whenever None is assigned and no other Python
#               object is (decision table of the nested helper over {None, C integer, Python int} assignments).
# C40-CLOSURE   [pending finding] the overflow flag written by the marking pass reaches the entry whose scope is inferred (closure variables).
# C40-FORWARD   [pending finding] expression nodes whose value *is* one of their operands (conditional expression, and/or) hand the overflow context on.
from ..engine.pyindex import walk_no_nested, is_self_attr

EN = 'Cython/Compiler/ExprNodes.py'


def _u(n):
    return ast.unparse(n)


# ------------------------------------------------------------------------------------------------ C40-ENV
def env_table(ix, vis):
    """-> [(node class name, handler name, scopes seen by visitchildren, scope afterwards is the incoming one?, problem text or None)]"""
    nodes = ix.mod('Nodes')
    base = ix.cls('Nodes', 'FuncDefNode')
    if base is None:
        raise AnalysisError('Nodes.FuncDefNode vanished')
    out = []
    for cls in [base] + ix.subclasses(base):
        h = ix.visitor_handler(vis, cls)
        if h is None:
            raise AnalysisError('no handler of %s for %s' % (vis.name, cls.name))
        k, owner, fn = h
        outer = Obj('enclosing scope', flag_default=False)
        local = Obj('local scope of the function', flag_default=False)
        declared_in = Obj('scope the function is declared in', flag_default=False)
        stack = []
        seen = []
        selfobj = Obj(vis.name, cls=vis, flag_default=None, might_overflow=False, env=outer)
        selfobj.attrs['env_stack'] = Obj('env_stack', append=lambda v: stack.append(v), pop=lambda: stack.pop())
        selfobj.attrs['visitchildren'] = lambda n, *a, **kw: seen.append(selfobj.attrs['env'])
        node = Obj(cls.name, flag_default=False, local_scope=local, entry=Obj('entry', flag_default=False, scope=declared_in), name='f')
        ev = LoopEval(ix)
        try:
            ev.call(Method(RepoFn(owner.module, fn, owner), selfobj), [node])
        except Unsupported as e:
            raise AnalysisError('%s.%s cannot be evaluated on a %s: %s' % (owner.name, fn.name, cls.name, e))
        except IndexError:
            out.append((cls.name, fn.name, seen, False, 'pops an empty scope stack'))
            continue
        after = selfobj.attrs['env']
        out.append((cls.name, fn.name, [getattr(x, 'label', repr(x)) for x in seen], after is outer, None if seen and all(x is local for x in seen) else
                    ('visits the function body with self.env = %s' % ', '.join(getattr(x, 'label', repr(x)) for x in seen) if seen else 'does not visit the children')))
    return out


def rule_ENV(ctx, vis, floor=7):
    r = Rule('C40-ENV', 'the handler MarkOverflowingArithmetic selects for a function node visits the function body with self.env = the function\'s local scope and restores '
                        'the previous scope afterwards (names are marked on the entries inference reads)', floor)
    ix = ctx.index
    for cname, hname, seen, restored, problem in env_table(ix, vis):
        key = '%s -> %s.%s' % (cname, vis.name, hname)
        r.inst(key, sample='%s: children visited with %s, restored=%s' % (key, seen, restored))
        if problem:
            r.violate(key + ':scope', vis.module.rel, vis.node.lineno, '%s.%s %s instead of the local scope of the %s: self.env.lookup(name) does not find the local variables '
                      '(or finds another variable of that name), their might_overflow flag is never set and they are inferred as wrapping C integers' % (vis.name, hname, problem, cname))
        if not restored:
            r.violate(key + ':restore', vis.module.rel, vis.node.lineno, '%s.%s leaves self.env changed after a %s: the names that follow the function are looked up in the wrong scope'
                      % (vis.name, hname, cname))
    pc = ast.parse("class V:\n    def visit_FuncDefNode(self, node):\n        self.env_stack.append(self.env)\n        self.visit_safe_node(node)\n        self.env = self.env_stack.pop()\n        return node\n"
                   "    def visit_safe_node(self, node):\n        self.visitchildren(node)\n        return node\n").body[0]
    outer = Obj('outer', flag_default=False)
    seen, stack = [], []
    so = Obj('V', flag_default=None, env=outer)
    so.attrs['env_stack'] = Obj('env_stack', append=lambda v: stack.append(v), pop=lambda: stack.pop())
    so.attrs['visitchildren'] = lambda n, *a, **kw: seen.append(so.attrs['env'])
    fns = {f.name: f for f in pc.body}
    so.attrs['visit_safe_node'] = Method(RepoFn(vis.module, fns['visit_safe_node']), so)
    Eval(ix).call(Method(RepoFn(vis.module, fns['visit_FuncDefNode']), so), [Obj('DefNode', flag_default=False, local_scope=Obj('local', flag_default=False))])
    r.positive_control(seen == [outer], 'handler that forgets to install node.local_scope')
    return r


# ------------------------------------------------------------------------------------------------ C40-WIDTH
def rule_WIDTH(ctx, floor=60):
    r = Rule('C40-WIDTH', 'the C number type safe_spanning_type chooses for two merged kinds is at least as wide as each input of its kind (integer rank, float rank; '
                          'a Python float needs a C double): no value is truncated or loses precision by being stored in the inferred variable', floor)
    m, fn, fs = _anchors(ctx)
    dom = PairDomain(ctx)
    by_label = {k.label: k for k in dom.kinds}
    double_rank = dom.c_double.attrs['rank']

    def check(rows):
        bad = {}
        n = 0
        for labels, res, pyt, is_c, pyts in rows:
            rk = by_label.get(res)
            if not is_c or rk is None or 'rank' not in rk.obj.attrs or rk.obj.attrs.get('is_complex'):
                continue
            ro = rk.obj.attrs
            res_float = bool(ro.get('is_float'))
            n += 1
            for l in labels:
                k = by_label[l]
                a = k.obj.attrs
                need = None
                if k.pytype == 'float' and res_float:
                    # a Python float is a C double; wider C floats cannot arise from pure-Python values and need no more than that either
                    need = min(a['rank'], double_rank) if a.get('is_float') else double_rank
                elif a.get('is_int') and ro.get('is_int') and l != 'bint' and not a.get('is_unicode_char'):
                    need = a['rank']
                if need is not None and ro['rank'] < need:
                    bad.setdefault((l, res), []).append(labels)
        return n, bad
    rows = pair_table(dom, m, fn, only_bint=False)
    n, bad = check(rows)
    for labels, res, pyt, is_c, pyts in rows:
        rk = by_label.get(res)
        if is_c and rk is not None and 'rank' in rk.obj.attrs and not rk.obj.attrs.get('is_complex'):
            r.inst('safe_spanning_type:[%s]' % ', '.join(labels), sample='[%s] -> %s' % (', '.join(labels), res), nontrivial=labels[0] != labels[1])
    for (l, res), seqs in sorted(bad.items()):
        r.violate('safe_spanning_type:%s-narrowed-to-%s' % (l, res), TI, fs.lineno,
                  'a variable assigned a %s is inferred as the narrower C type %s (%d assignment combinations, e.g. [%s]): the value is truncated / loses precision when stored, '
                  'infer_types=False keeps it exact' % (l, res, len(seqs), ', '.join(seqs[0])))
    # control: rows as the narrowing variant would produce them
    fake = [(('C long long', 'C int'), 'C int', 'int', True, ['int', 'int']), (('C double', 'C double'), 'C float', 'float', True, ['float', 'float']),
            (('C int', 'C long'), 'C long', 'int', True, ['int', 'int'])]
    _, fb = check(fake)
    r.positive_control(set(fb) == {('C long long', 'C int'), ('C double', 'C float')}, 'long long merged into int / double stored as float')
    return r


# ------------------------------------------------------------------------------------------------ C40-LITRANGE
def _fold_int(e):
    if isinstance(e, ast.Constant) and isinstance(e.value, int) and not isinstance(e.value, bool):
        return e.value
    if isinstance(e, ast.UnaryOp) and isinstance(e.op, ast.USub):
        v = _fold_int(e.operand)
        return None if v is None else -v
    if isinstance(e, ast.BinOp):
        a, b = _fold_int(e.left), _fold_int(e.right)
        if a is None or b is None:
            return None
        if isinstance(e.op, ast.Pow) and 0 <= b <= 256:
            return a ** b
        if isinstance(e.op, ast.LShift) and 0 <= b <= 256:
            return a << b
        if isinstance(e.op, ast.Add):
            return a + b
        if isinstance(e.op, ast.Sub):
            return a - b
        if isinstance(e.op, ast.Mult):
            return a * b
    return None


def literal_intervals(fn, is_value):
    """closed integer intervals [lo, hi] a function tests its literal value against: chained comparisons `lo <= v < hi` with constant bounds"""
    out = []
    for n in walk_no_nested(fn):
        if isinstance(n, ast.Compare) and len(n.ops) == 2 and is_value(n.comparators[0]):
            lo, hi = _fold_int(n.left), _fold_int(n.comparators[1])
            if lo is None or hi is None:
                continue
            o1, o2 = n.ops
            if isinstance(o1, (ast.Lt, ast.LtE)) and isinstance(o2, (ast.Lt, ast.LtE)):
                out.append((lo + (1 if isinstance(o1, ast.Lt) else 0), hi - (1 if isinstance(o2, ast.Lt) else 0), n))
            elif isinstance(o1, (ast.Gt, ast.GtE)) and isinstance(o2, (ast.Gt, ast.GtE)):
                out.append((hi + (1 if isinstance(o2, ast.Gt) else 0), lo - (1 if isinstance(o1, ast.Gt) else 0), n))
        elif isinstance(n, ast.BoolOp) and len(n.values) == 2 and all(isinstance(v, ast.Compare) and len(v.ops) == 1 for v in n.values):
            # `lo <= v and v < hi` (inside) or `v < lo or v >= hi` (outside): both delimit the same interval [lo, hi - 1]
            inside = isinstance(n.op, ast.And)
            flip = {ast.Lt: ast.GtE, ast.LtE: ast.Gt, ast.Gt: ast.LtE, ast.GtE: ast.Lt}
            lo = hi = None
            for v in n.values:
                a, op, b = v.left, v.ops[0], v.comparators[0]
                if not inside and type(op) in flip:
                    op = flip[type(op)]()
                if is_value(a) and _fold_int(b) is not None:
                    c = _fold_int(b)
                    if isinstance(op, ast.Lt):
                        hi = c - 1
                    elif isinstance(op, ast.LtE):
                        hi = c
                    elif isinstance(op, ast.Gt):
                        lo = c + 1
                    elif isinstance(op, ast.GtE):
                        lo = c
                elif is_value(b) and _fold_int(a) is not None:
                    c = _fold_int(a)
                    if isinstance(op, ast.Lt):
                        lo = c + 1
                    elif isinstance(op, ast.LtE):
                        lo = c
                    elif isinstance(op, ast.Gt):
                        hi = c - 1
                    elif isinstance(op, ast.GtE):
                        hi = c
            if lo is not None and hi is not None:
                out.append((lo, hi, n))
    return out


C_LONG_MIN_WIDTH = (-2 ** 31, 2 ** 31 - 1)      # what a C long holds on every supported ABI (ISO C 5.2.4.2.1 guarantees 32 bits; two's complement)


def rule_LITRANGE(ctx, floor=2):
    r = Rule('C40-LITRANGE', 'the interval of integer literals treated as C-long-sized (IntNode.find_suitable_type_for_value, Utils.long_literal) lies within what every C long holds '
                             '(32 bits) and is the same at both places', floor)
    ix = ctx.index
    intnode = ix.cls('ExprNodes', 'IntNode')
    f1 = intnode.methods.get('find_suitable_type_for_value') if intnode else None
    ut = ix.mod('Utils')
    f2 = ut.functions.get('long_literal')
    if f1 is None or f2 is None:
        raise AnalysisError('IntNode.find_suitable_type_for_value / Utils.long_literal vanished')
    i1 = literal_intervals(f1, lambda e: is_self_attr(e) and e.attr == 'constant_result')
    params = [a.arg for a in f2.args.args]
    i2 = literal_intervals(f2, lambda e: isinstance(e, ast.Name) and e.id in params)
    if len(i1) != 1 or len(i2) != 1:
        raise AnalysisError('the literal-size test was not found exactly once (IntNode: %d, Utils.long_literal: %d interval tests)' % (len(i1), len(i2)))
    sites = [('ExprNodes.IntNode.find_suitable_type_for_value', EN, i1[0]), ('Utils.long_literal', 'Cython/Utils.py', i2[0])]
    for name, rel, (lo, hi, node) in sites:
        key = '%s:c-long-interval' % name
        r.inst(key, sample='%s: [%d, %d]' % (key, lo, hi))
        if lo < C_LONG_MIN_WIDTH[0] or hi > C_LONG_MIN_WIDTH[1]:
            r.violate(key, rel, node.lineno, '%s treats integer literals in [%d, %d] as fitting a C long (`%s`), but a C long is only guaranteed 32 bits ([%d, %d]; 32 bits on Windows): '
                      'a literal outside that range is typed / inferred as C long and truncated there, while infer_types=False keeps the Python int'
                      % (name, lo, hi, _u(node), C_LONG_MIN_WIDTH[0], C_LONG_MIN_WIDTH[1]))
    (lo1, hi1, n1), (lo2, hi2, n2) = i1[0], i2[0]
    key = 'IntNode.find_suitable_type_for_value~Utils.long_literal:same-interval'
    r.inst(key, sample='%s: [%d, %d] vs [%d, %d]' % (key, lo1, hi1, lo2, hi2))
    if (lo1, hi1) != (lo2, hi2):
        r.violate(key, EN, n1.lineno, 'IntNode.find_suitable_type_for_value types literals in [%d, %d] as C long, Utils.long_literal (overflow marking, constant folding) uses [%d, %d]: '
                  'a literal between the two bounds is a C long for one and a big integer for the other' % (lo1, hi1, lo2, hi2))
    pc = ast.parse("def f(self):\n    if -2**63 <= self.constant_result < 2**63:\n        return 1\n").body[0]
    got = literal_intervals(pc, lambda e: is_self_attr(e) and e.attr == 'constant_result')
    r.positive_control(len(got) == 1 and got[0][:2] == (-2 ** 63, 2 ** 63 - 1), '64-bit boundary')
    return r


# ------------------------------------------------------------------------------------------------ C40-NONE
class LoopEval(Eval):
    """Eval + `for x in <list>`, list.append, try/finally (no exception is modelled: body, else, finally in sequence), list comprehensions over lists, `x += [..]`:
    enough for the small list-building helpers of the inferer and for save/restore handlers written with try/finally"""

    def stmt(self, s, env, frame):
        if isinstance(s, ast.For) and not s.orelse:
            seq = self.expr(s.iter, env, frame)
            if not isinstance(seq, (list, tuple)):
                raise Unsupported('iteration over %r' % (seq,))
            for v in seq:
                self.assign(s.target, v, env, frame)
                self.block(s.body, env, frame)
            return
        if isinstance(s, ast.Try):
            try:
                self.block(s.body, env, frame)
                self.block(s.orelse, env, frame)
            finally:
                # a `return` inside the body travels as an exception of the evaluator: the finally block still runs first
                self.block(s.finalbody, env, frame)
            return
        if isinstance(s, ast.AugAssign) and isinstance(s.op, ast.Add) and isinstance(s.target, ast.Name):
            cur = self.expr(ast.Name(id=s.target.id, ctx=ast.Load()), env, frame)
            add = self.expr(s.value, env, frame)
            if isinstance(cur, list) and isinstance(add, list):
                env[s.target.id] = cur + add
                return
            raise Unsupported('augmented assignment')
        return Eval.stmt(self, s, env, frame)

    def expr(self, e, env, frame):
        if isinstance(e, ast.ListComp) and len(e.generators) == 1 and not e.generators[0].is_async:
            g = e.generators[0]
            seq = self.expr(g.iter, env, frame)
            if not isinstance(seq, (list, tuple)):
                raise Unsupported('comprehension over %r' % (seq,))
            out = []
            inner = dict(env)
            for v in seq:
                self.assign(g.target, v, inner, frame)
                if all(self.truth(self.expr(c, inner, frame)) for c in g.ifs):
                    out.append(self.expr(e.elt, inner, frame))
            return out
        return Eval.expr(self, e, env, frame)

    def getattr(self, o, name, frame):
        if isinstance(o, list) and name == 'append':
            return o.append
        return Eval.getattr(self, o, name, frame)


def none_helper(infer_types_fn):
    """the nested helper of infer_types() that builds the list of assigned types and looks at `<assignment>.rhs.is_none`"""
    for n in ast.walk(infer_types_fn):
        if isinstance(n, ast.FunctionDef) and n is not infer_types_fn and len(n.args.args) == 1 and \
                any(isinstance(x, ast.Attribute) and x.attr == 'is_none' for x in ast.walk(n)) and any(isinstance(x, ast.Return) and x.value is not None for x in ast.walk(n)):
            return n
    return None


def none_table(ctx, module, helper):
    """-> [(scenario label, result has a Python object type?, labels of the result)]"""
    dom = PairDomain(ctx)
    c_long = [k for k in dom.kinds if k.label == 'C long'][0].obj
    kinds = {'None': None, 'C long': c_long, 'Python int': dom.py_int}
    out = []
    import itertools
    for combo in (('None',), ('None', 'C long'), ('C long', 'None'), ('None', 'C long', 'C long'), ('None', 'Python int'), ('Python int', 'None'), ('C long', 'None', 'Python int')):
        assmts = []
        for kname in combo:
            if kname == 'None':
                assmts.append(Obj('x = None', flag_default=False, rhs=Obj('NoneNode', flag_default=False, is_none=True), inferred_type=dom.py_object))
            else:
                assmts.append(Obj('x = <%s>' % kname, flag_default=False, rhs=Obj('rhs', flag_default=False, is_none=False), inferred_type=kinds[kname]))
        entry = Obj('entry', flag_default=False, cf_assignments=assmts)
        ev = LoopEval(dom.ix, overrides=dom.overrides)
        try:
            res = ev.call(RepoFn(module, helper), [entry])
        except Unsupported as e:
            raise AnalysisError('%s cannot be evaluated for assignments %s: %s' % (helper.name, combo, e))
        if not isinstance(res, list):
            raise AnalysisError('%s does not return a list' % helper.name)
        has_py = any(isinstance(t, Obj) and t.attrs.get('is_pyobject') is True for t in res)
        out.append((combo, has_py, [getattr(t, 'label', repr(t)) for t in res]))
    return out


_NONE_BAD = ("def inferred_types(entry):\n    types = []\n    for assmt in entry.cf_assignments:\n        if not assmt.rhs.is_none:\n            types.append(assmt.inferred_type)\n    return types\n")


def rule_NONE(ctx, floor=6):
    r = Rule('C40-NONE', 'the list of assigned types that infer_types() hands to the spanning type contains a Python object type whenever None is one of the assigned values '
                         '(a C variable cannot hold None: the module would stop compiling or the None would be converted)', floor)
    ix = ctx.index
    m = ix.mod('TypeInference')
    inferer = ix.cls('TypeInference', 'SimpleAssignmentTypeInferer')
    fn = inferer.methods.get('infer_types') if inferer else None
    if fn is None:
        raise AnalysisError('SimpleAssignmentTypeInferer.infer_types vanished')
    helper = none_helper(fn)
    if helper is None:
        raise AnalysisError('infer_types(): no nested helper looks at <assignment>.rhs.is_none')
    for combo, has_py, labels in none_table(ctx, m, helper):
        key = 'infer_types.%s:[%s]' % (helper.name, ', '.join(combo))
        r.inst(key, sample='%s -> [%s]' % (key, ', '.join(labels)))
        if not has_py:
            r.violate(key, TI, helper.lineno, 'for a variable assigned %s the helper %s() returns the types [%s], none of which is a Python object: the variable is inferred as a C type '
                      'that cannot hold None (compile error `Cannot convert None`, or a changed value), infer_types=False keeps an object'
                      % (' and '.join(combo), helper.name, ', '.join(labels)))
    bad = none_table(ctx, m, ast.parse(_NONE_BAD).body[0])
    r.positive_control(any(not has_py for combo, has_py, _ in bad if 'C long' in combo), 'helper that drops None assignments')
    return r


# ------------------------------------------------------------------------------------------------ C40-CLOSURE  (pending finding)
def closure_flag_findings(ix):
    """-> [(method name, attribute, line, verdict 'ok'|'local-only', detail)] for the flags the marking pass stores on looked-up entries and inference reads"""
    vis = ix.cls('TypeInference', 'MarkOverflowingArithmetic')
    inferer = ix.cls('TypeInference', 'SimpleAssignmentTypeInferer')
    entry_cls = ix.cls('Symtab', 'Entry')
    inner = ix.cls('Symtab', 'InnerEntry')
    if None in (vis, inferer, entry_cls, inner):
        raise AnalysisError('MarkOverflowingArithmetic / SimpleAssignmentTypeInferer / Symtab.Entry / Symtab.InnerEntry vanished')
    read = set()
    for fn in inferer.methods.values():
        for n in ast.walk(fn):
            if isinstance(n, ast.Attribute) and isinstance(n.ctx, ast.Load) and isinstance(n.value, ast.Name) and n.value.id in ('entry', 'e'):
                read.add(n.attr)
    # attributes the closure entry shares by construction: properties of InnerEntry, or attributes only reachable through its __getattr__ (no class-level default on Entry)
    shared = set()
    for name, fn in inner.methods.items():
        if any(isinstance(d, ast.Name) and d.id == 'property' for d in fn.decorator_list) or any(isinstance(d, ast.Attribute) and d.attr == 'setter' for d in fn.decorator_list):
            shared.add(name)
    out = []
    for mname, fn in sorted(vis.methods.items()):
        looked_up = set()
        for n in walk_no_nested(fn):
            if isinstance(n, ast.Assign) and len(n.targets) == 1 and isinstance(n.targets[0], ast.Name) and \
                    any(isinstance(c, ast.Call) and isinstance(c.func, ast.Attribute) and c.func.attr == 'lookup' for c in ast.walk(n.value)):
                looked_up.add(n.targets[0].id)
        if not looked_up:
            continue

        def stores(stmts, loop_over=None):
            for st in stmts:
                if isinstance(st, (ast.For, ast.AsyncFor)) and isinstance(st.target, ast.Name) and isinstance(st.iter, ast.Call) and isinstance(st.iter.func, ast.Attribute) \
                        and st.iter.func.attr == 'all_entries' and isinstance(st.iter.func.value, ast.Name) and st.iter.func.value.id in looked_up:
                    yield from stores(st.body, st.target.id)
                    continue
                if isinstance(st, ast.Assign):
                    for t in st.targets:
                        if isinstance(t, ast.Attribute) and isinstance(t.value, ast.Name):
                            if t.value.id in looked_up:
                                yield t.attr, st.lineno, False
                            elif loop_over and t.value.id == loop_over:
                                yield t.attr, st.lineno, True
                for fld in ('body', 'orelse', 'finalbody'):
                    sub = getattr(st, fld, None)
                    if isinstance(sub, list) and not isinstance(st, (ast.FunctionDef, ast.ClassDef)):
                        yield from stores(sub, loop_over)
        for attr, line, through_all in stores(fn.body):
            if attr not in read:
                continue
            has_default = ix.find_class_attr(entry_cls, attr) is not None
            if through_all or attr in shared or not has_default:
                out.append((mname, attr, line, 'ok', 'stored on every entry of all_entries()' if through_all else 'shared by InnerEntry'))
            else:
                out.append((mname, attr, line, 'local-only', ''))
    return out


def rule_CLOSURE(ctx, floor=1):
    """pending finding (FINDING_2): on the unmodified tree the flag of a closure variable is set on the InnerEntry only."""
    r = Rule('C40-CLOSURE', 'a flag the marking pass stores on an entry found by scope lookup and that infer_types() reads (might_overflow) reaches the defining entry of a closure '
                            'variable: stored through entry.all_entries() or shared by Symtab.InnerEntry', floor)
    ix = ctx.index
    res = closure_flag_findings(ix)
    for mname, attr, line, verdict, detail in res:
        key = 'MarkOverflowingArithmetic.%s:entry.%s' % (mname, attr)
        r.inst(key, sample='%s: %s %s' % (key, verdict, detail))
        if verdict != 'ok':
            r.violate(key, TI, line, 'MarkOverflowingArithmetic.%s stores `%s` on the entry that <scope>.lookup() returns; inside a nested function that is a Symtab.InnerEntry, '
                      'whose `%s` is a separate attribute (Entry has a class-level default, so InnerEntry.__getattr__ never forwards it): infer_types() of the enclosing scope reads '
                      'the flag of the defining entry, which stays unset - a closure variable used in overflowing arithmetic inside the inner function is inferred as a C integer and wraps'
                      % (mname, attr, attr))
    return r


# ------------------------------------------------------------------------------------------------ C40-FORWARD  (pending finding)
def forwarding_classes(ix):
    """ExprNode classes whose own infer_type() returns nothing but (the spanning type of) the inferred types of child nodes: {ClassInfo: forwarded child attributes}"""
    expr = ix.cls('ExprNodes', 'ExprNode')
    out = {}
    for c in [expr] + ix.subclasses(expr):
        fn = c.methods.get('infer_type')
        if not fn:
            continue
        local = {}
        for n in walk_no_nested(fn):
            if isinstance(n, ast.Assign) and len(n.targets) == 1 and isinstance(n.targets[0], ast.Name):
                local.setdefault(n.targets[0].id, []).append(n.value)

        def forwards(e, depth=0):
            if isinstance(e, ast.Call) and isinstance(e.func, ast.Attribute) and e.func.attr == 'infer_type' and is_self_attr(e.func.value):
                return {e.func.value.attr}
            if isinstance(e, ast.Call) and isinstance(e.func, ast.Attribute) and e.func.attr in ('spanning_type', 'independent_spanning_type'):
                acc = set()
                for a in e.args:
                    f = forwards(a, depth)
                    if f is None:
                        return None
                    acc |= f
                return acc
            if isinstance(e, ast.Name) and e.id in local and depth < 3 and len(local[e.id]) == 1:
                return forwards(local[e.id][0], depth + 1)
            return None
        rets = [forwards(n.value) for n in walk_no_nested(fn) if isinstance(n, ast.Return) and n.value is not None]
        # choice nodes only: the type is the spanning type of at least two operands, i.e. the value is one of several operands.  Single-operand wrappers
        # (StarredUnpackingNode, CloneNode, ProxyNode, EvalWithTempExprNode) also forward a type but are not operands of arithmetic by construction / not decided here.
        if rets and all(f is not None for f in rets) and len(set().union(*rets)) >= 2:
            out[c] = sorted(set().union(*rets))
    return out


def constructed_before_marking(ix, vis, classes):
    """the subset of `classes` that the parser or a pipeline stage listed before MarkOverflowingArithmetic constructs by name"""
    pl = ix.mod('Pipeline')
    cp = pl.functions.get('create_pipeline')
    stages = None
    for n in walk_no_nested(cp) if cp else ():
        if isinstance(n, ast.Assign) and isinstance(n.targets[0], ast.Name) and n.targets[0].id == 'stages' and isinstance(n.value, ast.List):
            stages = n.value
    if stages is None:
        raise AnalysisError('create_pipeline: `stages = [...]` not found')
    before = []
    for e in stages.elts:
        nm = e.func.id if isinstance(e, ast.Call) and isinstance(e.func, ast.Name) else e.id if isinstance(e, ast.Name) else None
        if nm == vis.name:
            break
        if nm:
            before.append(nm)
    else:
        raise AnalysisError('%s is not a stage of create_pipeline' % vis.name)
    names = {c.name: c for c in classes}
    found = {}
    sources = [('Parsing', None)] + [(c.module.short, c) for nm in before for c in ix.classes_by_name.get(nm, [])]
    for modshort, cls in sources:
        fns = []
        if cls is None:
            m = ix.mod(modshort)
            fns = [(qn, fn) for qn, owner, fn in ix.functions_of(m)]
        else:
            for k in ix.mro(cls):
                if k.module is cls.module:
                    fns += [('%s.%s' % (k.name, n), f) for n, f in k.methods.items()]
        for qn, fn in fns:
            for n in walk_no_nested(fn):
                if isinstance(n, ast.Call):
                    nm = n.func.attr if isinstance(n.func, ast.Attribute) else n.func.id if isinstance(n.func, ast.Name) else None
                    if nm in names:
                        found.setdefault(names[nm], '%s.%s' % (modshort, qn))
                    elif nm == 'binop_node' and 'BoolBinopNode' in names:
                        found.setdefault(names['BoolBinopNode'], '%s.%s (binop_node)' % (modshort, qn))
    return found


def rule_FORWARD(ctx, vis, floor=2):
    """pending finding (FINDING_3): CondExprNode / BoolBinopNode are visited as "safe" on the unmodified tree."""
    from ..props.C40 import classify
    r = Rule('C40-FORWARD', 'an expression node whose value is one of its operands (its infer_type() is the spanning type of child types: conditional expression, and/or, '
                            'temp wrappers) hands the overflow context on to those operands: MarkOverflowingArithmetic visits it as neutral, not as safe', floor)
    ix = ctx.index
    from .s4C40 import choice_classes
    # the classes are found from infer_type() OR from their `self.type = <spanning type of child types>` store (rules/s4C40), so that a rewrite of one of the
    # two sites does not hide the class from this rule
    fw = {}
    for c, info in choice_classes(ix).items():
        kids = set(info['children'])
        if not kids:      # infer_type() no longer has the forwarding shape: the operands named by the store site
            kids = {n.attr for fn, st in info['stores'] for n in ast.walk(fn) if isinstance(n, ast.Attribute) and is_self_attr(n) and n.attr in info['subexprs']}
        fw[c] = sorted(kids)
    early = constructed_before_marking(ix, vis, list(fw))
    if len(early) < 2:
        raise AnalysisError('only %d operand-forwarding expression classes are constructed before the marking pass' % len(early))
    for cls, where in sorted(early.items(), key=lambda kv: kv[0].name):
        kind, hname, after_bad = classify(ix, vis, cls, Obj(cls.name, flag_default=False, operator='and'))
        key = '%s (forwards %s)' % (cls.name, '/'.join(fw[cls]))
        r.inst(key, sample='%s -> %s: %s (constructed in %s)' % (key, hname, kind, where))
        if kind not in ('neutral', 'dangerous'):
            r.violate(key, vis.module.rel, vis.node.lineno, 'operands of %s (handler %s.%s) are visited as "%s": the node forwards the value of its operand %s, so in `(%s) * big` the '
                      'name inside takes part in the multiplication, but it is not marked might_overflow, is inferred as a C integer and the product wraps'
                      % (cls.name, vis.name, hname, kind, '/'.join(fw[cls]), 'x if c else y' if 'Cond' in cls.name else 'x or y'))
    return r


# ------------------------------------------------------------------------------------------------ C40-DEL
def rule_DEL(ctx, floor=13):
    r = Rule('C40-DEL', 'a `del x` contributes a Python object type to the inference of x whatever the C kind of the deleted value (FlowControl.NameDeletion.infer_type): '
                        'a variable that is deleted is never inferred as a C number, which cannot be unbound', floor)
    ix = ctx.index
    cls = ix.cls('FlowControl', 'NameDeletion')
    fn = cls.methods.get('infer_type') if cls else None
    if fn is None:
        raise AnalysisError('FlowControl.NameDeletion.infer_type vanished')
    dom = PairDomain(ctx)

    def table(owner, fnode):
        out = []
        for k in dom.kinds:
            scope = Obj('scope', flag_default=False)
            selfobj = Obj('NameDeletion', cls=owner, flag_default=False, entry=Obj('entry', flag_default=False, scope=scope),
                          rhs=Obj('rhs', flag_default=False, infer_type=lambda s, k=k: k.obj), inferred_type=None, rhs_scope=None)
            ev = PairEval(ix, overrides=dom.overrides)
            try:
                res = ev.call(Method(RepoFn(owner.module, fnode, owner), selfobj), [])
            except Unsupported as e:
                raise AnalysisError('NameDeletion.infer_type cannot be evaluated for %s: %s' % (k.label, e))
            out.append((k.label, isinstance(res, Obj) and res.attrs.get('is_pyobject') is True, getattr(res, 'label', repr(res))))
        return out
    for label, is_py, res in table(cls, fn):
        key = 'NameDeletion.infer_type:%s' % label
        r.inst(key, sample='%s -> %s' % (key, res))
        if not is_py:
            r.violate(key, cls.module.rel, fn.lineno, 'NameDeletion.infer_type answers %s for a deleted variable that held a %s: the variable is inferred as a C type, `del x` of a C variable '
                      'is rejected ("Deletion of non-Python, non-C++ object") although the module compiles with infer_types=False' % (res, label))
    pc = ast.parse("def infer_type(self):\n    inferred_type = self.rhs.infer_type(self.entry.scope)\n    self.inferred_type = inferred_type\n    return inferred_type\n").body[0]
    r.positive_control(any(not is_py for _, is_py, _ in table(cls, pc)), 'variant that returns the C type of the deleted value')
    return r


# ------------------------------------------------------------------------------------------------ C40-RANGEVAR
class NodeEval(LoopEval):
    """LoopEval + isinstance(<stub>, <node class>) by the class graph, slices of lists, len()"""

    def call(self, f, args, kwargs=None):
        if f is isinstance and len(args) == 2 and isinstance(args[0], Obj) and args[0].cls is not None:
            want = args[1] if isinstance(args[1], tuple) else (args[1],)
            names = {'%s.%s' % (k.module.short, k.name) for k in self.ix.mro(args[0].cls)}
            if all(isinstance(w, Sym) for w in want):
                return any(w.name in names for w in want)
        return LoopEval.call(self, f, args, kwargs)

    def expr(self, e, env, frame):
        if isinstance(e, ast.Subscript) and isinstance(e.slice, ast.Slice):
            base = self.expr(e.value, env, frame)
            if isinstance(base, (list, tuple)) and e.slice.step is None:
                lo = self.expr(e.slice.lower, env, frame) if e.slice.lower is not None else None
                hi = self.expr(e.slice.upper, env, frame) if e.slice.upper is not None else None
                if all(x is None or isinstance(x, int) for x in (lo, hi)):
                    return base[lo:hi]
            raise Unsupported('slice')
        return LoopEval.expr(self, e, env, frame)


def range_marks(ix, owner, fn, n_args):
    """right-hand sides FlowControl.mark_forloop_target marks for `for i in range(<n_args arguments>)`: list of labels"""
    en = ix.mod('ExprNodes')
    call_cls = ix.cls('ExprNodes', 'SimpleCallNode')
    marks = []
    args = [Obj('arg%d' % i, flag_default=False) for i in range(n_args)]
    ev = NodeEval(ix)
    ev.overrides[('ExprNodes', 'binop_node')] = lambda pos, op, a, b, **kw: Obj('(%s %s %s)' % (a.label, op, b.label), flag_default=False)
    range_type = ev.global_name(ix.mod('Builtin'), 'range_type')
    entry = Obj('entry of range', flag_default=False, is_type=True, is_builtin=True, type=range_type)
    scope = Obj('scope', flag_default=False, lookup=lambda name: entry if name in ('range', 'xrange') else None)
    function = Obj('NameNode range', flag_default=False, is_name=True, name='range')
    seq = Obj('SimpleCallNode', cls=call_cls, flag_default=False, function=function, args=args)
    seq.attrs['self'] = None
    target = Obj('target', flag_default=False)
    node = Obj('ForInStatNode', flag_default=False, target=target, pos=Obj('pos'), item=Obj('item', flag_default=False),
               iterator=Obj('IteratorNode', flag_default=False, sequence=seq, expr_scope=None))
    selfobj = Obj('ControlFlowAnalysis', cls=owner, flag_default=False, env=scope)
    selfobj.attrs['mark_assignment'] = lambda lhs, rhs=None, **kw: marks.append(getattr(rhs, 'label', repr(rhs)))
    selfobj.attrs['constant_folder'] = lambda x: x
    selfobj.attrs['current_env'] = lambda: scope
    selfobj.attrs['visitchildren'] = lambda *a, **k: None
    try:
        ev.call(Method(RepoFn(owner.module, fn, owner), selfobj), [node])
    except Unsupported as e:
        raise AnalysisError('%s.%s cannot be evaluated for range() with %d argument(s): %s' % (owner.name, fn.name, n_args, e))
    return marks


def rule_RANGEVAR(ctx, floor=3):
    r = Rule('C40-RANGEVAR', 'for `for i in range(...)` the loop variable is given, as assigned values, every one of the first two arguments and start+step when a step is present '
                             '(FlowControl.mark_forloop_target evaluated on range() calls with 1, 2 and 3 arguments): its inferred type spans start and bound', floor)
    ix = ctx.index
    cls = ix.cls('FlowControl', 'ControlFlowAnalysis')
    fn = cls.methods.get('mark_forloop_target') if cls else None
    if fn is None:
        raise AnalysisError('FlowControl.ControlFlowAnalysis.mark_forloop_target vanished')

    def problems(owner, fnode):
        out = []
        for n in (1, 2, 3):
            marks = range_marks(ix, owner, fnode, n)
            want = ['arg%d' % i for i in range(min(n, 2))]
            missing = [w for w in want if w not in marks]
            if n == 3 and not any('arg0' in m and 'arg2' in m and m.startswith('(') for m in marks):
                missing.append('arg0 + arg2')
            out.append((n, marks, missing))
        return out
    for n, marks, missing in problems(cls, fn):
        key = 'mark_forloop_target:range/%d' % n
        r.inst(key, sample='%s: marks %s' % (key, marks))
        if missing:
            r.violate(key, cls.module.rel, fn.lineno, 'for `for i in range(%s)` mark_forloop_target records %s as values of the loop variable but not %s: the variable is inferred from the '
                      'remaining values only (e.g. a C long from a literal start) although it runs up to a bound of another type - conversion error or wrap-around where infer_types=False iterates over Python ints'
                      % (', '.join('arg%d' % i for i in range(n)), marks, ', '.join(missing)))
    pc = ast.parse("class C:\n    def mark_forloop_target(self, node):\n        sequence = node.iterator.sequence\n        target = node.target\n        if isinstance(sequence, ExprNodes.SimpleCallNode):\n"
                   "            function = sequence.function\n            if sequence.self is None and function.is_name and function.name in ('range', 'xrange'):\n"
                   "                for arg in sequence.args[:1]:\n                    self.mark_assignment(target, arg)\n").body[0].body[0]
    r.positive_control(any(missing for n, marks, missing in problems(cls, pc)), 'variant that marks the start value only')
    return r
