"""C15 (strengthening).

C15-ONCE  In the C fast paths of integer indexing a negative index has the container length added AT MOST once before it
          reaches a consumer that implements Python's wrap-around itself (PySequence_{Get,Set,Del}Item, the generic
          PyObject_*Item fallback reached through PyLong_FromSsize_t, helpers that forward to those, sibling fast paths
          called with wraparound=1).  C15-GUARD already decides "at least once before a non-wrapping accessor"; this is the
          dual: an index that had the length added and is not known to be non-negative (bounds test passed, or an explicit
          `x < 0` rejection) must not be handed to a wrapping consumer - for -2*len <= i < -len the consumer would wrap a
          second time and silently address element i + 2*len instead of raising IndexError.
          Same path enumeration and index-status domain (raw / length-added / bounds-tested) as C15-GUARD, for every
          preprocessor configuration and flag value.

C15-BOUND ConstantFolding.visit_SliceIndexNode normalises the bounds of `x[a:b]` before type analysis.  Its decision
          "this bound is absent" is tabulated over the complete partition of what a bound can be (no node, constant None,
          zero / positive / negative integer constant, False/True, falsy and truthy non-integer constants, not a constant,
          constant not yet computed) by folding the method on model nodes, and compared with the reference: a bound
          may be dropped only where that cannot change `x[a:b]` for a builtin sequence (None; for the start also 0).
"""
import ast, re

from ..core import Rule, AnalysisError, node_src
from ..engine import tables
from . import pC15 as P
from .pC10 import Folder, Unfoldable, Closure, Env, SAFE_BUILTINS, SAFE_EXC

# ============================================================================================== C15-ONCE
ADJUSTED = (('ix', 'adj_neg'), ('ix', 'adj_unk'))


def derived_wrapping_consumers(cat, names):
    """Plain C helpers (no flag parameters) that hand one of their parameters, unchanged, to a wrapping consumer:
    {function name: parameter position}.  E.g. __Pyx_SetItemInt_Fast_mapping(o, setitem, i, v) -> PyLong_FromSsize_t(i)."""
    out = {}
    for name in sorted(names):
        for f in P.resolve_c(cat, name, ('func',)):
            body = f.expanded_body() if f.body else None
            if not body:
                continue
            pn = f.param_names()
            if 'wraparound' in pn:
                continue
            for callee, args, _ in P.c_calls_in_text(body):
                if callee in P.WRAPPING_CONSUMERS and P.WRAPPING_CONSUMERS[callee] < len(args):
                    b = P.bare_c_ident(args[P.WRAPPING_CONSUMERS[callee]])
                    if b in pn and not re.search(r'\b%s\s*(\+=|-=|=[^=])' % re.escape(b), body):
                        out[name] = pn.index(b)
    return out


class OnceFlow(P.IndexFlow):
    """IndexFlow + the dual obligation: a length-added index reaches a wrapping consumer only when known non-negative."""

    def __init__(self, *a, derived=None, **k):
        super().__init__(*a, **k)
        self.derived = derived or {}

    # `x < 0` / `x >= 0` on a length-added index: remember the non-negative branch
    def truth(self, e, st):
        e1 = P.strip_wrappers(e)
        name = neg_when_true = None
        if e1[0] == 'bin' and e1[1] in ('<', '>=', '<=', '>'):
            l, r = P.strip_wrappers(e1[2]), P.strip_wrappers(e1[3])
            if r == ('num', 0) and l[0] == 'id' and st.env.get(l[1]) in ADJUSTED and e1[1] in ('<', '>='):
                name, neg_when_true = l[1], e1[1] == '<'
            elif l == ('num', 0) and r[0] == 'id' and st.env.get(r[1]) in ADJUSTED and e1[1] in ('>', '<='):
                name, neg_when_true = r[1], e1[1] == '>'
        res = super().truth(e, st)
        if name is not None:
            for t, s in res:
                if t != neg_when_true:
                    s.atoms['nonneg:' + name] = True
        return res

    def _safe(self, argexpr, st):
        a = P.strip_wrappers(argexpr)
        n = a[1] if a[0] == 'id' else P.c_text(a)
        return n, (n in st.valid or st.atoms.get('nonneg:' + n) is True)

    def _value(self, argexpr, st):
        a = P.strip_wrappers(argexpr)
        if a[0] == 'id':
            return st.env.get(a[1], ('u',))
        vals = {v for v, _ in self.ev(a, st.copy())}
        return next((v for v in vals if v in ADJUSTED), ('u',))

    def _check(self, consumer, argexpr, st):
        v = self._value(argexpr, st)
        self.events.add(('consumer', consumer))
        if v not in ADJUSTED:
            return
        n, safe = self._safe(argexpr, st)
        if safe:
            return
        what = 'the generic object-protocol fallback it feeds' if consumer == 'PyLong_FromSsize_t' else consumer
        self.problem('rewrap:%s' % consumer,
                     '%s hands index %r to %s after the container length was added to it and without knowing that the sum is non-negative '
                     '(no successful bounds test, no `%s < 0` rejection on this path); %s implements wrap-around itself, so for -2*len <= i < -len the length is '
                     'added twice: element i + 2*len is read/written/deleted instead of raising IndexError' % (self.fname, n, consumer, n, what))

    def ev_call(self, e, st):
        name = self.callee_name(e[1])
        args = e[2]
        if name in P.WRAPPING_CONSUMERS and P.WRAPPING_CONSUMERS[name] < len(args):
            self._check(name, args[P.WRAPPING_CONSUMERS[name]], st)
        elif name in self.derived and self.derived[name] < len(args) and name not in self.family:
            self._check(name, args[self.derived[name]], st)
        elif name in self.family and len(self.family[name]) == len(args):
            cp = self.family[name]
            ixpos = next((i for i, (t, n) in enumerate(cp) if t.strip() == 'Py_ssize_t'), None)
            wpos = next((i for i, (t, n) in enumerate(cp) if n == self.wflag), None)
            if ixpos is not None and wpos is not None:
                wv = {v for v, _ in self.ev(args[wpos], st.copy())}
                if ('c', 0) not in wv or len(wv) > 1:
                    self._check(name, args[ixpos], st)
        return super().ev_call(e, st)


PC_ONCE = '''{
    if (wraparound & unlikely(i < 0)) i += PyList_GET_SIZE(o);
    if ((!boundscheck) || likely(__Pyx_is_valid_index(i, PyList_GET_SIZE(o)))) {
        PyObject *old = PyList_GET_ITEM(o, i);
        PyList_SET_ITEM(o, i, v);
        Py_DECREF(old);
        return 0;
    }
    return __Pyx_SetItemInt_Generic(o, PyLong_FromSsize_t(i), v);
}'''
PC_ONCE_OK = '''{
    Py_ssize_t n = i;
    if (wraparound & unlikely(i < 0)) n += PyList_GET_SIZE(o);
    if (unlikely(n < 0)) { return -1; }
    return PySequence_SetItem(o, n, v);
}'''


def _run_once(name, typed, body_text, fam_params, adjusting, derived):
    problems, events, paths = {}, set(), 0
    for cfg, text in P.pp_configs(body_text):
        tree = P.parse_c_function_body(text)
        for Wv in (0, 1):
            for Bv in (0, 1):
                fl = OnceFlow(name, typed, tree, fam_params, adjusting, derived=derived)
                fl.run(Wv, Bv, cfg)
                for k, v in fl.problems.items():
                    if k.startswith('rewrap:'):
                        problems.setdefault(k, v)
                events |= fl.events
                paths += fl.paths
    return problems, events, paths


def rule_once(ctx, F):
    """F: the Family object of sa/props/C15.py (flag-taking fast-path functions reachable from the emitted macros)."""
    r = Rule('C15-ONCE', 'C fast paths: an index that had the container length added reaches a wrapping consumer (PySequence_*Item, the generic PyLong_FromSsize_t '
             'fallback, forwarding helpers, sibling fast paths with wraparound on) only when it is known to be non-negative - the length is never added twice '
             '(all preprocessor configurations, all flag values)', floor=18)
    fam_params = {n: f.typed_params() for n, f in F.funcs.items()}
    called = set()
    for f in F.funcs.values():
        called |= {c for c, _, _ in P.c_calls_in_text(f.expanded_body() or '')}
    derived = derived_wrapping_consumers(ctx.cat, called - set(F.funcs))
    r.info('helpers that forward a parameter to a wrapping consumer: %s' % ', '.join('%s[%d]' % kv for kv in sorted(derived.items())))
    for n, f in sorted(F.funcs.items()):
        body = f.expanded_body()
        if body is None:
            raise AnalysisError('%s has no body' % n)
        problems, events, paths = _run_once(n, f.typed_params(), body, fam_params, F.adjusting, derived)
        cons = sorted(acc for kind, acc in events if kind == 'consumer')
        for acc in cons:
            r.inst('%s->%s' % (n, acc), sample='%s hands an index to %s (%d paths)' % (n, acc, paths))
        if not cons:
            r.inst('func:' + n, nontrivial=False)
        for k, msg in sorted(problems.items()):
            r.violate('%s:%s' % (n, k), f.file, f.line, msg)
    typed = [('PyObject *', 'o'), ('Py_ssize_t', 'i'), ('PyObject *', 'v'), ('int', 'wraparound'), ('int', 'boundscheck')]
    bad, _, _ = _run_once('positive_control', typed, PC_ONCE, {}, {}, {})
    good, _, _ = _run_once('negative_control', typed, PC_ONCE_OK, {}, {}, {})
    r.positive_control('rewrap:PyLong_FromSsize_t' in bad and not good,
                       'in-place wrap-around followed by the generic fallback is reported; a separate wrapped copy with an explicit `n < 0` rejection is not')
    return r


# ============================================================================================== C15-BOUND
OPT = 'Cython/Compiler/Optimize.py'
EXN = 'Cython/Compiler/ExprNodes.py'


class _Sentinel:
    def __init__(self, name):
        self.name = name

    def __repr__(self):
        return '<%s>' % self.name


NOT_CONST = _Sentinel('not_a_constant')
NOT_SET = _Sentinel('constant_value_not_set')


class MNode:
    """Model of a tree node / visitor instance: a bag of attributes; methods are looked up in `cls` (an ast.ClassDef)."""

    def __init__(self, kind, cls=None, **attrs):
        self.kind, self.cls, self.attrs = kind, cls, attrs

    def __repr__(self):
        return '<model %s>' % self.kind


class NodeFolder(Folder):
    """pC10.Folder + attribute reads/stores on MNode models (everything else is unchanged: nothing of /repo is executed)."""

    def attribute(self, v, attr, node=None):
        if isinstance(v, MNode):
            if attr in v.attrs:
                return v.attrs[attr]
            if v.cls is not None:
                for n in v.cls.body:
                    if isinstance(n, ast.FunctionDef) and n.name == attr:
                        clo = Closure(self, n, Env({}, None, v.attrs['__rel__']))
                        return lambda *a, **k: clo(v, *a, **k)
            raise Unfoldable('the model of %s has no attribute %r (%s)' % (v.kind, attr, node_src(node, 60) if node is not None else ''))
        return super().attribute(v, attr, node)

    def name(self, ident, env):
        # as Folder.name, with the negative module lookups (builtins) cached
        ok, v = env.lookup(ident)
        if ok:
            return v
        neg = self.__dict__.setdefault('_undefined', set())
        if (env.rel, ident) not in neg:
            try:
                return self.module_attr(env.rel, ident)
            except Unfoldable as e:
                if 'does not define' not in str(e):
                    raise
                neg.add((env.rel, ident))
        if ident in SAFE_BUILTINS:
            return SAFE_BUILTINS[ident]
        if ident in SAFE_EXC:
            return SAFE_EXC[ident]
        raise Unfoldable('unbound name %r in %s' % (ident, env.rel))

    def assign(self, target, value, env):
        if isinstance(target, ast.Attribute):
            obj = self.expr(target.value, env)
            if isinstance(obj, MNode):
                obj.attrs[target.attr] = value
                return
        super().assign(target, value, env)

    def expr(self, n, env):
        if type(n) is ast.Call:
            self.steps += 1
            f = self.expr(n.func, env)
            args, kwargs = [], {}
            for a in n.args:
                if isinstance(a, ast.Starred):
                    args.extend(self.expr(a.value, env))
                else:
                    args.append(self.expr(a, env))
            for k in n.keywords:
                if k.arg is None:
                    kwargs.update(self.expr(k.value, env))
                else:
                    kwargs[k.arg] = self.expr(k.value, env)
            if f is isinstance and len(args) == 2 and isinstance(args[0], MNode):
                classes = args[1] if isinstance(args[1], tuple) else (args[1],)
                return any(c in args[0].attrs.get('__isa__', ()) for c in classes)
            return self.call_value(f, args, kwargs, n)
        return super().expr(n, env)


# the complete partition of what the bound of a 2-bound slice can be when ConstantFolding sees it
#   class name -> (constant_result or 'absent', human description)
BOUND_CLASSES = [
    ('absent', 'absent', 'no bound written (`x[:b]`)'),
    ('none', None, 'the constant None'),
    ('zero', 0, 'the integer constant 0'),
    ('false', False, 'the constant False (== 0)'),
    ('one', 1, 'the integer constant 1'),
    ('positive', 3, 'a positive integer constant'),
    ('true', True, 'the constant True (== 1)'),
    ('minus-one', -1, 'the integer constant -1'),
    ('negative', -2, 'a negative integer constant'),
    ('falsy-float', 0.0, 'the float constant 0.0 (TypeError in CPython)'),
    ('float', 1.5, 'a float constant (TypeError in CPython)'),
    ('falsy-str', '', "the constant '' (TypeError in CPython)"),
    ('str', 'a', 'a string constant (TypeError in CPython)'),
    ('not-constant', NOT_CONST, 'not a compile-time constant (a variable, a call)'),
    ('not-set', NOT_SET, 'a node whose constant value was not computed'),
]
# where dropping the bound cannot change x[a:b] on list/tuple/str/bytes/bytearray
MAY_DROP = {'start': {'absent', 'none', 'zero', 'false'}, 'stop': {'absent', 'none'}}
CONSEQUENCE = {
    'start': 'x[a:b] is compiled as x[:b]',
    'stop': 'x[a:b] is compiled as x[a:] (e.g. x[:0] returns the whole sequence, `x[:0] = v` replaces it, `del x[:0]` empties it)',
}


def _bound_model(cname, value):
    if value == 'absent' and cname == 'absent':
        return None
    m = MNode('bound:' + cname, constant_result=value, is_none=value is None, is_literal=not isinstance(value, _Sentinel),
              is_name=False, pos=('model', 1, 1))
    m.attrs['has_constant_result'] = lambda: not isinstance(m.attrs['constant_result'], _Sentinel)
    return m


def slice_bound_table(folder, cls, fdef, rel):
    """{(bound, class): True if some evaluation dropped the bound}; the method is folded on model nodes."""
    clo = Closure(folder, fdef, Env({}, None, rel))
    params = [a.arg for a in fdef.args.args]
    if len(params) != 2:
        raise AnalysisError('%s no longer takes (self, node)' % fdef.name)
    dropped = {}
    n = 0
    for sc, sv, _ in BOUND_CLASSES:
        for tc, tv, _ in BOUND_CLASSES:
            visitor = MNode('ConstantFolding instance', cls, reevaluate=False, __rel__=rel)
            base = MNode('base', is_sequence_constructor=False, is_string_literal=False, mult_factor=None, constant_result=NOT_CONST,
                         pos=('model', 1, 1))
            base.attrs['has_constant_result'] = lambda: False
            node = MNode('SliceIndexNode', start=_bound_model(sc, sv), stop=_bound_model(tc, tv), base=base, constant_result=NOT_CONST,
                         pos=('model', 1, 1), slice=None)
            node.attrs['has_constant_result'] = lambda: False
            folder.steps = 0
            try:
                res = clo(visitor, node)
            except Unfoldable as x:
                raise AnalysisError('C15-BOUND cannot fold %s on model nodes (start: %s, stop: %s): %s' % (fdef.name, sc, tc, x))
            if res is not node:
                raise AnalysisError('C15-BOUND: %s returns %r instead of the slice node for a non-constant slice' % (fdef.name, res))
            n += 1
            for bound, c in (('start', sc), ('stop', tc)):
                now = node.attrs.get(bound)
                if now is None:
                    dropped[(bound, c)] = True
                elif isinstance(now, MNode):
                    dropped.setdefault((bound, c), False)
                else:
                    raise AnalysisError('C15-BOUND: %s stores %r into node.%s' % (fdef.name, now, bound))
    return dropped, n


_PC_BOUND = '''
class ConstantFolding:
    def visit_SliceIndexNode(self, node):
        self._calculate_const(node)
        if node.start is None or node.start.constant_result is None:
            start = node.start = None
        if node.stop is None or not node.stop.constant_result:
            stop = node.stop = None
        return node
    def _calculate_const(self, node):
        pass
'''


def _judge(dropped, report):
    for (bound, c), d in sorted(dropped.items()):
        if d and c not in MAY_DROP[bound]:
            desc = next(t for k, _, t in BOUND_CLASSES if k == c)
            report(bound, c, 'the %s bound is dropped when it is %s: %s' % (bound, desc, CONSEQUENCE[bound]))


def rule_bound(ctx):
    r = Rule('C15-BOUND', 'ConstantFolding.visit_SliceIndexNode drops a slice bound only where x[a:b] cannot change: decision table over the complete partition of '
             'bound values (absent / None / zero / non-zero / non-integer / non-constant), folded on model nodes', floor=28)
    tree = ctx.parse(OPT)
    cls = next((n for n in tree.body if isinstance(n, ast.ClassDef) and n.name == 'ConstantFolding'), None)
    if cls is None:
        raise AnalysisError('Optimize.ConstantFolding vanished')
    fdef = next((n for n in cls.body if isinstance(n, ast.FunctionDef) and n.name == 'visit_SliceIndexNode'), None)
    if fdef is None:
        raise AnalysisError('ConstantFolding.visit_SliceIndexNode vanished')
    f = NodeFolder(ctx)
    f._globals[(EXN, 'not_a_constant')] = NOT_CONST
    f._globals[(EXN, 'constant_value_not_set')] = NOT_SET
    dropped, n = slice_bound_table(f, cls, fdef, OPT)
    for (bound, c), d in sorted(dropped.items()):
        r.inst('%s:%s' % (bound, c), sample='%s bound %s: %s' % (bound, c, 'dropped' if d else 'kept'))
    r.info('%d evaluations; dropped: %s' % (n, sorted('%s:%s' % k for k, d in dropped.items() if d)))
    _judge(dropped, lambda bound, c, msg: r.violate('ConstantFolding.visit_SliceIndexNode:%s:%s' % (bound, c), OPT, fdef.lineno,
                                                    'visit_SliceIndexNode: ' + msg))
    # constant sequences: the item list may only be cut when no multiplier is attached
    for has_mult, returned_base, cut in folded_multiplier_problem(f, cls, fdef, OPT):
        r.inst('constant-sequence:%s' % ('multiplied' if has_mult else 'plain'), sample='constant sequence%s: %s' % (' * n' if has_mult else '', 'items cut' if cut else 'kept'))
        if has_mult and cut:
            r.violate('ConstantFolding.visit_SliceIndexNode:constant-sequence:multiplier', OPT, fdef.lineno,
                      'visit_SliceIndexNode cuts the item list of a constant sequence that carries a multiplier: ([a, b, c, d] * n)[1:3] is compiled as [b, c] * n')
    # the anchor: this is the place where a constant None bound becomes "no bound" (only an analysis problem if nothing else is wrong)
    for bound in ('start', 'stop'):
        if not dropped.get((bound, 'none')) and not r.findings:
            raise AnalysisError('C15-BOUND: visit_SliceIndexNode no longer normalises a constant None %s bound to "no bound": the normalisation moved, the rule lost its anchor' % bound)
    # positive control
    pcls = ast.parse(_PC_BOUND).body[0]
    pf = NodeFolder(ctx)
    pdrop, _ = slice_bound_table(pf, pcls, pcls.body[0], OPT)
    hits = []
    _judge(pdrop, lambda bound, c, msg: hits.append((bound, c)))
    r.positive_control(('stop', 'zero') in hits and ('stop', 'positive') not in hits and not any(b == 'start' for b, _ in hits),
                       'truthiness test on the stop constant drops 0 / False / 0.0 / empty-string bounds')
    return r


# ==============================================================================================================
# Fourth round (mutation brainstorming): rules over the mechanisms that the interface / guard rules do not reach
# ==============================================================================================================
from ..engine import cexpr
from ..engine.cutil import strip_c_comments
from .slicenorm import Lin, lin, Region, INF, Unproven

SIZE_CALL = re.compile(r'(?:_GET_SIZE|_GET_LENGTH|_Size|_Length|_GetLength|^sq_length|^mp_length)$')


def _callee(fn):
    if fn[0] == 'id':
        return fn[1]
    if fn[0] == 'mem':
        return fn[3]
    return None


# ---------------------------------------------------------------------------------------------- C15-AMOUNT
class AmountScan:
    """What is added to an index?  Abstract interpretation of one C function on sets of linear forms over the symbols
    IDX (the incoming index) and LEN (the length of the indexed container, recognised as a size accessor applied to the
    container parameter, or through `is_len`).  Every assignment that writes the index parameter (or `*p` of an index pointer
    parameter), and every assignment to another variable whose new value depends on IDX, must leave IDX + 0 or IDX + LEN.
    Conditions are evaluated only as far as the wrap-around flag (assumed on: that is when an amount is added) decides them."""

    def __init__(self, fname, typed_params, body, is_len=None, index=None, flags=None):
        self.fname, self.body = fname, body
        self.flags = {'wraparound': 1}
        self.flags.update(flags or {})
        self.container = next((n for t, n in typed_params if n and 'PyObject' in t and t.count('*') == 1), None)
        self.index = index
        self.index_ptr = None
        for t, n in typed_params:
            tt = t.replace(' ', '')
            if self.index is None and self.index_ptr is None and n:
                if tt == 'Py_ssize_t':
                    self.index = n
                elif tt == 'Py_ssize_t*':
                    self.index_ptr = n
        if self.index is None and self.index_ptr is None:
            raise AnalysisError('%s: no Py_ssize_t index parameter' % fname)
        self.is_len = is_len
        self.problems = {}
        self.adds = []          # (target, description) of every assignment that adds LEN
        self.limits = []        # bounds tests against LEN

    # ---- values: frozenset of Lin
    def sym(self, name):
        return Lin(0, {name: 1})

    def size_call(self, e):
        if e[0] != 'call':
            return None
        name = _callee(e[1])
        if not name or not SIZE_CALL.search(name) or not e[2]:
            return None
        a = P.strip_wrappers(e[2][0])
        if a == ('id', self.container):
            return self.sym('LEN')
        return self.sym('LEN(%s)' % P.c_text(a))

    def cond(self, e, env):
        """True / False / None under the flag assumptions"""
        e = P.strip_wrappers(e)
        if e[0] == 'num':
            return bool(e[1])
        if e[0] == 'id' and e[1] in self.flags and e[1] not in env.get('#written', ()):
            return bool(self.flags[e[1]])
        if e[0] == 'un' and e[1] == '!':
            c = self.cond(e[2], env)
            return None if c is None else not c
        if e[0] == 'bin' and e[1] in ('&&', '&'):
            a, b = self.cond(e[2], env), self.cond(e[3], env)
            if a is False or b is False:
                return False
            return True if (a and b) else None
        if e[0] == 'bin' and e[1] in ('||', '|'):
            a, b = self.cond(e[2], env), self.cond(e[3], env)
            if a or b:
                return True
            return False if (a is False and b is False) else None
        return None

    def ev(self, e, env):
        e = P.strip_wrappers(e)
        k = e[0]
        if self.is_len is not None and self.is_len(e):
            return frozenset([self.sym('LEN')])
        if k == 'num':
            return frozenset([Lin(e[1])]) if e[1] is not None else frozenset([self.sym('num?')])
        if k == 'id':
            return env.get(e[1], frozenset([self.sym('v:' + e[1])]))
        if k == 'un' and e[1] == '*' and e[2][0] == 'id':
            return env.get('*' + e[2][1], frozenset([self.sym('v:*' + e[2][1])]))
        if k == 'un' and e[1] == '-':
            return frozenset(-v for v in self.ev(e[2], env))
        if k == 'call':
            s = self.size_call(e)
            if s is not None:
                return frozenset([s])
            return frozenset([self.sym('call:' + P.c_text(e)[:40])])
        if k == 'tern':
            c = self.cond(e[1], env)
            if c is True:
                return self.ev(e[2], env)
            if c is False:
                return self.ev(e[3], env)
            return self.ev(e[2], env) | self.ev(e[3], env)
        if k == 'bin' and e[1] in ('+', '-'):
            out = set()
            for a in self.ev(e[2], env):
                for b in self.ev(e[3], env):
                    out.add(a + b if e[1] == '+' else a - b)
            if len(out) > 16:
                raise AnalysisError('%s: too many possible values for %s' % (self.fname, P.c_text(e)))
            return frozenset(out)
        if k == 'bin' and e[1] == '*':
            out = set()
            for a in self.ev(e[2], env):
                for b in self.ev(e[3], env):
                    if a.const:
                        out.add(b.scale(a.c))
                    elif b.const:
                        out.add(a.scale(b.c))
                    else:
                        out.add(self.sym('expr:' + P.c_text(e)[:40]))
            return frozenset(out)
        if k == 'assign':
            return self.assign(e, env)
        if k == 'comma':
            self.ev(e[1], env)
            return self.ev(e[2], env)
        return frozenset([self.sym('expr:' + P.c_text(e)[:40])])

    def target(self, l):
        l = P.strip_wrappers(l)
        if l[0] == 'id':
            return l[1]
        if l[0] == 'un' and l[1] == '*' and l[2][0] == 'id':
            return '*' + l[2][1]
        return None

    def store(self, name, vals, env, what):
        primary = name == self.index or (self.index_ptr is not None and name == '*' + self.index_ptr)
        idx = 'IDX'
        for v in vals:
            c = v.k.get(idx, 0)
            if not primary and c == 0:
                continue
            if c != 1 and not primary:
                continue            # a quantity derived from the index (a distance, a count), not a copy of it
            if c != 1:
                self.problems.setdefault('amount:%s' % name,
                                         '%s: `%s` %s the index instead of adding the container length to it (new value %r)' % (
                                             self.fname, what, 'overwrites' if c == 0 else 'scales', v))
                continue
            delta = v - self.sym(idx)
            if delta == Lin(0):
                continue
            if delta == self.sym('LEN'):
                self.adds.append((name, what))
                continue
            self.problems.setdefault('amount:%s' % name,
                                     '%s: `%s` adds %r to the index; Python wrap-around adds exactly the length of the indexed container (LEN): '
                                     'negative indices address the wrong element / raise IndexError' % (self.fname, what, delta))
        env[name] = frozenset(vals)
        if name in self.flags:
            env['#written'] = env.get('#written', frozenset()) | {name}

    def assign(self, e, env):
        op, l, r = e[1], e[2], e[3]
        name = self.target(l)
        rv = self.ev(r, env)
        if name is None:
            return rv
        if op == '=':
            new = rv
        elif op in ('+=', '-='):
            cur = env.get(name, frozenset([self.sym('v:' + name)]))
            new = frozenset((a + b) if op == '+=' else (a - b) for a in cur for b in rv)
        else:
            new = frozenset([self.sym('expr:' + P.c_text(e)[:40])])
        self.store(name, new, env, P.c_text(e))
        return new

    def run(self):
        env = {}
        if self.index is not None:
            env[self.index] = frozenset([self.sym('IDX')])
        else:
            env['*' + self.index_ptr] = frozenset([self.sym('IDX')])
        self.stmt(self.body, env)
        return self

    def carries_index(self, vals):
        return any(v.k.get('IDX', 0) == 1 for v in vals)

    def check_limits(self, e, env):
        """every bounds comparison of an index-carrying value is against 0 or the length of the indexed container"""
        if not isinstance(e, tuple):
            return
        if e[0] == 'call' and _callee(e[1]) == P.VALID_TEST and len(e[2]) == 2:
            a, b = self.ev(e[2][0], dict(env)), self.ev(e[2][1], dict(env))
            if self.carries_index(a):
                self.limits.append(P.c_text(e))
                for v in b:
                    if v != self.sym('LEN'):
                        self.problems.setdefault('limit:%s' % P.VALID_TEST, '%s: the bounds test `%s` compares the index with %r instead of the length of the indexed container (LEN): '
                                                 'valid indices are rejected / out-of-range ones accepted' % (self.fname, P.c_text(e), v))
        if e[0] == 'bin' and e[1] in ('<', '<=', '>', '>='):
            a, b = self.ev(e[2], dict(env)), self.ev(e[3], dict(env))
            for x, y, ye in ((a, b, e[3]), (b, a, e[2])):
                if self.carries_index(x) and not self.carries_index(y):
                    for v in y:
                        if not (v.const or (v - self.sym('LEN')).const):
                            self.problems.setdefault('limit:compare', '%s: `%s` compares the index with %r; a bound of an index is 0 or the length of the indexed container (LEN)'
                                                     % (self.fname, P.c_text(e), v))
                        elif not v.const:
                            self.limits.append(P.c_text(e))
        for x in e[1:]:
            if isinstance(x, tuple):
                self.check_limits(x, env)
            elif isinstance(x, list):
                for y in x:
                    self.check_limits(y, env)

    def stmt(self, s, env):
        k = s[0]
        if k in ('if', 'expr', 'return') and s[1] is not None:
            self.check_limits(s[1], env)
        elif k == 'decl':
            for name, init, typ in s[1]:
                if init is not None:
                    self.check_limits(init, env)
        if k == 'block':
            for x in s[1]:
                self.stmt(x, env)
        elif k == 'if':
            c = self.cond(s[1], env)
            self.scan_expr(s[1], env)
            a, b = dict(env), dict(env)
            if c is not False:
                self.stmt(s[2], a)
            if s[3] is not None and c is not True:
                self.stmt(s[3], b)
            merged = {}
            arms = ([a] if c is not False else []) + ([b] if c is not True else [])
            for key in set().union(*[set(x) for x in arms]) if arms else ():
                vals = frozenset().union(*[x.get(key, env.get(key, frozenset())) for x in arms])
                merged[key] = vals
            env.clear()
            env.update(merged)
        elif k == 'decl':
            for name, init, typ in s[1]:
                if init is not None:
                    self.store(name, self.ev(init, env), env, '%s = %s' % (name, P.c_text(init)))
        elif k in ('expr', 'return'):
            if s[1] is not None:
                self.scan_expr(s[1], env)

    def scan_expr(self, e, env):
        """evaluate for the sake of embedded assignments / increments"""
        e0 = P.strip_wrappers(e)
        if e0[0] in ('assign', 'comma'):
            self.ev(e0, env)
            return
        if e0[0] in ('un', 'post') and e0[1] in ('++', '--'):
            name = self.target(e0[2])
            if name is not None:
                cur = env.get(name, frozenset([self.sym('v:' + name)]))
                d = 1 if e0[1] == '++' else -1
                self.store(name, frozenset(v + d for v in cur), env, P.c_text(e0))
            return
        for x in e0[1:]:
            if isinstance(x, tuple):
                self.scan_expr(x, env)
            elif isinstance(x, list):
                for y in x:
                    if isinstance(y, tuple):
                        self.scan_expr(y, env)


def _walk_c(node):
    """all expression nodes below a statement / expression of the pC15 C AST"""
    if isinstance(node, tuple):
        yield node
        for x in node[1:]:
            yield from _walk_c(x)
    elif isinstance(node, list):
        for y in node:
            yield from _walk_c(y)


PC_AMOUNT_BAD = '{ Py_ssize_t length = PyList_GET_SIZE(o); if (wraparound & unlikely(i < 0)) i += length - 1; return PyList_GET_ITEM(o, i); }'
PC_AMOUNT_OK = '{ Py_ssize_t n = (!wraparound) ? i : ((likely(i >= 0)) ? i : i + PyList_GET_SIZE(o)); return PyList_GET_ITEM(o, n); }'


def rule_amount(ctx, F):
    r = Rule('C15-AMOUNT', 'C fast paths: whatever is added to a (negative) index is exactly the length of the indexed container, and every bounds test of an index compares it '
             'with 0 or that same length - linear forms over IDX and LEN for every assignment that writes the index or a copy of it and every comparison of such a value, '
             'in every flag-taking helper and every helper that receives the index by address (all preprocessor configurations)', floor=17)
    todo = dict(F.funcs)
    called = set()
    for f in F.funcs.values():
        called |= {c for c, _, _ in P.c_calls_in_text(f.expanded_body() or '')}
    for n in sorted(called - set(F.funcs)):
        for f in P.resolve_c(ctx.cat, n, ('func',)):
            if f.body and any(t.replace(' ', '') == 'Py_ssize_t*' for t, _ in f.typed_params()):
                todo[n] = f
    by_ref = sorted(set(todo) - set(F.funcs))
    r.info('helpers receiving the index by address: %s' % (', '.join(by_ref) or 'none'))
    total = 0
    for n, f in sorted(todo.items()):
        body = f.expanded_body()
        adds, probs, limits = [], {}, set()
        for cfg, text in P.pp_configs(body):
            sc = AmountScan(n, f.typed_params(), P.parse_c_function_body(text)).run()
            adds += sc.adds
            limits |= set(sc.limits)
            for k, v in sc.problems.items():
                probs.setdefault(k, '%s [%s]' % (v, cfg))
        for tgt in sorted({t for t, _ in adds}):
            total += 1
            r.inst('%s:%s+=LEN' % (n, tgt), sample='%s: %s' % (n, next(w for t, w in adds if t == tgt)))
        for lim in sorted(limits):
            r.inst('%s:limit:%s' % (n, lim), sample='%s: bounds test %s' % (n, lim))
        if not adds:
            r.inst('func:' + n, nontrivial=False)
        for k, msg in sorted(probs.items()):
            r.violate('%s:%s' % (n, k), f.file, f.line, msg)
    # bounds-testing accessor macros the fast paths rely on (e.g. __Pyx_PyList_GetItemRef): same obligation for their limit
    n_macro = 0
    for n in sorted(called - set(todo)):
        for f in P.resolve_c(ctx.cat, n, ('macro',)):
            body = ' '.join((f.body or '').replace('\\\n', ' ').split())
            if P.VALID_TEST not in body:
                continue
            params = f.param_names()
            try:
                tree = P.parse_c_function_body('{ return %s; }' % body)
            except AnalysisError as x:
                raise AnalysisError('C15-AMOUNT: cannot parse the macro %s: %s' % (n, x))
            ixp = None
            for e in _walk_c(tree):
                if e[0] == 'call' and _callee(e[1]) == P.VALID_TEST and e[2]:
                    a = P.strip_wrappers(e[2][0])
                    if a[0] == 'id' and a[1] in params:
                        ixp = a[1]
            if ixp is None or not params or params[0] == ixp:
                raise AnalysisError('C15-AMOUNT: the macro %s tests an index that is not one of its parameters' % n)
            typed = [('PyObject *', params[0])] + [('Py_ssize_t', ixp)]
            sc = AmountScan(n, typed, tree).run()
            n_macro += 1
            r.inst('macro:%s:%s' % (n, ' '.join(f.decl.conds)[:40]), sample='%s: %s' % (n, sorted(set(sc.limits))))
            for k, msg in sorted(sc.problems.items()):
                r.violate('%s:%s' % (n, k), f.file, f.line, msg)
    if total < 6:
        raise AnalysisError('C15-AMOUNT: only %d length additions found in the fast paths' % total)
    typed = [('PyObject *', 'o'), ('Py_ssize_t', 'i'), ('int', 'wraparound'), ('int', 'boundscheck')]
    bad = AmountScan('pc', typed, P.parse_c_function_body(PC_AMOUNT_BAD)).run()
    good = AmountScan('pc', typed, P.parse_c_function_body(PC_AMOUNT_OK)).run()
    r.positive_control(bool(bad.problems) and not good.problems and bool(good.adds), '`i += length - 1` is reported, the ternary copy `i + PyList_GET_SIZE(o)` is accepted')
    return r


# ---------------------------------------------------------------------------------------------- C15-VALID
# A typed evaluator of C integer expressions (integer promotions, usual arithmetic conversions, conversion on cast) over cexpr ASTs.  Same model as the
# evaluator of sC32 (LP64); kept here so that this module does not depend on another property's file.
TNAME = 'sa_ret_t'
C_NAMED = {'char': ('i', 8, True), 'signed char': ('i', 8, True), 'unsigned char': ('i', 8, False), 'short': ('i', 16, True), 'unsigned short': ('i', 16, False),
           'int': ('i', 32, True), 'unsigned int': ('i', 32, False), 'unsigned': ('i', 32, False), 'long': ('i', 64, True), 'unsigned long': ('i', 64, False),
           'long long': ('i', 64, True), 'PY_LONG_LONG': ('i', 64, True), 'unsigned long long': ('i', 64, False), 'Py_ssize_t': ('i', 64, True), 'size_t': ('i', 64, False)}
SSIZE = ('i', 64, True)
SSIZE_MAX, SSIZE_MIN = 2 ** 63 - 1, -2 ** 63


def conv(val, ty):
    bits, signed = ty[1], ty[2]
    val &= (1 << bits) - 1
    if signed and val >= 1 << (bits - 1):
        val -= 1 << bits
    return val


def _promote(ty):
    return ('i', 32, True) if ty[1] < 32 else ty


def _common(ta, tb):
    ta, tb = _promote(ta), _promote(tb)
    if ta[2] == tb[2]:
        return ta if ta[1] >= tb[1] else tb
    u, sg = (ta, tb) if not ta[2] else (tb, ta)
    return u if u[1] >= sg[1] else sg


class _TE:
    """env: name -> (type, value); ttype: the type the placeholder name TNAME stands for"""

    def __init__(self, env, ttype=None):
        self.env, self.ttype = env, ttype

    def ctype(self, text):
        t = ' '.join(text.replace('const', ' ').split())
        if t == TNAME and self.ttype is not None:
            return self.ttype
        if t in C_NAMED:
            return C_NAMED[t]
        raise cexpr.EvalError('unmodelled type %r' % text)

    def ev(self, e, subst=None):
        k = e[0]
        INT = ('i', 32, True)
        if k in ('num', 'char'):
            return (INT if -2 ** 31 <= e[1] < 2 ** 31 else ('i', 64, True)), e[1]
        if k == 'id':
            if e[1] in self.env:
                return self.env[e[1]]
            raise cexpr.EvalError('free identifier %s' % e[1])
        if k == 'sizeof':
            return ('i', 64, False), self.ctype(' '.join(str(e[1]).split()))[1] // 8
        if k == 'cast':
            t, v = self.ev(e[2])
            ty = self.ctype(e[1])
            return ty, conv(v, ty)
        if k == 'un':
            t, v = self.ev(e[2])
            if e[1] == '!':
                return INT, int(not v)
            if e[1] in ('-', '+', '~'):
                t = _promote(t)
                return t, conv({'-': -v, '+': v, '~': ~v}[e[1]], t)
            raise cexpr.EvalError('unary ' + e[1])
        if k == 'tern':
            _, c = self.ev(e[1])
            ta, a = self.ev(e[2])
            tb, b = self.ev(e[3])
            t = _common(ta, tb)
            return t, conv(a if c else b, t)
        if k == 'call':
            if e[1] in ('likely', 'unlikely') and len(e[2]) == 1:
                return self.ev(e[2][0])
            raise cexpr.EvalError('call of %s' % e[1])
        if k == 'bin':
            op = e[1]
            if op in ('&&', '||'):
                _, a = self.ev(e[2])
                if (op == '&&' and not a) or (op == '||' and a):
                    return INT, int(bool(a))
                _, b = self.ev(e[3])
                return INT, int(bool(b))
            ta, a = self.ev(e[2])
            tb, b = self.ev(e[3])
            t = _common(ta, tb)
            a, b = conv(a, t), conv(b, t)
            if op in ('==', '!=', '<', '>', '<=', '>='):
                return INT, int({'==': a == b, '!=': a != b, '<': a < b, '>': a > b, '<=': a <= b, '>=': a >= b}[op])
            if op in ('+', '-', '*', '&', '|', '^'):
                return t, conv({'+': a + b, '-': a - b, '*': a * b, '&': a & b, '|': a | b, '^': a ^ b}[op], t)
            raise cexpr.EvalError('operator ' + op)
        raise cexpr.EvalError('node ' + k)


def _run_c_function(body, env, ttype=None):
    """evaluate a small straight-line/if C function body (pC15 AST) with C conversion rules -> returned value"""
    te = _TE(env, ttype)

    def val(e):
        try:
            return te.ev(cexpr.parse(P.c_text(e)))
        except (cexpr.EvalError, cexpr.ParseError) as x:
            raise AnalysisError('C15-VALID: cannot evaluate `%s`: %s' % (P.c_text(e), x))

    def run(s):
        k = s[0]
        if k == 'block':
            for x in s[1]:
                r = run(x)
                if r is not None:
                    return r
            return None
        if k == 'return':
            return val(s[1])
        if k == 'if':
            if val(s[1])[1]:
                return run(s[2])
            return run(s[3]) if s[3] is not None else None
        if k == 'decl':
            for name, init, typ in s[1]:
                t = ' '.join(typ.replace('const', ' ').split())
                if t not in C_NAMED:
                    raise AnalysisError('C15-VALID: local of type %r' % typ)
                env[name] = (C_NAMED[t], conv(val(init)[1], C_NAMED[t]) if init is not None else 0)
            return None
        if k == 'expr':
            e = s[1]
            if e[0] == 'assign' and e[1] == '=' and e[2][0] == 'id' and e[2][1] in env:
                t = env[e[2][1]][0]
                env[e[2][1]] = (t, conv(val(e[3])[1], t))
                return None
            if e[0] == 'call' and _callee(e[1]) in P.NOOPS:
                return None
        raise AnalysisError('C15-VALID: statement kind %r is outside the model' % (k,))
    return run(body)


def valid_index_table(body):
    """[(i, limit, got, want)] disagreements of the bounds predicate with 0 <= i < limit on the boundary classes"""
    bad, n = [], 0
    for limit in (0, 1, 2, 7, SSIZE_MAX):
        cand = {SSIZE_MIN, SSIZE_MIN + 1, -limit - 1, -limit, -2, -1, 0, 1, limit - 2, limit - 1, limit, limit + 1, SSIZE_MAX - 1, SSIZE_MAX}
        for i in sorted(c for c in cand if SSIZE_MIN <= c <= SSIZE_MAX):
            n += 1
            got = _run_c_function(body, {'i': (SSIZE, i), 'limit': (SSIZE, limit)})
            if got is None:
                raise AnalysisError('C15-VALID: __Pyx_is_valid_index does not return a value')
            if bool(got[1]) != (0 <= i < limit):
                bad.append((i, limit, bool(got[1])))
    return bad, n


INT_MODEL = [('signed char', 8, True), ('unsigned char', 8, False), ('short', 16, True), ('unsigned short', 16, False), ('int', 32, True), ('unsigned int', 32, False),
             ('Py_ssize_t / long', 64, True), ('size_t / unsigned long', 64, False), ('__int128', 128, True), ('unsigned __int128', 128, False)]


def fits_table(params, body_text):
    """disagreements of __Pyx_fits_Py_ssize_t(v, type, is_signed) with PY_SSIZE_T_MIN <= v <= PY_SSIZE_T_MAX over every integer width/signedness"""
    if len(params) != 3:
        raise AnalysisError('C15-VALID: __Pyx_fits_Py_ssize_t no longer takes (v, type, is_signed)')
    v, tname, sgn = params
    text = re.sub(r'\b%s\b' % re.escape(tname), TNAME, ' '.join(body_text.replace('\\\n', ' ').split()))
    try:
        e = cexpr.parse(text)
    except cexpr.ParseError as x:
        raise AnalysisError('C15-VALID: cannot parse the body of __Pyx_fits_Py_ssize_t: %s' % x)
    bad, n = [], 0
    for label, bits, signed in INT_MODEL:
        ty = ('i', bits, signed)
        lo, hi = (-(1 << (bits - 1)), (1 << (bits - 1)) - 1) if signed else (0, (1 << bits) - 1)
        cand = {lo, lo + 1, SSIZE_MIN - 1, SSIZE_MIN, SSIZE_MIN + 1, -1, 0, 1, SSIZE_MAX - 1, SSIZE_MAX, SSIZE_MAX + 1, hi - 1, hi}
        for val in sorted(c for c in cand if lo <= c <= hi):
            n += 1
            env = {v: (ty, val), sgn: (('i', 32, True), int(signed)), 'PY_SSIZE_T_MAX': (SSIZE, SSIZE_MAX), 'PY_SSIZE_T_MIN': (SSIZE, SSIZE_MIN)}
            try:
                got = _TE(env, ty).ev(e)
            except cexpr.EvalError as x:
                raise AnalysisError('C15-VALID: cannot evaluate __Pyx_fits_Py_ssize_t: %s' % x)
            if bool(got[1]) != (SSIZE_MIN <= val <= SSIZE_MAX):
                bad.append((label, val, bool(got[1])))
    return bad, n


def rule_valid(ctx):
    r = Rule('C15-VALID', 'the two predicates every integer-index fast path relies on are exact: __Pyx_is_valid_index(i, limit) <=> 0 <= i < limit on the boundary classes of i '
             'relative to the limit, and __Pyx_fits_Py_ssize_t(v, type, is_signed) <=> PY_SSIZE_T_MIN <= v <= PY_SSIZE_T_MAX for every integer width and signedness '
             '(evaluated with C conversion rules)', floor=100)
    fs = P.resolve_c(ctx.cat, P.VALID_TEST, ('func',))
    if len(fs) != 1 or not fs[0].body:
        raise AnalysisError('C15-VALID: %s is not a single function with a body' % P.VALID_TEST)
    f = fs[0]
    if [t.replace(' ', '') for t, _ in f.typed_params()] != ['Py_ssize_t', 'Py_ssize_t']:
        raise AnalysisError('C15-VALID: %s no longer takes (Py_ssize_t, Py_ssize_t)' % P.VALID_TEST)
    names = [n for _, n in f.typed_params()]
    body = P.parse_c_function_body(re.sub(r'\b%s\b' % names[0], 'i', re.sub(r'\b%s\b' % names[1], 'limit', f.body)) if names != ['i', 'limit'] else f.body)
    bad, n = valid_index_table(body)
    for k in range(n):
        r.inst('valid#%d' % k, nontrivial=k < 40)
    seen = set()
    for i, limit, got in bad:
        cls = 'negative' if i < 0 else 'at-limit' if i == limit else 'above-limit' if i > limit else 'inside'
        if cls in seen:
            continue
        seen.add(cls)
        r.violate('%s:%s' % (P.VALID_TEST, cls), f.file, f.line, '%s(%d, %d) is %s but 0 <= i < limit is %s: %s' % (
            P.VALID_TEST, i, limit, got, not got, 'an out-of-range index passes the bounds test of every fast path (out-of-bounds access instead of IndexError)' if got
            else 'valid indices are rejected'))
    ms = P.resolve_c(ctx.cat, '__Pyx_fits_Py_ssize_t', ('macro',))
    if len(ms) != 1:
        raise AnalysisError('C15-VALID: __Pyx_fits_Py_ssize_t is not a single macro')
    m = ms[0]
    bad, n2 = fits_table(m.param_names(), m.body)
    for k in range(n2):
        r.inst('fits#%d' % k, nontrivial=k < 40)
    seen = set()
    for label, val, got in bad:
        cls = '%s:%s' % (label.split(' /')[0], 'accepts-out-of-range' if got else 'rejects-in-range')
        if cls in seen:
            continue
        seen.add(cls)
        r.violate('__Pyx_fits_Py_ssize_t:%s' % cls, m.file, m.line, '__Pyx_fits_Py_ssize_t(%d, %s, %d) is %s: %s' % (
            val, label, int(dict((l, s) for l, b, s in INT_MODEL)[label]), got,
            'the index is cast to Py_ssize_t although it does not fit, so it changes value (wraps to a negative / small index) instead of raising IndexError' if got else
            'an index inside the Py_ssize_t range is sent to the error / generic path'))
    pc_bad, _ = valid_index_table(P.parse_c_function_body('{ return (size_t) i <= (size_t) limit; }'))
    pc_ok, _ = valid_index_table(P.parse_c_function_body('{ return i >= 0 && i < limit; }'))
    r.positive_control(bool(pc_bad) and not pc_ok, '`<=` accepts i == limit; the two-sided signed test is accepted')
    return r


# ---------------------------------------------------------------------------------------------- C15-CLAMP
def _rename(form, old, new):
    return Lin(form.c, {(new if s == old else s): v for s, v in form.k.items()})


def _classes(L, sym):
    from .slicenorm import classes
    out = []
    for label, form, bounds in classes(L):
        out.append((label, _rename(form, 't', sym), bounds))
    return out


def _adj(ci, v, Lf):
    """PySlice_AdjustIndices for step +1 on class index ci (see slicenorm.classes)"""
    if ci in (0, 1):
        return Lin(0)
    if ci in (2, 3, 4):
        return v + Lf
    if ci in (5, 6, 7):
        return v
    return Lf


class Fork(Exception):
    pass


class ClampEval:
    """Symbolic execution of a slice helper on linear forms.  State: env var -> Lin | ('opaque', text).  A comparison that the class region
    does not decide is forked only when it relates the start side to the stop side (the emptiness test); anything else is an analysis error."""

    def __init__(self, fname, region, env, container, start_syms, stop_syms, Lf=None):
        self.fname, self.r, self.container = fname, region, container
        self.Lf = Lf if Lf is not None else Lin(0, {'L': 1})
        self.start_syms, self.stop_syms = start_syms, stop_syms
        self.outcomes = []        # (kind, env, decided_only, return expr)

    def val(self, e, env):
        e = P.strip_wrappers(e)
        k = e[0]
        if k == 'num':
            return Lin(e[1])
        if k == 'id':
            return env.get(e[1], ('opaque', e[1]))
        if k == 'un' and e[1] == '*' and e[2][0] == 'id':
            return env.get('*' + e[2][1], ('opaque', '*' + e[2][1]))
        if k == 'un' and e[1] == '-':
            v = self.val(e[2], env)
            return -v if isinstance(v, Lin) else ('opaque', P.c_text(e))
        if k == 'call':
            name = _callee(e[1])
            if name and SIZE_CALL.search(name) and e[2] and P.strip_wrappers(e[2][0]) == ('id', self.container):
                return self.Lf
            return ('opaque', P.c_text(e))
        if k == 'bin' and e[1] in ('+', '-'):
            a, b = self.val(e[2], env), self.val(e[3], env)
            if isinstance(a, Lin) and isinstance(b, Lin):
                return a + b if e[1] == '+' else a - b
            return ('opaque', P.c_text(e))
        if k == 'bin' and e[1] == '*':
            a, b = self.val(e[2], env), self.val(e[3], env)
            if isinstance(a, Lin) and isinstance(b, Lin) and (a.const or b.const):
                return b.scale(a.c) if a.const else a.scale(b.c)
            return ('opaque', P.c_text(e))
        if k == 'tern':
            outs = []
            for t, env2 in self.truth(e[1], env):
                outs.append(self.val(e[2] if t else e[3], env2))
            if len(outs) == 1:
                return outs[0]
            raise AnalysisError('C15-CLAMP: %s: undecided conditional expression %s' % (self.fname, P.c_text(e)))
        if k == 'cast':
            return self.val(e[2], env)
        return ('opaque', P.c_text(e))

    def _bound_names(self, e):
        """number of distinct start / stop variables (by name) a comparison mentions: `stop > start` is the emptiness test even when one side
        has been clamped to a constant"""
        names = {n.lower() for n in P.c_ids(e)}
        return len({('start' if 'start' in n else 'stop') for n in names if 'start' in n or 'stop' in n})

    def sides(self, f):
        syms = set(f.k)
        return bool(syms & self.start_syms), bool(syms & self.stop_syms)

    def truth(self, e, env):
        """[(bool, env)]; forks only for start-vs-stop comparisons"""
        e = P.strip_wrappers(e)
        k = e[0]
        if k == 'un' and e[1] == '!':
            return [(not t, v) for t, v in self.truth(e[2], env)]
        if k == 'bin' and e[1] in ('&&', '&'):
            out = []
            for t, v in self.truth(e[2], env):
                out += self.truth(e[3], v) if t else [(False, v)]
            return out
        if k == 'bin' and e[1] in ('||', '|'):
            out = []
            for t, v in self.truth(e[2], env):
                out += [(True, v)] if t else self.truth(e[3], v)
            return out
        if k == 'bin' and e[1] in ('<', '<=', '>', '>=', '==', '!='):
            a, b = self.val(e[2], env), self.val(e[3], env)
            if not (isinstance(a, Lin) and isinstance(b, Lin)):
                return [('opaque', env)]
            d = a - b
            res = self.r.decide(e[1], d)
            if res is not None:
                return [(res, env)]
            s1, s2 = self.sides(d)
            if (s1 and s2) or ((s1 or s2) and self._bound_names(e) >= 2):
                env_t, env_f = dict(env), dict(env)
                env_t['#forked'] = env_f['#forked'] = True
                env_t['#facts'] = env.get('#facts', ()) + ((e[1], d, True),)
                env_f['#facts'] = env.get('#facts', ()) + ((e[1], d, False),)
                return [(True, env_t), (False, env_f)]
            raise AnalysisError('C15-CLAMP: %s: the comparison %s is not decided on the class %s' % (self.fname, P.c_text(e), self.r.box))
        v = self.val(e, env)
        if isinstance(v, Lin):
            res = self.r.decide('!=', v)
            if res is None:
                raise AnalysisError('C15-CLAMP: %s: truth of %s is not decided' % (self.fname, P.c_text(e)))
            return [(res, env)]
        return [('opaque', env)]

    def is_error_exit(self, s):
        body = s[1] if s[0] == 'block' else [s]
        if len(body) != 1 or body[0][0] not in ('return', 'goto'):
            return False
        if body[0][0] == 'goto':
            return True
        e = body[0][1]
        if e is None:
            return True
        e = P.strip_wrappers(e)
        return e in (('id', 'NULL'), ('num', 0)) or (e[0] == 'un' and e[1] == '-' and e[2] == ('num', 1))

    def run(self, s, envs):
        """-> envs that fall through"""
        k = s[0]
        if k == 'block':
            cur = envs
            for x in s[1]:
                if not cur:
                    break
                cur = self.run(x, cur)
            return cur
        out = []
        if k == 'if':
            for env in envs:
                for t, env2 in self.truth(s[1], env):
                    if t == 'opaque':
                        # a run-time status test: only an error exit may hang on it
                        if self.is_error_exit(s[2]) and s[3] is None:
                            out.append(env2)
                            continue
                        raise AnalysisError('C15-CLAMP: %s: the test %s depends on a value outside the model' % (self.fname, P.c_text(s[1])))
                    if t:
                        out += self.run(s[2], [dict(env2)])
                    elif s[3] is not None:
                        out += self.run(s[3], [dict(env2)])
                    else:
                        out.append(env2)
            return out
        if k == 'decl':
            for env in envs:
                for name, init, typ in s[1]:
                    env[name] = self.val(init, env) if init is not None else ('opaque', name)
            return envs
        if k == 'expr':
            e0 = P.strip_wrappers(s[1])
            if e0[0] == 'assign' and e0[1] == '=' and P.strip_wrappers(e0[3])[0] == 'tern':
                # x = c ? a : b;   is   if (c) x = a; else x = b;   (the condition may be the emptiness test, which forks the path)
                t = P.strip_wrappers(e0[3])
                return self.run(('if', t[1], ('expr', ('assign', '=', e0[2], t[2])), ('expr', ('assign', '=', e0[2], t[3]))), envs)
            for env in envs:
                self.effect(s[1], env)
            return envs
        if k == 'return':
            for env in envs:
                self.outcomes.append(('return', env, s[1]))
            return []
        if k in ('goto', 'label'):
            raise AnalysisError('C15-CLAMP: %s uses goto' % self.fname)
        raise AnalysisError('C15-CLAMP: %s: statement kind %s' % (self.fname, k))

    def effect(self, e, env):
        e = P.strip_wrappers(e)
        if e[0] == 'comma':
            self.effect(e[1], env)
            self.effect(e[2], env)
            return
        if e[0] == 'assign':
            l = P.strip_wrappers(e[2])
            name = l[1] if l[0] == 'id' else ('*' + l[2][1]) if (l[0] == 'un' and l[1] == '*' and l[2][0] == 'id') else None
            if name is None:
                return
            v = self.val(e[3], env)
            if e[1] == '=':
                env[name] = v
            elif e[1] in ('+=', '-='):
                cur = env.get(name, ('opaque', name))
                if isinstance(cur, Lin) and isinstance(v, Lin):
                    env[name] = cur + v if e[1] == '+=' else cur - v
                else:
                    env[name] = ('opaque', P.c_text(e))
            else:
                env[name] = ('opaque', P.c_text(e))
            return
        if e[0] in ('un', 'post') and e[1] in ('++', '--') and e[2][0] == 'id':
            cur = env.get(e[2][1])
            env[e[2][1]] = cur + (1 if e[1] == '++' else -1) if isinstance(cur, Lin) else ('opaque', P.c_text(e))


def _path_nonpositive(env, diff):
    """does a start-vs-stop comparison taken on this path establish diff <= 0 ?"""
    for op, d, truth in env.get('#facts', ()):
        for dd, flip in ((d, False), (-d, True)):
            if dd == diff:
                o = {'<': '>', '>': '<', '<=': '>=', '>=': '<='}.get(op, op) if flip else op
                # the fact is  diff <o> 0  with the given truth
                if (o in ('<=', '<') and truth) or (o in ('>', '>=') and not truth and o == '>') or (o == '>=' and not truth) or (o == '==' and truth):
                    return True
    return False


def clamp_problems(fname, typed_params, body):
    """Check one slice helper against PySlice_AdjustIndices (step 1).  -> ({key: message}, cases)
    Interface: Py_ssize_t parameters whose names contain start / stop (or pointers to them, with an optional length pointer)."""
    def role(n):
        n = (n or '').lower()
        return 'start' if 'start' in n else 'stop' if 'stop' in n else 'length' if ('length' in n or n.lstrip('_') in ('len', 'size')) else None
    ptrs = {role(n): n for t, n in typed_params if t.replace(' ', '') == 'Py_ssize_t*' and role(n)}
    vals = {role(n): n for t, n in typed_params if t.replace(' ', '') == 'Py_ssize_t' and role(n)}
    container = next((n for t, n in typed_params if 'PyObject' in t and t.count('*') == 1), None)
    by_ptr = 'start' in ptrs and 'stop' in ptrs
    if not by_ptr and not ('start' in vals and 'stop' in vals):
        raise AnalysisError('C15-CLAMP: %s has no start/stop parameters' % fname)
    problems, cases = {}, 0
    ids = P.c_ids(body)

    def bad(key, msg):
        problems.setdefault(key, msg)

    for L in (None, 0, 1, 2, 3):
        Lf = Lin(0, {'L': 1}) if L is None else Lin(L)
        lbox = (4, INF) if L is None else (L, L)
        for ci, (sl, sform, sb) in enumerate(_classes(L, 's')):
            for cj, (tl, tform, tb) in enumerate(_classes(L, 't')):
                box = {'L': lbox}
                skip = False
                for sym, bnd in (('s', sb), ('t', tb)):
                    if bnd is None:
                        continue
                    lo, hi = bnd
                    if hi is not INF:
                        mx = Region({'L': lbox}).extreme(lin(hi) - lin(lo), True)
                        if mx is not INF and mx < 0:
                            skip = True
                    box[sym] = bnd
                if skip:
                    continue
                reg = Region(box)
                # the reference, recomputed from the value for constant lengths where classes coincide
                def ref(form):
                    if reg.decide('<', form) is True:
                        w = form + Lf
                        d = reg.decide('<', w)
                        return Lin(0) if d is True else (w if d is False else None)
                    if reg.decide('<', form) is False:
                        ge = reg.decide('>=', form - Lf)
                        return Lf if ge is True else (form if ge is False else None)
                    return None
                rs, rt = ref(sform), ref(tform)
                if rs is None or rt is None:
                    continue
                cases += 1
                case = 'start in %s, stop in %s, length %s' % (sl, tl, 'symbolic (>= 4)' if L is None else L)
                env = {}
                if by_ptr:
                    env['*' + ptrs['start']], env['*' + ptrs['stop']] = sform, tform
                    if 'length' in ptrs:
                        env['*' + ptrs['length']] = Lf
                else:
                    env[vals['start']], env[vals['stop']] = sform, tform
                    if 'length' in vals:
                        env[vals['length']] = Lf
                ev = ClampEval(fname, reg, env, container, {'s'}, {'t'}, Lf)
                for e2 in ev.run(body, [env]):
                    ev.outcomes.append(('end', e2, None))
                empty_ref = reg.decide('<=', rt - rs)          # True: the Python slice is certainly empty
                for kind, e2, rexpr in ev.outcomes:
                    if by_ptr:
                        s2, t2 = e2.get('*' + ptrs['start']), e2.get('*' + ptrs['stop'])
                        uses = True
                    else:
                        s2, t2 = e2.get(vals['start']), e2.get(vals['stop'])
                        rids = P.c_ids(rexpr) if rexpr is not None else set()
                        uses = bool(rids & {vals['start'], vals['stop']})
                    if kind == 'return' and not uses:
                        whole = rexpr is not None and container in P.c_ids(rexpr)
                        if whole:
                            if not (rs == Lin(0) and rt == Lf):
                                bad('identity', '%s returns the whole object for %s, where Python gives x[%r:%r]' % (fname, case, rs, rt))
                        elif empty_ref is False and not e2.get('#forked'):
                            bad('empty', '%s returns a constant (empty) result for %s although x[%r:%r] is not empty' % (fname, case, rs, rt))
                        continue
                    # the normalised bounds are used
                    if not (isinstance(s2, Lin) and isinstance(t2, Lin)):
                        raise AnalysisError('C15-CLAMP: %s: the bounds are not linear forms at the point of use (%s)' % (fname, case))
                    if empty_ref is True and not by_ptr and not e2.get('#forked'):
                        bad('no-empty-guard', '%s builds a result from start=%r, stop=%r for %s although the Python slice is empty (no `stop <= start` test on this path)' % (fname, s2, t2, case))
                        continue
                    ok_s = s2 == rs or (rs == Lf and reg.decide('>=', s2 - Lf) is True)
                    ok_t = t2 == rt or (rt == Lin(0) and reg.decide('<=', t2) is True)
                    if not ok_s:
                        bad('start:%s' % sl, '%s normalises start to %r for %s; PySlice_AdjustIndices gives %r' % (fname, s2, case, rs))
                    if not ok_t:
                        bad('stop:%s' % tl, '%s normalises stop to %r for %s; PySlice_AdjustIndices gives %r' % (fname, t2, case, rt))
                    if by_ptr and 'length' in ptrs:
                        l2 = e2.get('*' + ptrs['length'])
                        # an empty slice may be reported as length 0 instead of the (non-positive) difference: callers test `length <= 0`
                        if not (isinstance(l2, Lin) and (l2 == t2 - s2 or (l2 == Lin(0) and (reg.decide('<=', t2 - s2) is True or _path_nonpositive(e2, t2 - s2))))):
                            bad('length', '%s stores %r as the new length instead of stop - start (%s)' % (fname, l2, case))
    return problems, cases


PC_CLAMP_BAD = '''{
    Py_ssize_t length = PyList_GET_SIZE(src);
    if (start < 0) { start += length; }
    if (stop < 0) stop += length; else if (stop > length) stop = length;
    if (stop <= start) return PyList_New(0);
    return make(src, start, stop - start);
}'''
PC_CLAMP_OK = '''{
    Py_ssize_t length = PyList_GET_SIZE(src);
    if (start < 0) { start = (start + length < 0) ? 0 : (start + length); }
    if (stop < 0) stop += length; else if (stop >= length) stop = length;
    if (start >= stop) return PyList_New(0);
    return make(src, start, stop - start);
}'''


def clamp_functions(ctx, emitted):
    """catalogue functions reachable from the helpers SliceIndexNode emits that assign their start/stop bounds"""
    out, seen, todo = {}, set(), [(n, 0) for n in sorted(emitted)]
    while todo:
        n, depth = todo.pop()
        if n in seen or depth > 3:
            continue
        seen.add(n)
        for f in P.resolve_c(ctx.cat, n, ('func',)):
            if not f.body:
                continue
            try:
                body = f.expanded_body()
            except AnalysisError:
                continue            # a template the mini expander cannot instantiate without a context (SliceObject: decided by C15-SLICEOBJ)
            names = [(x or '').lower() for x in f.param_names()]
            if any('start' in x for x in names) and any('stop' in x for x in names):
                if re.search(r'(?<![\w>.])\*?\s*_?start\s*(\+=|=(?!=))', strip_c_comments(body)):
                    out[n] = f
            for c, _, _ in P.c_calls_in_text(body):
                todo.append((c, depth + 1))
    return out


def rule_clamp(ctx, emitted):
    r = Rule('C15-CLAMP', 'the C slice helpers behind x[a:b] on str / list / tuple normalise start and stop like PySlice_AdjustIndices (step 1): symbolic execution on linear forms '
             'for every pair of bound classes relative to the length (symbolic length and 0..3), including the emptiness test, the whole-object shortcut and the stored length', floor=2000)
    fns = clamp_functions(ctx, emitted)
    r.info('slice helpers that normalise bounds: %s' % ', '.join(sorted(fns)))
    if len(fns) < 2:
        raise AnalysisError('C15-CLAMP: expected the unicode and the list/tuple slice helper, found %s' % sorted(fns))
    for n, f in sorted(fns.items()):
        body = f.expanded_body()
        probs, total = {}, 0
        for cfg, text in P.pp_configs(body):
            p, cases = clamp_problems(n, f.typed_params(), P.parse_c_function_body(text))
            total += cases
            for k, v in p.items():
                probs.setdefault(k, v)
        for i in range(total):
            r.inst('%s#%d' % (n, i), nontrivial=i < 30)
        r.samples.append('%s: %d class pairs' % (n, total))
        for k, msg in sorted(probs.items()):
            r.violate('%s:%s' % (n, k), f.file, f.line, msg)
    # callers of a helper that normalises through pointers must build their result from the normalised start and the new length
    for n, f in sorted(fns.items()):
        roles = {}
        for i, (t, pn) in enumerate(f.typed_params()):
            if t.replace(' ', '') == 'Py_ssize_t*':
                low = (pn or '').lower()
                roles[i] = 'start' if 'start' in low else 'stop' if 'stop' in low else 'length' if ('len' in low or 'size' in low) else None
        if not roles:
            continue
        ncall = 0
        for cname, ds in sorted(ctx.cat.decls.items()):
            for d in ds:
                if d.kind != 'func' or not d.body or n + '(' not in d.body.replace(' ', '') or cname == n:
                    continue
                for cf in P.resolve_c(ctx.cat, cname, ('func',)):
                    try:
                        cbody = cf.expanded_body()
                    except AnalysisError:
                        continue
                    for cfg, text in P.pp_configs(cbody):
                        try:
                            tree = P.parse_c_function_body(text)
                        except AnalysisError:
                            continue
                        stmts = list(P.c_walk_stmts(tree))
                        for si, st in enumerate(stmts):
                            calls = [e for e in _walk_c(st) if e[0] == 'call' and _callee(e[1]) == n] if st[0] in ('expr', 'decl', 'return') else []
                            for call in calls:
                                outs = {}
                                for i, a in enumerate(call[2]):
                                    a = P.strip_wrappers(a)
                                    if roles.get(i) and a[0] == 'un' and a[1] == '&' and a[2][0] == 'id':
                                        outs[roles[i]] = a[2][1]
                                later = set()
                                for st2 in stmts[si + 1:]:
                                    if st2[0] in ('expr', 'return', 'decl', 'if'):
                                        later |= P.c_ids(st2[1] if st2[0] != 'decl' else ('x', [i for _, i, _ in st2[1] if i is not None]))
                                ncall += 1
                                key = '%s:uses:%s' % (cname, n)
                                r.inst(key, sample='%s reads %s after %s(...)' % (cname, sorted(v for v in outs.values() if v in later), n))
                                for role in ('start', 'length'):
                                    if role in outs and outs[role] not in later:
                                        r.violate('%s:%s-unused' % (key, role), cf.file, cf.line,
                                                  '%s calls %s(&%s, ...) but never reads the normalised %s afterwards: the result is built from %s' % (
                                                      cname, n, outs[role], role, 'the beginning of the sequence' if role == 'start' else 'another extent'))
                        break
        if not ncall:
            raise AnalysisError('C15-CLAMP: no caller of %s found' % n)
    typed = [('PyObject *', 'src'), ('Py_ssize_t', 'start'), ('Py_ssize_t', 'stop')]
    pb, _ = clamp_problems('pc', typed, P.parse_c_function_body(PC_CLAMP_BAD))
    pk, _ = clamp_problems('pc', typed, P.parse_c_function_body(PC_CLAMP_OK))
    r.positive_control(any(k.startswith('start:') for k in pb) and not pk, 'a helper that does not clamp start below -len is reported; the ternary / `>=` spelling is accepted')
    return r


# ---------------------------------------------------------------------------------------------- C15-SLICEOBJ
def _role(name):
    n = (name or '').lower()
    hits = [r for r in ('start', 'stop') if r in n]
    return hits[0] if len(hits) == 1 else None


def sliceobj_problems(fname, body):
    """role agreement inside the helper that builds a slice object from C / Python bounds: an assignment to a <start|stop> variable reads only
    variables of the same bound and stands only under tests of flags / pointers of the same bound; PySlice_New receives (start, stop, ...)."""
    problems, insts = {}, []

    def expr_roles(e):
        return {(_role(i), i) for i in P.c_ids(e) if _role(i)}

    def visit_expr(e, guards):
        if not isinstance(e, tuple):
            return
        if e[0] == 'assign':
            tgt = P.strip_wrappers(e[2])
            if tgt[0] == 'id' and _role(tgt[1]):
                want = _role(tgt[1])
                insts.append('%s <- %s' % (tgt[1], P.c_text(e[3])[:50]))
                rhs = e[3]
                while rhs[0] == 'assign':          # owned_x = py_x = value
                    rhs = rhs[3]
                for ro, ident in sorted(expr_roles(rhs)):
                    if ro != want:
                        problems.setdefault('%s<-%s' % (tgt[1], ident), '%s assigns %s from %s: the %s bound is built from the %s value' % (fname, tgt[1], ident, want, ro))
                for g in guards:
                    for ro, ident in sorted(expr_roles(g)):
                        if ro != want:
                            problems.setdefault('%s:under:%s' % (tgt[1], ident), '%s assigns %s under a test of %s: the presence of the %s bound decides how the %s bound is built'
                                                % (fname, tgt[1], ident, ro, want))
        if e[0] == 'call' and _callee(e[1]) == 'PySlice_New':
            roles = [next(iter({ro for ro, _ in expr_roles(a)}), None) if len({ro for ro, _ in expr_roles(a)}) == 1 else None for a in e[2]]
            insts.append('PySlice_New(%s)' % ', '.join(P.c_text(a) for a in e[2]))
            if len(roles) >= 2 and (roles[0], roles[1]) != ('start', 'stop'):
                problems.setdefault('PySlice_New:order', '%s calls PySlice_New(%s): the first argument must be the start and the second the stop object'
                                    % (fname, ', '.join(P.c_text(a) for a in e[2])))
        for x in e[1:]:
            if isinstance(x, tuple):
                visit_expr(x, guards)
            elif isinstance(x, list):
                for y in x:
                    visit_expr(y, guards)

    def visit(s, guards):
        k = s[0]
        if k == 'block':
            for x in s[1]:
                visit(x, guards)
        elif k == 'if':
            visit_expr(s[1], guards)
            visit(s[2], guards + [s[1]])
            if s[3] is not None:
                visit(s[3], guards + [s[1]])
        elif k == 'decl':
            for name, init, typ in s[1]:
                if init is not None:
                    visit_expr(('assign', '=', ('id', name), init), guards)
        elif k in ('expr', 'return') and s[1] is not None:
            visit_expr(s[1], guards)
    visit(body, [])
    return problems, insts


def rule_sliceobj(ctx):
    r = Rule('C15-SLICEOBJ', '__Pyx_PyObject_{Get,Set}Slice: every start/stop object is built from the C value, flag and pointer of the same bound, and PySlice_New receives '
             '(start, stop): role agreement by name over assignments and their guards (both template instantiations, all preprocessor configurations)', floor=18)
    sec = ctx.cat.files.get('ObjectHandling.c', {}).get('SliceObject')
    if not sec:
        raise AnalysisError('C15-SLICEOBJ: utility section ObjectHandling.c::SliceObject vanished')
    impl = sec.get('impl') or next(iter(sec.values()))
    n_py = 0
    for access in ('Get', 'Set'):
        text = strip_c_comments(P.tempita_expand(impl.raw, {'access': access}))
        m = re.search(r'\b(__Pyx_PyObject_\w*Slice)\s*\(', text)
        if not m:
            raise AnalysisError('C15-SLICEOBJ: no slice function in the %s instantiation' % access)
        brace = text.find('{', m.end())
        end = match_brace(text, brace)
        body_text = text[brace:end + 1]
        fname = m.group(1)
        probs, insts = {}, []
        for cfg, t in P.pp_configs(body_text):
            p, i = sliceobj_problems(fname, P.parse_c_function_body(t))
            probs.update({k: v for k, v in p.items() if k not in probs})
            insts = i if len(i) > len(insts) else insts
        for i in insts:
            r.inst('%s:%s' % (fname, i))
        n_py += sum(1 for i in insts if i.startswith('PySlice_New'))
        for k, msg in sorted(probs.items()):
            r.violate('%s:%s' % (fname, k), 'Cython/Utility/ObjectHandling.c', impl.line, msg)
    if n_py < 2:
        raise AnalysisError('C15-SLICEOBJ: PySlice_New call not found in both instantiations')
    pc, _ = sliceobj_problems('pc', P.parse_c_function_body('{ if (has_cstart) { py_stop = PyLong_FromSsize_t(cstop); } py_slice = PySlice_New(py_start, py_stop, Py_None); }'))
    r.positive_control(any('under' in k for k in pc), 'a stop object built under the start flag')
    return r


def match_brace(text, i):
    depth = 0
    for j in range(i, len(text)):
        if text[j] == '{':
            depth += 1
        elif text[j] == '}':
            depth -= 1
            if depth == 0:
                return j
    raise AnalysisError('unbalanced braces')


# ---------------------------------------------------------------------------------------------- C15-KIND
KIND_OF_TEST = {'is_pylist_type': 'List', 'is_pytuple_type': 'Tuple', 'is_pybytearray_type': 'ByteArray', 'is_pybytes_type': 'Bytes', 'is_pystr_type': 'Unicode',
                'is_pyanydict_type': 'Dict', 'is_pydict_type': 'Dict'}
KIND_WORDS = ('ByteArray', 'Bytes', 'List', 'Tuple', 'Unicode', 'Dict')


def _kinds_in_text(text):
    out = set()
    for ident in re.findall(r'[A-Za-z_]\w*', text):
        rest = ident
        for w in KIND_WORDS:          # 'ByteArray' is looked for before 'Bytes'
            if w in rest:
                out.add(w)
                rest = rest.replace(w, '')
    return out


def _receiver_text(recv, fn):
    """source text of the object whose type is tested, through one local alias (`bt = self.base.type`)"""
    if isinstance(recv, ast.Name) and fn is not None:
        for n in ast.walk(fn):
            if isinstance(n, ast.Assign) and any(isinstance(t, ast.Name) and t.id == recv.id for t in n.targets):
                return ast.unparse(n.value)
    return ast.unparse(recv)


def _excluded_kinds(tests, fn=None):
    """kinds ruled out by a failed simple test (`else` branch of `if base_type.is_pylist_type:`)"""
    out = set()
    for t, pol in _unnegated(tests):
        if not pol and isinstance(t, ast.Attribute) and t.attr in KIND_OF_TEST and 'index' not in _receiver_text(t.value, fn):
            out.add(KIND_OF_TEST[t.attr])
    return out


def _unnegated(tests):
    for t, pol in tests:
        while isinstance(t, ast.UnaryOp) and isinstance(t.op, ast.Not):
            t, pol = t.operand, not pol
        yield t, pol


def _guard_kinds(tests, fn=None):
    """kinds asserted positively by a list of (test, polarity)"""
    out = set()
    for t, pol in _unnegated(tests):
        if not pol:
            continue
        parts = [t]
        while parts:
            x = parts.pop()
            if isinstance(x, ast.BoolOp) and isinstance(x.op, ast.And):
                parts += x.values
            elif isinstance(x, ast.Attribute) and x.attr in KIND_OF_TEST and 'index' not in _receiver_text(x.value, fn):
                out.add(KIND_OF_TEST[x.attr])       # a test of the indexed object's type (not of the index type)
    return out


def kind_sites(fn):
    """(constant node, guard tests) for every string constant of fn that names a type-specific C helper, with the if/elif/conditional-expression tests it stands under"""
    out = []

    def rec_expr(e, tests, stmt_tests):
        if isinstance(e, ast.IfExp):
            rec_expr(e.body, tests + [(e.test, True)], stmt_tests)
            rec_expr(e.orelse, tests + [(e.test, False)], stmt_tests)
            return
        if isinstance(e, ast.Constant) and isinstance(e.value, str):
            out.append((e, stmt_tests + tests))
            return
        for c in ast.iter_child_nodes(e):
            if isinstance(c, ast.expr):
                rec_expr(c, tests, stmt_tests)

    def rec_stmts(stmts, tests):
        for s in stmts:
            if isinstance(s, ast.If):
                rec_expr(s.test, [], tests)
                rec_stmts(s.body, tests + [(s.test, True)])
                rec_stmts(s.orelse, tests + [(s.test, False)])
                continue
            if isinstance(s, (ast.FunctionDef, ast.AsyncFunctionDef, ast.ClassDef)):
                continue
            for field in ('body', 'orelse', 'finalbody'):
                blk = getattr(s, field, None)
                if isinstance(blk, list) and blk and isinstance(blk[0], ast.stmt):
                    rec_stmts(blk, tests)
            for c in ast.iter_child_nodes(s):
                if isinstance(c, ast.expr):
                    rec_expr(c, [], tests)
    rec_stmts(fn.body, [])
    return out


def _checks_type_itself(ctx, helper, kinds, depth=0):
    """True when the C helper (or what it forwards to) tests the run-time type of its argument, or is unknown to the catalogue"""
    decls = P.resolve_c(ctx.cat, helper)
    if not decls:
        return True
    for d in decls:
        try:
            body = d.expanded_body() or ''
        except AnalysisError:
            return True
        if any(re.search(r'\bPy(?:Any|Frozen)?%s_Check(?:Exact)?\s*\(' % k, body) for k in kinds):
            return True
        if depth < 2:
            for callee, _, _ in P.c_calls_in_text(body):
                if callee != helper and callee.startswith('__Pyx_') and P.resolve_c(ctx.cat, callee, ('func', 'macro')) and _checks_type_itself(ctx, callee, kinds, depth + 1) \
                        and P.resolve_c(ctx.cat, callee, ('func', 'macro'))[0].body:
                    return True
    return False


def rule_kind(ctx, classes=('IndexNode', 'SliceIndexNode')):
    r = Rule('C15-KIND', 'IndexNode / SliceIndexNode: a C helper or access macro that is specific to one builtin type (List, Tuple, Bytes, ByteArray, Unicode, Dict in its name) is '
             'selected only under a test for that type', floor=14)
    tree = ctx.parse(EXN)
    found = 0
    for cname in classes:
        cls = next((n for n in tree.body if isinstance(n, ast.ClassDef) and n.name == cname), None)
        if cls is None:
            raise AnalysisError('C15-KIND: ExprNodes.%s vanished' % cname)
        for fn in [m for m in cls.body if isinstance(m, ast.FunctionDef)]:
            for const, tests in kind_sites(fn):
                if not re.search(r'\b(__Pyx_|Py)\w+', const.value) or ' ' in const.value.strip() and '(' not in const.value:
                    continue
                kinds = _kinds_in_text(' '.join(re.findall(r'\b(?:__Pyx_|Py)\w+', const.value)))
                guards = _guard_kinds(tests, fn)
                excluded = _excluded_kinds(tests, fn) - guards
                if not kinds or not (guards or excluded):
                    continue
                found += 1
                key = '%s.%s:%s' % (cname, fn.name, re.findall(r'\b(?:__Pyx_|Py)\w+', const.value)[0])
                r.inst(key, sample='%s under %s%s' % (const.value[:50], sorted(guards), (' not ' + str(sorted(excluded))) if excluded else ''))
                if not guards and kinds <= excluded:
                    helper = re.findall(r'\b(?:__Pyx_|Py)\w+', const.value)[0]
                    if _checks_type_itself(ctx, helper, kinds):
                        continue        # a generic helper with a fast path behind its own run-time type test
                    r.violate(key, EXN, const.lineno, '%s.%s selects %r, a helper for %s objects, on the branch where the object is known NOT to be of that type'
                              % (cname, fn.name, const.value[:60], '/'.join(sorted(kinds))))
                    continue
                if guards and not (kinds & guards):
                    r.violate(key, EXN, const.lineno, '%s.%s selects %r, a helper for %s objects, on the branch taken for %s objects: the macro reads the object with the wrong memory layout'
                              % (cname, fn.name, const.value[:60], '/'.join(sorted(kinds)), '/'.join(sorted(guards))))
    if found < 8:
        raise AnalysisError('C15-KIND: only %d type-specific helper selections found' % found)
    pc = ast.parse("def f(self):\n    if base_type.is_pylist_type:\n        function = '__Pyx_GetItemInt_Tuple'\n    x = ('__Pyx_PyList_GET_ITEM(%s, %s)' if base_type.is_pylist_type else '__Pyx_PyTuple_GET_ITEM(%s, %s)')\n").body[0]
    hits = [(c.value, _guard_kinds(t)) for c, t in kind_sites(pc)]
    r.positive_control(any(v == '__Pyx_GetItemInt_Tuple' and g == {'List'} for v, g in hits) and any('PyList_GET_ITEM' in v and g == {'List'} for v, g in hits),
                       'a Tuple helper under the list test is seen with its guard; a conditional expression is followed')
    return r


# ---------------------------------------------------------------------------------------------- C15-DEFAULT
def _self_attr(t, name):
    return isinstance(t, ast.Attribute) and t.attr == name and isinstance(t.value, ast.Name) and t.value.id == 'self'


ABSENT_DEFAULT = {'start': ('0',), 'stop': ('PY_SSIZE_T_MAX',)}


def rule_default(ctx):
    r = Rule('C15-DEFAULT', 'SliceIndexNode: the C value standing for an absent (or run-time None) slice bound is 0 for the start and PY_SSIZE_T_MAX for the stop - '
             'the defaults of start_code()/stop_code() and of every allow_none() coercion, keyed by the bound they are computed for', floor=4)
    tree = ctx.parse(EXN)
    cls = next((n for n in tree.body if isinstance(n, ast.ClassDef) and n.name == 'SliceIndexNode'), None)
    if cls is None:
        raise AnalysisError('C15-DEFAULT: ExprNodes.SliceIndexNode vanished')
    n = 0
    for fn in [m for m in cls.body if isinstance(m, ast.FunctionDef)]:
        m = re.fullmatch(r'(start|stop)_code', fn.name)
        if m:
            bound = m.group(1)
            rets = [x for x in ast.walk(fn) if isinstance(x, ast.Return) and isinstance(x.value, ast.Constant) and isinstance(x.value.value, str)]
            for x in rets:
                conds = P.path_conditions(fn, x) or []
                absent = any((_self_attr(t, bound) and not pol) or
                             (isinstance(t, ast.UnaryOp) and isinstance(t.op, ast.Not) and _self_attr(t.operand, bound) and pol) for t, pol in conds)
                if not absent:
                    continue
                n += 1
                key = 'SliceIndexNode.%s:absent' % fn.name
                r.inst(key, sample='%s() -> %r when self.%s is absent' % (fn.name, x.value.value, bound))
                if x.value.value.strip() not in ABSENT_DEFAULT[bound]:
                    r.violate(key, EXN, x.lineno, 'SliceIndexNode.%s() returns %r for an absent %s bound; Python semantics need %s (x[a:] runs to the end, x[:b] starts at 0)'
                              % (fn.name, x.value.value, bound, ' / '.join(ABSENT_DEFAULT[bound])))
        for c in ast.walk(fn):
            if isinstance(c, ast.Call) and isinstance(c.func, ast.Name) and c.func.id == 'allow_none' and len(c.args) >= 2:
                bounds = {a.attr for a in ast.walk(c.args[0]) if isinstance(a, ast.Attribute) and a.attr in ('start', 'stop') and isinstance(a.value, ast.Name) and a.value.id == 'self'}
                if len(bounds) != 1 or not (isinstance(c.args[1], ast.Constant) and isinstance(c.args[1].value, str)):
                    raise AnalysisError('C15-DEFAULT: allow_none(%s) in SliceIndexNode.%s is outside the model' % (ast.unparse(c.args[0])[:30], fn.name))
                bound = next(iter(bounds))
                n += 1
                key = 'SliceIndexNode.%s:allow_none:%s' % (fn.name, bound)
                r.inst(key, sample='allow_none(self.%s, %r)' % (bound, c.args[1].value))
                if c.args[1].value.strip() not in ABSENT_DEFAULT[bound]:
                    r.violate(key, EXN, c.lineno, 'SliceIndexNode.%s: a %s bound that is None at run time is replaced by %r; Python semantics need %s'
                              % (fn.name, bound, c.args[1].value, ' / '.join(ABSENT_DEFAULT[bound])))
    if n < 4:
        raise AnalysisError('C15-DEFAULT: only %d default bounds found in SliceIndexNode' % n)
    r.positive_control('-1' not in ABSENT_DEFAULT['stop'] and '0' not in ABSENT_DEFAULT['stop'], 'a stop default of -1 / 0 is not the end of the sequence')
    return r


# ---------------------------------------------------------------------------------------------- C15-RANGE
def rule_range(ctx, F):
    r = Rule('C15-RANGE', 'every integer-index macro guards its fast path with __Pyx_fits_Py_ssize_t(<index>, <type>, <is_signed>) in that order, and an index outside the '
             'Py_ssize_t range goes to the generic object protocol or raises IndexError (as CPython does), never another exception', floor=8)
    helper_excs = {}

    def excs_of(text, depth=0):
        out = set(re.findall(r'\bPyExc_(\w+)', text))
        if depth < 2:
            for callee, args, _ in P.c_calls_in_text(text):
                if callee in helper_excs:
                    out |= helper_excs[callee]
                    continue
                for f in P.resolve_c(ctx.cat, callee, ('func',)):
                    if f.body and callee.startswith('__Pyx_') and 'Error' in callee:
                        helper_excs[callee] = excs_of(f.expanded_body() or '', depth + 1)
                        out |= helper_excs[callee]
        return out

    for h, f in sorted(F.macros.items()):
        body = ' '.join((f.expanded_body() or '').replace('\\\n', ' ').split())
        params = f.param_names()
        try:
            e = P.CParser(body + ';').expr()
        except AnalysisError as x:
            raise AnalysisError('C15-RANGE: cannot parse the macro %s: %s' % (h, x))
        e = P.strip_wrappers(e)
        if e[0] != 'tern':
            raise AnalysisError('C15-RANGE: the macro %s is not `fits ? fast : fallback`' % h)
        c = P.strip_wrappers(e[1])
        key = 'macro:%s' % h
        r.inst(key, sample='%s: %s ? ... : %s' % (h, P.c_text(c)[:50], P.c_text(e[3])[:50]))
        if not (c[0] == 'call' and _callee(c[1]) == '__Pyx_fits_Py_ssize_t' and len(c[2]) == 3):
            r.violate(key + ':guard', f.file, f.line, 'the fast path of %s is not guarded by __Pyx_fits_Py_ssize_t(i, type, is_signed): an index that does not fit Py_ssize_t is truncated by the cast' % h)
            continue
        want = [params[1], 'type', 'is_signed']
        got = [P.bare_c_ident(P.c_text(a)) for a in c[2]]
        if got != want and set(got) == set(want):
            r.violate(key + ':guard-args', f.file, f.line, '%s calls __Pyx_fits_Py_ssize_t(%s); the parameters are (value, type, is_signed)' % (h, ', '.join(map(str, got))))
        alt = P.c_text(e[3])
        ex = excs_of(alt)
        generic = bool(re.search(r'_Generic\s*\(', alt)) and 'to_py_func' in alt
        if not generic and not ex:
            raise AnalysisError('C15-RANGE: the fallback of %s neither calls the generic helper nor raises' % h)
        wrong = sorted(x for x in ex if x != 'IndexError')
        if wrong:
            r.violate(key + ':exception', f.file, f.line, 'for an index outside the Py_ssize_t range %s raises %s; CPython raises IndexError (cannot fit \'int\' into an index-sized integer)'
                      % (h, ', '.join(wrong)))
    r.positive_control(True, 'structural')
    return r


# ---------------------------------------------------------------------------------------------- C15-BOUND extension: constant sequences with a multiplier
def folded_multiplier_problem(folder, cls, fdef, rel):
    """fold visit_SliceIndexNode on a constant sequence constructor carrying a multiplier: the item list must not be cut"""
    clo = Closure(folder, fdef, Env({}, None, rel))
    out = []
    for has_mult in (False, True):
        visitor = MNode('ConstantFolding instance', cls, reevaluate=False, __rel__=rel)
        items = [MNode('item%d' % i) for i in range(4)]
        mult = MNode('multiplier', constant_result=3) if has_mult else None
        base = MNode('base', is_sequence_constructor=True, is_string_literal=False, mult_factor=mult, constant_result=[0, 1, 2, 3] * (3 if has_mult else 1),
                     args=list(items), pos=('model', 1, 1))
        base.attrs['has_constant_result'] = lambda: True
        node = MNode('SliceIndexNode', start=_bound_model('one', 1), stop=_bound_model('positive', 3), base=base, constant_result=[1, 2], pos=('model', 1, 1), slice=None)
        node.attrs['has_constant_result'] = lambda: True
        folder.steps = 0
        try:
            res = clo(visitor, node)
        except Unfoldable as x:
            raise AnalysisError('C15-BOUND cannot fold %s on a constant sequence: %s' % (fdef.name, x))
        cut = res is base and len(base.attrs.get('args', items)) != len(items)
        out.append((has_mult, res is base, cut))
    return out


# ---------------------------------------------------------------------------------------------- C15-BYTE
PYREX = 'Cython/Compiler/PyrexTypes.py'


def rule_byte(ctx):
    r = Rule('C15-BYTE', 'bytearray item assignment b[i] = v: the range test IndexNode._check_byte_value emits in front of the store rejects exactly the values outside 0..255 '
             'that the C type of v can hold (folded on model nodes for signed / unsigned / char-sized value types, the emitted condition evaluated on the boundary values)', floor=30)
    tree = ctx.parse(EXN)
    cls = next((n for n in tree.body if isinstance(n, ast.ClassDef) and n.name == 'IndexNode'), None)
    fdef = next((n for n in (cls.body if cls else []) if isinstance(n, ast.FunctionDef) and n.name == '_check_byte_value'), None)
    if fdef is None:
        raise AnalysisError('C15-BYTE: IndexNode._check_byte_value vanished')
    if [a.arg for a in fdef.args.args] != ['self', 'code', 'rhs']:
        raise AnalysisError('C15-BYTE: _check_byte_value no longer takes (self, code, rhs)')
    f = NodeFolder(ctx)
    f._globals[(EXN, 'not_a_constant')] = NOT_CONST
    f._globals[(EXN, 'constant_value_not_set')] = NOT_SET
    uchar, char, schar = MNode('c_uchar_type', is_int=True, signed=0), MNode('c_char_type', is_int=True, signed=1), MNode('c_schar_type', is_int=True, signed=2)
    for nm, v in (('c_uchar_type', uchar), ('c_char_type', char), ('c_schar_type', schar)):
        f._globals[(PYREX, nm)] = v
    cases = [('int', MNode('c_int_type', is_int=True, signed=1), False, (-2 ** 31, -1, 0, 1, 255, 256, 2 ** 31 - 1)),
             ('unsigned int', MNode('c_uint_type', is_int=True, signed=0), False, (0, 1, 255, 256, 2 ** 32 - 1)),
             ('int (temporary)', MNode('c_int_type', is_int=True, signed=1), True, (-1, 0, 255, 256)),
             ('unsigned char (temporary)', uchar, True, (0, 255)),
             ('unsigned char (variable)', uchar, False, (0, 255)),
             ('char (temporary)', char, True, (-128, -1, 0, 127)),
             ('signed char (temporary)', schar, True, (-128, -1, 0, 127))]
    clo_env = Env({}, None, EXN)
    reported = set()
    for label, typ, in_temp, values in cases:
        lines = []
        code = MNode('code', putln=lambda *a, **k: lines.append(str(a[0]) if a else ''), error_goto=lambda pos: 'goto error;',
                     put_ensure_gil=lambda *a, **k: None, put_release_ensured_gil=lambda *a, **k: None)
        rhs = MNode('value node', type=typ, is_literal=False, constant_result=NOT_CONST, pos=('model', 1, 1))
        rhs.attrs['result'] = lambda: 'V'
        rhs.attrs['has_constant_result'] = lambda: False
        rhs.attrs['result_in_temp'] = (lambda t: (lambda: t))(in_temp)
        selfm = MNode('IndexNode instance', cls, nogil=False, pos=('model', 1, 1), __rel__=EXN)
        f.steps = 0
        try:
            out = Closure(f, fdef, clo_env)(selfm, code, rhs)
        except Unfoldable as x:
            raise AnalysisError('C15-BYTE cannot fold _check_byte_value for a value of type %s: %s' % (label, x))
        if not isinstance(out, str) or 'V' not in out:
            raise AnalysisError('C15-BYTE: _check_byte_value returns %r for a value of type %s' % (out, label))
        text = ' '.join(lines)
        m = re.search(r'\bif\s*\(', text)
        cond = None
        if m:
            end = match_paren_(text, m.end() - 1)
            cond = text[m.end():end]
            if 'PyExc_ValueError' not in text[end:]:
                r.inst('%s:raises' % label)
                r.violate('IndexNode._check_byte_value:%s:exception' % label, EXN, fdef.lineno,
                          'for a value of type %s the range test `%s` is not followed by a ValueError' % (label, cond))
                continue
        # the emitted test only compares V with literals: the values next to every literal, the byte limits and the limits of the type are a complete set of classes
        lits = [int(x) for x in re.findall(r'(?<![\w.])\d+', cond or '')]
        lo_t, hi_t = min(values), max(values)
        values = sorted({v for v in list(values) + [c + d for c in lits for d in (-1, 0, 1)] if lo_t <= v <= hi_t})
        for v in values:
            key = '%s:%d' % (label, v)
            r.inst(key, sample='%s value %d: %s' % (label, v, cond or 'no test'))
            try:
                got = bool(cexpr.evaluate(cexpr.parse(cond), {'V': v})) if cond else False
            except (cexpr.EvalError, cexpr.ParseError) as x:
                raise AnalysisError('C15-BYTE: cannot evaluate the emitted test `%s`: %s' % (cond, x))
            want = not (0 <= v <= 255)
            if got != want:
                cls_ = 'accepts-out-of-range' if want else 'rejects-byte'
                if cls_ in reported:
                    continue
                reported.add(cls_)
                r.violate('IndexNode._check_byte_value:%s' % cls_, EXN, fdef.lineno,
                          'b[i] = v with v of C type %s: for v = %d the emitted test `%s` is %s; CPython %s' % (
                              label, v, cond or '(none)', got, 'raises ValueError (byte must be in range(0, 256)), Cython stores %d' % (v & 255) if want else 'stores the byte'))
    r.positive_control(bool(cexpr.evaluate(cexpr.parse('unlikely(V < 0 || V > 256)'), {'V': 256})) is False, 'a test against 256 lets 256 through')
    return r


def match_paren_(text, i):
    depth = 0
    for j in range(i, len(text)):
        if text[j] == '(':
            depth += 1
        elif text[j] == ')':
            depth -= 1
            if depth == 0:
                return j
    raise AnalysisError('unbalanced parentheses in emitted text')
