"""C15 (strengthening).

C15-ONCE  In the C fast paths of integer indexing a negative index has the container length added AT MOST once before it
          reaches a consumer that implements Python's wrap-around itself (PySequence_{Get,Set,Del}Item, the generic
          PyObject_*Item fallback reached through PyLong_FromSsize_t, helpers that forward to those, sibling fast paths
          called with wraparound=1).  C15-GUARD already decides "at least once before a non-wrapping accessor"; this is the
          dual: an index that had the length added and is not known to be non-negative (bounds test passed, or an explicit
          `x < 0` rejection) must not be handed to a wrapping consumer - for -2*len <= i < -len the consumer would wrap a
          second time and silently address element i + 2*len instead of raising IndexError.
          Same path enumeration and index-status domain (raw / length-added / bounds-tested) as C15-GUARD, for every
          preprocessor configuration and flag value.

C15-BOUND ConstantFolding.visit_SliceIndexNode normalises the bounds of `x[a:b]` before type analysis.  Its decision
          "this bound is absent" is tabulated over the complete partition of what a bound can be (no node, constant None,
          zero / positive / negative integer constant, False/True, falsy and truthy non-integer constants, not a constant,
          constant not yet computed) by folding the method on model nodes, and compared with the reference: a bound
          may be dropped only where that cannot change `x[a:b]` for a builtin sequence (None; for the start also 0).
"""
import ast, re

from ..core import Rule, AnalysisError, node_src
from ..engine import tables
from . import pC15 as P
from .pC10 import Folder, Unfoldable, Closure, Env, SAFE_BUILTINS, SAFE_EXC

# ============================================================================================== C15-ONCE
ADJUSTED = (('ix', 'adj_neg'), ('ix', 'adj_unk'))


def derived_wrapping_consumers(cat, names):
    """Plain C helpers (no flag parameters) that hand one of their parameters, unchanged, to a wrapping consumer:
    {function name: parameter position}.  E.g. __Pyx_SetItemInt_Fast_mapping(o, setitem, i, v) -> PyLong_FromSsize_t(i)."""
    out = {}
    for name in sorted(names):
        for f in P.resolve_c(cat, name, ('func',)):
            body = f.expanded_body() if f.body else None
            if not body:
                continue
            pn = f.param_names()
            if 'wraparound' in pn:
                continue
            for callee, args, _ in P.c_calls_in_text(body):
                if callee in P.WRAPPING_CONSUMERS and P.WRAPPING_CONSUMERS[callee] < len(args):
                    b = P.bare_c_ident(args[P.WRAPPING_CONSUMERS[callee]])
                    if b in pn and not re.search(r'\b%s\s*(\+=|-=|=[^=])' % re.escape(b), body):
                        out[name] = pn.index(b)
    return out


class OnceFlow(P.IndexFlow):
    """IndexFlow + the dual obligation: a length-added index reaches a wrapping consumer only when known non-negative."""

    def __init__(self, *a, derived=None, **k):
        super().__init__(*a, **k)
        self.derived = derived or {}

    # `x < 0` / `x >= 0` on a length-added index: remember the non-negative branch
    def truth(self, e, st):
        e1 = P.strip_wrappers(e)
        name = neg_when_true = None
        if e1[0] == 'bin' and e1[1] in ('<', '>=', '<=', '>'):
            l, r = P.strip_wrappers(e1[2]), P.strip_wrappers(e1[3])
            if r == ('num', 0) and l[0] == 'id' and st.env.get(l[1]) in ADJUSTED and e1[1] in ('<', '>='):
                name, neg_when_true = l[1], e1[1] == '<'
            elif l == ('num', 0) and r[0] == 'id' and st.env.get(r[1]) in ADJUSTED and e1[1] in ('>', '<='):
                name, neg_when_true = r[1], e1[1] == '>'
        res = super().truth(e, st)
        if name is not None:
            for t, s in res:
                if t != neg_when_true:
                    s.atoms['nonneg:' + name] = True
        return res

    def _safe(self, argexpr, st):
        a = P.strip_wrappers(argexpr)
        n = a[1] if a[0] == 'id' else P.c_text(a)
        return n, (n in st.valid or st.atoms.get('nonneg:' + n) is True)

    def _value(self, argexpr, st):
        a = P.strip_wrappers(argexpr)
        if a[0] == 'id':
            return st.env.get(a[1], ('u',))
        vals = {v for v, _ in self.ev(a, st.copy())}
        return next((v for v in vals if v in ADJUSTED), ('u',))

    def _check(self, consumer, argexpr, st):
        v = self._value(argexpr, st)
        self.events.add(('consumer', consumer))
        if v not in ADJUSTED:
            return
        n, safe = self._safe(argexpr, st)
        if safe:
            return
        what = 'the generic object-protocol fallback it feeds' if consumer == 'PyLong_FromSsize_t' else consumer
        self.problem('rewrap:%s' % consumer,
                     '%s hands index %r to %s after the container length was added to it and without knowing that the sum is non-negative '
                     '(no successful bounds test, no `%s < 0` rejection on this path); %s implements wrap-around itself, so for -2*len <= i < -len the length is '
                     'added twice: element i + 2*len is read/written/deleted instead of raising IndexError' % (self.fname, n, consumer, n, what))

    def ev_call(self, e, st):
        name = self.callee_name(e[1])
        args = e[2]
        if name in P.WRAPPING_CONSUMERS and P.WRAPPING_CONSUMERS[name] < len(args):
            self._check(name, args[P.WRAPPING_CONSUMERS[name]], st)
        elif name in self.derived and self.derived[name] < len(args) and name not in self.family:
            self._check(name, args[self.derived[name]], st)
        elif name in self.family and len(self.family[name]) == len(args):
            cp = self.family[name]
            ixpos = next((i for i, (t, n) in enumerate(cp) if t.strip() == 'Py_ssize_t'), None)
            wpos = next((i for i, (t, n) in enumerate(cp) if n == self.wflag), None)
            if ixpos is not None and wpos is not None:
                wv = {v for v, _ in self.ev(args[wpos], st.copy())}
                if ('c', 0) not in wv or len(wv) > 1:
                    self._check(name, args[ixpos], st)
        return super().ev_call(e, st)


PC_ONCE = '''{
    if (wraparound & unlikely(i < 0)) i += PyList_GET_SIZE(o);
    if ((!boundscheck) || likely(__Pyx_is_valid_index(i, PyList_GET_SIZE(o)))) {
        PyObject *old = PyList_GET_ITEM(o, i);
        PyList_SET_ITEM(o, i, v);
        Py_DECREF(old);
        return 0;
    }
    return __Pyx_SetItemInt_Generic(o, PyLong_FromSsize_t(i), v);
}'''
PC_ONCE_OK = '''{
    Py_ssize_t n = i;
    if (wraparound & unlikely(i < 0)) n += PyList_GET_SIZE(o);
    if (unlikely(n < 0)) { return -1; }
    return PySequence_SetItem(o, n, v);
}'''


def _run_once(name, typed, body_text, fam_params, adjusting, derived):
    problems, events, paths = {}, set(), 0
    for cfg, text in P.pp_configs(body_text):
        tree = P.parse_c_function_body(text)
        for Wv in (0, 1):
            for Bv in (0, 1):
                fl = OnceFlow(name, typed, tree, fam_params, adjusting, derived=derived)
                fl.run(Wv, Bv, cfg)
                for k, v in fl.problems.items():
                    if k.startswith('rewrap:'):
                        problems.setdefault(k, v)
                events |= fl.events
                paths += fl.paths
    return problems, events, paths


def rule_once(ctx, F):
    """F: the Family object of sa/props/C15.py (flag-taking fast-path functions reachable from the emitted macros)."""
    r = Rule('C15-ONCE', 'C fast paths: an index that had the container length added reaches a wrapping consumer (PySequence_*Item, the generic PyLong_FromSsize_t '
             'fallback, forwarding helpers, sibling fast paths with wraparound on) only when it is known to be non-negative - the length is never added twice '
             '(all preprocessor configurations, all flag values)', floor=18)
    fam_params = {n: f.typed_params() for n, f in F.funcs.items()}
    called = set()
    for f in F.funcs.values():
        called |= {c for c, _, _ in P.c_calls_in_text(f.expanded_body() or '')}
    derived = derived_wrapping_consumers(ctx.cat, called - set(F.funcs))
    r.info('helpers that forward a parameter to a wrapping consumer: %s' % ', '.join('%s[%d]' % kv for kv in sorted(derived.items())))
    for n, f in sorted(F.funcs.items()):
        body = f.expanded_body()
        if body is None:
            raise AnalysisError('%s has no body' % n)
        problems, events, paths = _run_once(n, f.typed_params(), body, fam_params, F.adjusting, derived)
        cons = sorted(acc for kind, acc in events if kind == 'consumer')
        for acc in cons:
            r.inst('%s->%s' % (n, acc), sample='%s hands an index to %s (%d paths)' % (n, acc, paths))
        if not cons:
            r.inst('func:' + n, nontrivial=False)
        for k, msg in sorted(problems.items()):
            r.violate('%s:%s' % (n, k), f.file, f.line, msg)
    typed = [('PyObject *', 'o'), ('Py_ssize_t', 'i'), ('PyObject *', 'v'), ('int', 'wraparound'), ('int', 'boundscheck')]
    bad, _, _ = _run_once('positive_control', typed, PC_ONCE, {}, {}, {})
    good, _, _ = _run_once('negative_control', typed, PC_ONCE_OK, {}, {}, {})
    r.positive_control('rewrap:PyLong_FromSsize_t' in bad and not good,
                       'in-place wrap-around followed by the generic fallback is reported; a separate wrapped copy with an explicit `n < 0` rejection is not')
    return r


# ============================================================================================== C15-BOUND
OPT = 'Cython/Compiler/Optimize.py'
EXN = 'Cython/Compiler/ExprNodes.py'


class _Sentinel:
    def __init__(self, name):
        self.name = name

    def __repr__(self):
        return '<%s>' % self.name


NOT_CONST = _Sentinel('not_a_constant')
NOT_SET = _Sentinel('constant_value_not_set')


class MNode:
    """Model of a tree node / visitor instance: a bag of attributes; methods are looked up in `cls` (an ast.ClassDef)."""

    def __init__(self, kind, cls=None, **attrs):
        self.kind, self.cls, self.attrs = kind, cls, attrs

    def __repr__(self):
        return '<model %s>' % self.kind


class NodeFolder(Folder):
    """pC10.Folder + attribute reads/stores on MNode models (everything else is unchanged: nothing of /repo is executed)."""

    def attribute(self, v, attr, node=None):
        if isinstance(v, MNode):
            if attr in v.attrs:
                return v.attrs[attr]
            if v.cls is not None:
                for n in v.cls.body:
                    if isinstance(n, ast.FunctionDef) and n.name == attr:
                        clo = Closure(self, n, Env({}, None, v.attrs['__rel__']))
                        return lambda *a, **k: clo(v, *a, **k)
            raise Unfoldable('the model of %s has no attribute %r (%s)' % (v.kind, attr, node_src(node, 60) if node is not None else ''))
        return super().attribute(v, attr, node)

    def name(self, ident, env):
        # as Folder.name, with the negative module lookups (builtins) cached
        ok, v = env.lookup(ident)
        if ok:
            return v
        neg = self.__dict__.setdefault('_undefined', set())
        if (env.rel, ident) not in neg:
            try:
                return self.module_attr(env.rel, ident)
            except Unfoldable as e:
                if 'does not define' not in str(e):
                    raise
                neg.add((env.rel, ident))
        if ident in SAFE_BUILTINS:
            return SAFE_BUILTINS[ident]
        if ident in SAFE_EXC:
            return SAFE_EXC[ident]
        raise Unfoldable('unbound name %r in %s' % (ident, env.rel))

    def assign(self, target, value, env):
        if isinstance(target, ast.Attribute):
            obj = self.expr(target.value, env)
            if isinstance(obj, MNode):
                obj.attrs[target.attr] = value
                return
        super().assign(target, value, env)

    def expr(self, n, env):
        if type(n) is ast.Call:
            self.steps += 1
            f = self.expr(n.func, env)
            args, kwargs = [], {}
            for a in n.args:
                if isinstance(a, ast.Starred):
                    args.extend(self.expr(a.value, env))
                else:
                    args.append(self.expr(a, env))
            for k in n.keywords:
                if k.arg is None:
                    kwargs.update(self.expr(k.value, env))
                else:
                    kwargs[k.arg] = self.expr(k.value, env)
            if f is isinstance and len(args) == 2 and isinstance(args[0], MNode):
                classes = args[1] if isinstance(args[1], tuple) else (args[1],)
                return any(c in args[0].attrs.get('__isa__', ()) for c in classes)
            return self.call_value(f, args, kwargs, n)
        return super().expr(n, env)


# the complete partition of what the bound of a 2-bound slice can be when ConstantFolding sees it
#   class name -> (constant_result or 'absent', human description)
BOUND_CLASSES = [
    ('absent', 'absent', 'no bound written (`x[:b]`)'),
    ('none', None, 'the constant None'),
    ('zero', 0, 'the integer constant 0'),
    ('false', False, 'the constant False (== 0)'),
    ('one', 1, 'the integer constant 1'),
    ('positive', 3, 'a positive integer constant'),
    ('true', True, 'the constant True (== 1)'),
    ('minus-one', -1, 'the integer constant -1'),
    ('negative', -2, 'a negative integer constant'),
    ('falsy-float', 0.0, 'the float constant 0.0 (TypeError in CPython)'),
    ('float', 1.5, 'a float constant (TypeError in CPython)'),
    ('falsy-str', '', "the constant '' (TypeError in CPython)"),
    ('str', 'a', 'a string constant (TypeError in CPython)'),
    ('not-constant', NOT_CONST, 'not a compile-time constant (a variable, a call)'),
    ('not-set', NOT_SET, 'a node whose constant value was not computed'),
]
# where dropping the bound cannot change x[a:b] on list/tuple/str/bytes/bytearray
MAY_DROP = {'start': {'absent', 'none', 'zero', 'false'}, 'stop': {'absent', 'none'}}
CONSEQUENCE = {
    'start': 'x[a:b] is compiled as x[:b]',
    'stop': 'x[a:b] is compiled as x[a:] (e.g. x[:0] returns the whole sequence, `x[:0] = v` replaces it, `del x[:0]` empties it)',
}


def _bound_model(cname, value):
    if value == 'absent' and cname == 'absent':
        return None
    m = MNode('bound:' + cname, constant_result=value, is_none=value is None, is_literal=not isinstance(value, _Sentinel),
              is_name=False, pos=('model', 1, 1))
    m.attrs['has_constant_result'] = lambda: not isinstance(m.attrs['constant_result'], _Sentinel)
    return m


def slice_bound_table(folder, cls, fdef, rel):
    """{(bound, class): True if some evaluation dropped the bound}; the method is folded on model nodes."""
    clo = Closure(folder, fdef, Env({}, None, rel))
    params = [a.arg for a in fdef.args.args]
    if len(params) != 2:
        raise AnalysisError('%s no longer takes (self, node)' % fdef.name)
    dropped = {}
    n = 0
    for sc, sv, _ in BOUND_CLASSES:
        for tc, tv, _ in BOUND_CLASSES:
            visitor = MNode('ConstantFolding instance', cls, reevaluate=False, __rel__=rel)
            base = MNode('base', is_sequence_constructor=False, is_string_literal=False, mult_factor=None, constant_result=NOT_CONST,
                         pos=('model', 1, 1))
            base.attrs['has_constant_result'] = lambda: False
            node = MNode('SliceIndexNode', start=_bound_model(sc, sv), stop=_bound_model(tc, tv), base=base, constant_result=NOT_CONST,
                         pos=('model', 1, 1), slice=None)
            node.attrs['has_constant_result'] = lambda: False
            folder.steps = 0
            try:
                res = clo(visitor, node)
            except Unfoldable as x:
                raise AnalysisError('C15-BOUND cannot fold %s on model nodes (start: %s, stop: %s): %s' % (fdef.name, sc, tc, x))
            if res is not node:
                raise AnalysisError('C15-BOUND: %s returns %r instead of the slice node for a non-constant slice' % (fdef.name, res))
            n += 1
            for bound, c in (('start', sc), ('stop', tc)):
                now = node.attrs.get(bound)
                if now is None:
                    dropped[(bound, c)] = True
                elif isinstance(now, MNode):
                    dropped.setdefault((bound, c), False)
                else:
                    raise AnalysisError('C15-BOUND: %s stores %r into node.%s' % (fdef.name, now, bound))
    return dropped, n


_PC_BOUND = '''
class ConstantFolding:
    def visit_SliceIndexNode(self, node):
        self._calculate_const(node)
        if node.start is None or node.start.constant_result is None:
            start = node.start = None
        if node.stop is None or not node.stop.constant_result:
            stop = node.stop = None
        return node
    def _calculate_const(self, node):
        pass
'''


def _judge(dropped, report):
    for (bound, c), d in sorted(dropped.items()):
        if d and c not in MAY_DROP[bound]:
            desc = next(t for k, _, t in BOUND_CLASSES if k == c)
            report(bound, c, 'the %s bound is dropped when it is %s: %s' % (bound, desc, CONSEQUENCE[bound]))


def rule_bound(ctx):
    r = Rule('C15-BOUND', 'ConstantFolding.visit_SliceIndexNode drops a slice bound only where x[a:b] cannot change: decision table over the complete partition of '
             'bound values (absent / None / zero / non-zero / non-integer / non-constant), folded on model nodes', floor=28)
    tree = ctx.parse(OPT)
    cls = next((n for n in tree.body if isinstance(n, ast.ClassDef) and n.name == 'ConstantFolding'), None)
    if cls is None:
        raise AnalysisError('Optimize.ConstantFolding vanished')
    fdef = next((n for n in cls.body if isinstance(n, ast.FunctionDef) and n.name == 'visit_SliceIndexNode'), None)
    if fdef is None:
        raise AnalysisError('ConstantFolding.visit_SliceIndexNode vanished')
    f = NodeFolder(ctx)
    f._globals[(EXN, 'not_a_constant')] = NOT_CONST
    f._globals[(EXN, 'constant_value_not_set')] = NOT_SET
    dropped, n = slice_bound_table(f, cls, fdef, OPT)
    for (bound, c), d in sorted(dropped.items()):
        r.inst('%s:%s' % (bound, c), sample='%s bound %s: %s' % (bound, c, 'dropped' if d else 'kept'))
    r.info('%d evaluations; dropped: %s' % (n, sorted('%s:%s' % k for k, d in dropped.items() if d)))
    _judge(dropped, lambda bound, c, msg: r.violate('ConstantFolding.visit_SliceIndexNode:%s:%s' % (bound, c), OPT, fdef.lineno,
                                                    'visit_SliceIndexNode: ' + msg))
    # the anchor: this is the place where a constant None bound becomes "no bound" (only an analysis problem if nothing else is wrong)
    for bound in ('start', 'stop'):
        if not dropped.get((bound, 'none')) and not r.findings:
            raise AnalysisError('C15-BOUND: visit_SliceIndexNode no longer normalises a constant None %s bound to "no bound": the normalisation moved, the rule lost its anchor' % bound)
    # positive control
    pcls = ast.parse(_PC_BOUND).body[0]
    pf = NodeFolder(ctx)
    pdrop, _ = slice_bound_table(pf, pcls, pcls.body[0], OPT)
    hits = []
    _judge(pdrop, lambda bound, c, msg: hits.append((bound, c)))
    r.positive_control(('stop', 'zero') in hits and ('stop', 'positive') not in hits and not any(b == 'start' for b, _ in hits),
                       'truthiness test on the stop constant drops 0 / False / 0.0 / empty-string bounds')
    return r
