"""CRASH rule family: internal-error lints (L1-L5, L7) — constructs that make the compiler raise an internal exception
(AttributeError, NameError, TypeError, KeyError, AssertionError) on some input instead of reporting a positioned error."""
import ast, re, builtins

from ..core import Rule, AnalysisError, node_src
from ..engine import tables
from ..engine.pyindex import walk_no_nested, is_self_attr

PH = re.compile(r'%(?:\((\w+)\))?[-#0 +]*(\*|\d+)?(?:\.(\*|\d+))?[hlL]?([diouxXeEfFgGcrsa%])')


def compiler_modules(ix):
    return [m for m in ix.modules.values() if m.name.startswith('Cython.') and '.Tests' not in m.name and m.short not in ('TestUtils', 'Shadow', 'Coverage', 'IpythonMagic')]


def rule_L1(ctx, floor=2500):
    """self.NAME(...) calls resolve to a method/attribute defined in the class's inheritance cone."""
    ix = ctx.index
    r = Rule('L1', 'every method called as self.NAME(...) is defined in the class, its bases, or (abstract-method pattern) its subclasses', floor)
    # attribute names bound anywhere through keyword arguments / setattr / __dict__ updates: too dynamic to decide -> universe of data attrs
    universe = set()
    for m in ix.modules.values():
        for n in ast.walk(m.tree):
            if isinstance(n, ast.Call):
                universe.update(k.arg for k in n.keywords if k.arg)
            elif isinstance(n, ast.Attribute) and isinstance(n.ctx, ast.Store):
                universe.add(n.attr)
            elif isinstance(n, ast.Subscript) and isinstance(n.ctx, ast.Store) and isinstance(n.slice, ast.Constant) and isinstance(n.slice.value, str):
                universe.add(n.slice.value)
    for m in compiler_modules(ix):
        for qn, owner, fn in ix.functions_of(m):
            if owner is None or not fn.args.args or fn.args.args[0].arg != 'self':
                continue
            if owner.unresolved_bases and not all(b in ('object',) for b in owner.unresolved_bases):
                continue      # external base class: its attributes are unknown
            if any(k.unresolved_bases and not all(b in ('object',) for b in k.unresolved_bases) for k in ix.mro(owner)):
                continue
            if any(isinstance(d, (ast.Name, ast.Attribute)) for d in fn.decorator_list if 'staticmethod' in ast.unparse(d)):
                continue
            defined = None
            for n in walk_no_nested(fn):
                if isinstance(n, ast.Call) and is_self_attr(n.func):
                    name = n.func.attr
                    if defined is None:
                        defined = set(dir(object))
                        cone = list(ix.mro(owner))
                        for sub in ix.subclasses(owner):
                            cone += ix.mro(sub)          # mixins: siblings in the MRO of concrete subclasses provide the method
                        for k in cone:
                            defined |= set(k.methods) | set(k.attrs) | k.self_attrs
                        if any('__getattr__' in k.methods for k in ix.mro(owner)):
                            defined = None
                            break
                    r.inst('%s.%s:self.%s' % (m.short, qn, name), nontrivial=False)
                    if name not in defined and name not in universe:
                        r.violate('%s.%s:self.%s' % (m.short, qn, name), m.rel, n.lineno,
                                  '%s.%s calls self.%s(...) but no class in the inheritance cone of %s defines %r: AttributeError (internal compiler crash) when this path runs'
                                  % (m.short, qn, name, owner.name, name))
    return r


def rule_L2(ctx, floor=3000):
    """Module.attr references to another module of the package resolve to a module-level binding."""
    ix = ctx.index
    r = Rule('L2', 'every Module.attr reference to another Cython module resolves to a module-level binding of that module', floor)
    for m in compiler_modules(ix):
        # function-local imports shadow module-level aliases
        for qn, owner, fn in list(ix.functions_of(m)) + [('<module>', None, m.tree)]:
            local_imports = {}
            body_nodes = list(walk_no_nested(fn)) if isinstance(fn, (ast.FunctionDef, ast.AsyncFunctionDef)) else list(_module_nodes(fn))
            if isinstance(fn, (ast.FunctionDef, ast.AsyncFunctionDef)):
                for n in ast.walk(fn):
                    if isinstance(n, (ast.Import, ast.ImportFrom)):
                        ix._handle_import(n, local_imports)
                locals_ = {a.arg for a in fn.args.args + fn.args.kwonlyargs} | {x.id for x in ast.walk(fn) if isinstance(x, ast.Name) and isinstance(x.ctx, ast.Store)}
            else:
                locals_ = set()
            for n in body_nodes:
                if not (isinstance(n, ast.Attribute) and isinstance(n.value, ast.Name) and isinstance(n.ctx, ast.Load)):
                    continue
                nm = n.value.id
                if nm in locals_ and nm not in local_imports:
                    continue
                imp = local_imports.get(nm) or m.imports.get(nm)
                if not imp or imp[0] != 'module':
                    continue
                tm = ix.modules.get(imp[1])
                if tm is None or tm.dynamic_globals:
                    continue
                r.inst('%s:%s.%s' % (m.short, nm, n.attr), nontrivial=False)
                if n.attr in tm.bindings or n.attr in tm.classes or n.attr in tm.functions or n.attr.startswith('__'):
                    continue
                # submodule of a package
                if (tm.name + '.' + n.attr) in ix.modules:
                    continue
                # names declared through cython.declare(X=...) at module level, or star imports
                if _declares(tm, n.attr):
                    continue
                r.violate('%s.%s:%s.%s' % (m.short, qn, nm, n.attr), m.rel, n.lineno,
                          '%s.%s refers to %s.%s but module %s has no module-level binding %r: AttributeError when this path runs' % (m.short, qn, nm, n.attr, tm.short, n.attr))
    return r


def _module_nodes(tree):
    todo = list(tree.body)
    while todo:
        n = todo.pop()
        if isinstance(n, (ast.FunctionDef, ast.AsyncFunctionDef)):
            continue
        yield n
        for ch in ast.iter_child_nodes(n):
            if not isinstance(ch, (ast.FunctionDef, ast.AsyncFunctionDef)):
                todo.append(ch)


def _declares(tm, name):
    for n in ast.walk(tm.tree):
        if isinstance(n, ast.Call) and isinstance(n.func, ast.Attribute) and n.func.attr == 'declare' and any(k.arg == name for k in n.keywords):
            return True
        if isinstance(n, ast.ImportFrom) and any(a.name == '*' for a in n.names):
            return True
        if isinstance(n, ast.Global) and name in n.names:
            return True
    return False


def rule_L3(ctx, floor=750):
    """'%'-format strings with a literal template and a literal tuple/dict have matching arity / keys."""
    ix = ctx.index
    r = Rule('L3', "'%' formatting with a literal template: the number of conversions equals the number of values (named conversions have their keys)", floor)
    for m in compiler_modules(ix):
        for n in ast.walk(m.tree):
            if not (isinstance(n, ast.BinOp) and isinstance(n.op, ast.Mod) and isinstance(n.left, ast.Constant) and isinstance(n.left.value, (str, bytes))):
                continue
            s = n.left.value
            if isinstance(s, bytes):
                s = s.decode('latin1')
            phs = list(PH.finditer(s))
            named = [x.group(1) for x in phs if x.group(1)]
            pos = [x for x in phs if not x.group(1) and x.group(4) != '%']
            stars = sum(1 for x in pos for g in (x.group(2), x.group(3)) if g == '*')
            rr = n.right
            key = '%s:%s' % (m.short, re.sub(r'\s+', ' ', s)[:60])
            if named:
                if isinstance(rr, ast.Dict) and all(isinstance(k, ast.Constant) for k in rr.keys if k is not None) and None not in rr.keys:
                    r.inst(key, nontrivial=False)
                    miss = set(named) - {k.value for k in rr.keys}
                    if miss:
                        r.violate(key + ':keys', m.rel, n.lineno, "format string %r needs keys %s that the dict literal does not provide: KeyError when formatted" % (s[:60], sorted(miss)))
                continue
            need = len(pos) + stars
            if isinstance(rr, ast.Tuple) and not any(isinstance(e, ast.Starred) for e in rr.elts):
                r.inst(key, nontrivial=False)
                if len(rr.elts) != need:
                    r.violate(key + ':arity', m.rel, n.lineno, "format string %r has %d conversion(s) but %d value(s): TypeError when formatted" % (s[:60], need, len(rr.elts)))
            elif isinstance(rr, (ast.Constant, ast.JoinedStr)):
                r.inst(key, nontrivial=False)
                if need != 1:
                    r.violate(key + ':arity', m.rel, n.lineno, "format string %r has %d conversions but a single value" % (s[:60], need))
    return r


def directive_keys(ctx):
    tree = ctx.parse('Cython/Compiler/Options.py')
    keys = set()
    for name in ('_directive_defaults', 'directive_types'):
        v = tables.module_assign(tree, name)
        if not isinstance(v, ast.Dict):
            raise AnalysisError('Options.%s is not a dict literal' % name)
        keys |= {k.value for k in v.keys if isinstance(k, ast.Constant)}
    if len(keys) < 60:
        raise AnalysisError('only %d directives found' % len(keys))
    return keys


def rule_L4(ctx, floor=170):
    ix = ctx.index
    keys = directive_keys(ctx)
    r = Rule('L4', "every constant key used on a directives mapping (directives['k'], .get('k'), 'k' in directives) is a directive known to Options.py", floor)
    for m in compiler_modules(ix):
        for n in ast.walk(m.tree):
            key = None
            recv = None
            if isinstance(n, ast.Subscript) and isinstance(n.slice, ast.Constant) and isinstance(n.slice.value, str):
                recv = ast.unparse(n.value)
                key = n.slice.value
            elif isinstance(n, ast.Call) and isinstance(n.func, ast.Attribute) and n.func.attr in ('get', 'pop', 'setdefault') and n.args and isinstance(n.args[0], ast.Constant) and isinstance(n.args[0].value, str):
                recv = ast.unparse(n.func.value)
                key = n.args[0].value
            elif isinstance(n, ast.Compare) and len(n.ops) == 1 and isinstance(n.ops[0], (ast.In, ast.NotIn)) and isinstance(n.left, ast.Constant) and isinstance(n.left.value, str):
                recv = ast.unparse(n.comparators[0])
                key = n.left.value
            if key is None or recv is None:
                continue
            last = recv.rsplit('.', 1)[-1]
            if not (last.endswith('directives') or last in ('directive_defaults', '_directive_defaults')) or 'parallel' in last or 'distutils' in last:
                continue
            r.inst('%s:%s[%s]' % (m.short, last, key), nontrivial=False)
            if key not in keys:
                r.violate('%s:%s[%r]' % (m.short, last, key), m.rel, n.lineno, 'directive key %r is not defined in Options.py (typo): KeyError, or a directive test that can never be true' % key)
    return r


def rule_L7(ctx, floor=10):
    """Abstract hooks (methods whose body only raises NotImplementedError in a base class) are overridden in every concrete
    subclass that is instantiated somewhere."""
    ix = ctx.index
    r = Rule('L7', 'abstract methods (body raises NotImplementedError / InternalError) of node base classes are overridden in every instantiated concrete subclass', floor)
    instantiated = set()
    for m in ix.modules.values():
        for n in ast.walk(m.tree):
            if isinstance(n, ast.Call):
                nm = n.func.id if isinstance(n.func, ast.Name) else n.func.attr if isinstance(n.func, ast.Attribute) else None
                if nm:
                    instantiated.add(nm)
    for c in ix.node_classes():
        for mname, fn in c.methods.items():
            body = [s for s in fn.body if not (isinstance(s, ast.Expr) and isinstance(s.value, ast.Constant))]
            if len(body) == 1 and isinstance(body[0], ast.Raise) and body[0].exc is not None and 'NotImplemented' in ast.unparse(body[0].exc):
                for sub in ix.subclasses(c):
                    if sub.name not in instantiated or ix.subclasses(sub):
                        continue
                    impl = ix.find_method(sub, mname)
                    key = '%s.%s<-%s' % (c.qual, mname, sub.name)
                    r.inst(key, sample=key)
                    if impl is None or impl[0] is c:
                        # only an error if the method is actually called on this class hierarchy somewhere
                        r.info('%s does not override abstract %s.%s' % (sub.qual, c.name, mname))
    return r


# ------------------------------------------------------------------------------------ L5 (directive value kinds)
def directive_kinds(ctx):
    """kind of every value in Options.directive_types after the defaults loop: 'bool' 'int' 'str' 'class:<name>' 'func:<name>' 'object:<name>' 'none'."""
    tree = ctx.parse('Cython/Compiler/Options.py')
    dt = tables.module_assign(tree, 'directive_types')
    dd = tables.module_assign(tree, '_directive_defaults')
    if not isinstance(dt, ast.Dict) or not isinstance(dd, ast.Dict):
        raise AnalysisError('Options.directive_types/_directive_defaults are not dict literals')
    funcs = {n.name: n for n in tree.body if isinstance(n, ast.FunctionDef)}
    kinds = {}

    def kind_of_type_expr(v):
        if isinstance(v, ast.Constant) and v.value is None:
            return 'none'
        if isinstance(v, ast.Name):
            if v.id in ('bool', 'int', 'str'):
                return v.id
            if v.id in ('type', 'dict', 'list', 'tuple', 'set', 'float', 'object'):
                return 'class:' + v.id
            if v.id in funcs:
                return 'func:' + v.id
            return 'object:' + v.id
        if isinstance(v, ast.Call) and isinstance(v.func, ast.Name) and v.func.id in funcs:
            # factory returning a validator closure
            inner = [n for n in funcs[v.func.id].body if isinstance(n, ast.FunctionDef)]
            if inner:
                return 'func:%s(...)' % v.func.id
        return 'unknown:' + ast.unparse(v)[:30]
    for k, v in zip(dt.keys, dt.values):
        if isinstance(k, ast.Constant):
            kinds[k.value] = kind_of_type_expr(v)
    # defaults loop present?
    has_loop = any(isinstance(n, ast.For) and '_directive_defaults' in ast.unparse(n.iter) and 'directive_types' in ast.unparse(n) for n in tree.body)
    if has_loop:
        for k, v in zip(dd.keys, dd.values):
            if isinstance(k, ast.Constant) and k.value not in kinds:
                if isinstance(v, ast.Constant):
                    t = type(v.value).__name__
                    kinds[k.value] = t if t in ('bool', 'int', 'str') else 'class:' + t
                elif isinstance(v, (ast.List, ast.Dict, ast.Tuple, ast.Set)):
                    kinds[k.value] = 'class:' + type(v).__name__.lower()
                else:
                    kinds[k.value] = 'unknown:' + ast.unparse(v)[:30]
    return kinds, funcs, tree


def rule_L5(ctx, floor=5):
    """parse_directive_value handles every kind of value found in directive_types: each kind reaches a branch that returns a
    parsed value or raises ValueError (the only exception its callers turn into a positioned error)."""
    r = Rule('L5', 'Options.parse_directive_value dispatches every kind of directive type to a branch that returns or raises ValueError (never assert/TypeError)', floor)
    kinds, funcs, tree = directive_kinds(ctx)
    fn = funcs.get('parse_directive_value')
    if fn is None:
        raise AnalysisError('Options.parse_directive_value vanished')
    rel = 'Cython/Compiler/Options.py'
    tvar = None
    for n in fn.body:
        if isinstance(n, ast.Assign) and isinstance(n.value, ast.Call) and 'directive_types' in ast.unparse(n.value) and isinstance(n.targets[0], ast.Name):
            tvar = n.targets[0].id
    chain = None
    for n in fn.body:
        if isinstance(n, ast.If) and isinstance(n.test, ast.Compare) and isinstance(n.test.ops[0], ast.Is) and isinstance(n.test.left, ast.Name) and n.test.left.id == tvar:
            chain = n
    if tvar is None or chain is None:
        raise AnalysisError('parse_directive_value: type dispatch chain not found')
    aliases = {n.targets[0].id for n in tree.body if isinstance(n, ast.Assign) and isinstance(n.targets[0], ast.Name) and isinstance(n.value, ast.Name) and n.value.id == 'type'}

    def ev(test, kind):
        if isinstance(test, ast.BoolOp):
            vals = [ev(v, kind) for v in test.values]
            return all(vals) if isinstance(test.op, ast.And) else any(vals)
        if isinstance(test, ast.UnaryOp) and isinstance(test.op, ast.Not):
            return not ev(test.operand, kind)
        if isinstance(test, ast.Compare) and len(test.ops) == 1 and isinstance(test.left, ast.Name) and test.left.id == tvar:
            rhs = test.comparators[0]
            if isinstance(test.ops[0], (ast.Is, ast.Eq)) and isinstance(rhs, ast.Name):
                return kind == rhs.id or kind in ('class:' + rhs.id, 'object:' + rhs.id, 'func:' + rhs.id)
            if isinstance(test.ops[0], (ast.In,)) and isinstance(rhs, (ast.Tuple, ast.List, ast.Set)):
                return any(isinstance(e, ast.Name) and (kind == e.id or kind.split(':', 1)[-1] == e.id) for e in rhs.elts)
        if isinstance(test, ast.Call) and isinstance(test.func, ast.Name) and test.args and isinstance(test.args[0], ast.Name) and test.args[0].id == tvar:
            if test.func.id == 'callable':
                return not kind.startswith('object:')
            if test.func.id == 'isinstance' and len(test.args) == 2 and isinstance(test.args[1], ast.Name) and (test.args[1].id in aliases or test.args[1].id == 'type'):
                return kind in ('bool', 'int', 'str') or kind.startswith('class:')
        if isinstance(test, ast.Call) and isinstance(test.func, ast.Attribute) and test.func.attr == 'isclass':
            return kind in ('bool', 'int', 'str') or kind.startswith('class:')
        raise AnalysisError('parse_directive_value: unrecognised dispatch test %s' % ast.unparse(test))

    def branch_for(kind):
        n = chain
        while True:
            if ev(n.test, kind):
                return n.body
            if len(n.orelse) == 1 and isinstance(n.orelse[0], ast.If):
                n = n.orelse[0]
            else:
                return n.orelse

    def outcome(body):
        if not body:
            return 'falls-through'
        last = body[-1]
        if any(isinstance(x, ast.Assert) for s in body for x in ast.walk(s)):
            return 'assert'
        if isinstance(last, ast.Raise):
            return 'raise:' + (ast.unparse(last.exc.func) if isinstance(last.exc, ast.Call) else ast.unparse(last.exc) if last.exc else '')
        if isinstance(last, (ast.Return, ast.Try, ast.If)):
            calls_type = any(isinstance(x, ast.Call) and isinstance(x.func, ast.Name) and x.func.id == tvar for s in body for x in ast.walk(s))
            return 'calls-type' if calls_type else 'returns'
        return 'other'

    # reachability: parse_directive_list (header comments, -X options, cythonize directives strings) only passes names that are
    # keys of _directive_defaults, and handles list-typed directives itself
    dd = tables.module_assign(tree, '_directive_defaults')
    default_keys = {k.value for k in dd.keys if isinstance(k, ast.Constant)}
    pl = funcs.get('parse_directive_list')
    if pl is None:
        raise AnalysisError('Options.parse_directive_list vanished')
    list_special = any(isinstance(n, ast.Compare) and isinstance(n.ops[0], ast.Is) and isinstance(n.comparators[0], ast.Name) and n.comparators[0].id == 'list' for n in ast.walk(pl))
    guarded = any(isinstance(n, ast.Compare) and isinstance(n.ops[0], ast.NotIn) and '_directive_defaults' in ast.unparse(n.comparators[0]) for n in ast.walk(pl))
    seen = {}
    for name, kind in sorted(kinds.items()):
        if kind == 'none':
            continue
        if guarded and name not in default_keys:
            continue
        if list_special and kind == 'class:list':
            continue
        seen.setdefault(kind, name)
    for kind, example in sorted(seen.items()):
        out = outcome(branch_for(kind))
        key = 'Options.parse_directive_value:kind:%s' % kind.split('(')[0]
        r.inst(key, sample='kind %s (e.g. %r) -> %s' % (kind, example, out))
        ok = out in ('returns', 'raise:ValueError') or (out == 'calls-type' and kind.startswith('func:'))
        if kind.startswith('unknown:'):
            r.violate(key, 'Cython/Compiler/Options.py', fn.lineno, 'directive %r has a type expression the checker cannot classify: %s' % (example, kind))
        elif not ok:
            why = {'assert': 'hits `assert False`', 'calls-type': 'is called as %s(name, value), which raises TypeError for a plain class' % kind.split(':')[1],
                   'falls-through': 'falls through and returns None'}.get(out, out)
            r.violate(key, rel, fn.lineno,
                      "a directive whose type is %s (e.g. `# cython: %s=True` or -X %s=True) %s: the compiler crashes with an internal exception instead of reporting "
                      "that the directive cannot be set this way" % (kind, example, example, why))
    return r
