"""Fourth-round rules for C19 (comparisons, membership, switch).

Two small engines that belong to the checker (nothing of the repository is imported or executed):

* PyEval - a path-exploring partial evaluator for one Python function of the compiler.  Parameters and attributes the
  obligation quantifies over (`node.operator`, `allow_not_in`, `not_in`, ...) are bound to every value of their finite
  domain in turn; everything else is symbolic (Sym) or unknown (UNK), tests on unknowns fork and refine.  The evaluator
  records constructor calls (Cons: class, keyword values), calls and returns.  The rules compare the resulting decision
  tables with the table the semantics of Python's comparison operators dictates.
* CRun - an interpreter for small C helper functions (statement tree of rules/pC17.parse_body, expressions of
  engine/cexpr) run over the COMPLETE partition of the results the called C-API functions can deliver (error / absent /
  present, string kind x character class, ...).  Used for the contains/equals helpers and for the main function of the
  PyObjectCompare template, which is expanded for every (type1, type2, op) with the template's own `py:` definitions
  interpreted by PyEval.

Rules:  C19-POLAR  polarity protocol of the switch rewrite (extractor -> visitors -> switch builder)
        C19-CASE   structure of the emitted C switch (labels, break, default, evaluation before the switch)
        C19-CONN   connectives / negations / constant answers of the transforms that split a comparison
        C19-HAND   operand hand-over between the links of a chained comparison (evaluated exactly once)
        C19-NONE   type-specialised containment helpers are only bound behind a None check of the container
        C19-TF     contains / equals helpers in C: error propagation and (found == (eq == Py_EQ)) truth tables
        C19-MAIN   PyObjectCompare main function: None / identity / dispatch decision table
        C19-DUPKEY the duplicate detector's key of constructed case values is their C integer value (pending finding)
"""
import ast, copy, itertools, re

from ..core import Rule, AnalysisError, node_src
from ..engine import cexpr, tables
from ..engine.cutil import strip_c_comments
from ..engine.pyindex import walk_no_nested, is_self_attr
from . import pC17 as CP


# ===================================================================================================== PyEval
class _Unk:
    def __repr__(self):
        return '?'


UNK = _Unk()


class Sym:
    """A symbolic object known only by the access path it was read from."""
    __slots__ = ('path', 'truthy')

    def __init__(self, path, truthy=None):
        self.path, self.truthy = path, truthy

    def __repr__(self):
        return '<%s>' % self.path

    def __eq__(self, other):
        return isinstance(other, Sym) and other.path == self.path

    def __hash__(self):
        return hash(self.path)


class Cons:
    """A node constructed on the path: class name + evaluated keyword / positional arguments."""

    def __init__(self, cls, kw, args, node):
        self.cls, self.kw, self.args, self.node = cls, kw, args, node

    def __repr__(self):
        return '%s(%s)' % (self.cls, ', '.join('%s=%r' % kv for kv in sorted(self.kw.items())))


class Closure:
    def __init__(self, fn):
        self.fn = fn


class Fmt:
    """A formatted string with parts that are not all known: template text with § per part, evaluated parts, their AST nodes."""

    def __init__(self, text, parts, nodes):
        self.text, self.parts, self.nodes = text, parts, nodes

    def __repr__(self):
        return 'Fmt(%r, %r)' % (self.text, self.parts)


class State:
    def __init__(self, env=None):
        self.env = env or {}
        self.facts = []          # (test source, truth) assumed at forks
        self.events = []         # ('cons', Cons) | ('call', name, args, kwargs, node) | ('bind', target names, value, node)

    def fork(self):
        s = State()
        s.env = {k: (list(v) if isinstance(v, list) else v) for k, v in self.env.items()}
        s.facts = list(self.facts)
        s.events = list(self.events)
        return s


PRESERVING = {'coerce_to', 'coerce_to_pyobject', 'coerce_to_temp', 'coerce_to_simple', 'coerce_to_boolean', 'coerce_to_index', 'coerce_to_integer',
              'analyse_types', 'analyse_expressions', 'as_none_safe_node'}
PRESERVING_FUNCS = {'unwrap_node'}
MAX_PATHS = 6000


class PyEval:
    """Explore every path of `fn` under the bindings of `env` (access path -> value)."""

    def __init__(self, fn, env, tuple_results=None, classes=None, outer=None):
        self.fn = fn
        self.init_env = dict(env)
        self.tuple_results = tuple_results or {}
        self.classes = classes or {}         # access path -> class name assumed for isinstance()
        self.outer = outer
        self.preserving_self = set()         # self.<m>(x) calls that hand back (a transformed) x
        self.paths = 0
        self.callno = 0

    # ------------------------------------------------------------------ values
    def path_of(self, e, st):
        if isinstance(e, ast.Name):
            v = st.env.get(e.id)
            if isinstance(v, Sym):
                return v.path
            return e.id
        if isinstance(e, ast.Attribute):
            b = self.path_of(e.value, st)
            return None if b is None else b + '.' + e.attr
        return None

    def truth(self, v):
        if v is UNK:
            return None
        if isinstance(v, Sym):
            return v.truthy
        if isinstance(v, (Cons, Closure)):
            return True
        try:
            return bool(v)
        except Exception:
            return None

    def ev(self, e, st):
        if isinstance(e, ast.Constant):
            return e.value
        if isinstance(e, ast.Name):
            if e.id in st.env:
                return st.env[e.id]
            if e.id in ('True', 'False', 'None'):
                return {'True': True, 'False': False, 'None': None}[e.id]
            return Sym(e.id)
        if isinstance(e, ast.Attribute):
            p = self.path_of(e, st)
            if p is not None and p in st.env:
                return st.env[p]
            b = self.ev(e.value, st)
            if isinstance(b, Cons):
                return b.kw.get(e.attr, UNK)
            if isinstance(b, Sym):
                return Sym(b.path + '.' + e.attr)
            return UNK
        if isinstance(e, ast.Tuple):
            return tuple(self.ev(x, st) for x in e.elts)
        if isinstance(e, ast.List):
            return [self.ev(x, st) for x in e.elts]
        if isinstance(e, ast.Dict):
            if all(k is not None for k in e.keys):
                ks = [self.ev(k, st) for k in e.keys]
                if all(isinstance(k, (str, int, bool)) for k in ks):
                    return dict(zip(ks, [self.ev(v, st) for v in e.values]))
            return UNK
        if isinstance(e, ast.Subscript):
            b = self.ev(e.value, st)
            if isinstance(e.slice, ast.Slice):
                return UNK
            i = self.ev(e.slice, st)
            if isinstance(b, dict) and isinstance(i, (str, int, bool)):
                return b.get(i, UNK)
            if isinstance(b, (list, tuple)) and isinstance(i, int) and not isinstance(i, bool) and -len(b) <= i < len(b):
                return b[i]
            return UNK
        if isinstance(e, ast.UnaryOp) and isinstance(e.op, ast.Not):
            t = self.truth(self.ev(e.operand, st))
            return UNK if t is None else (not t)
        if isinstance(e, ast.UnaryOp) and isinstance(e.op, ast.USub):
            v = self.ev(e.operand, st)
            return -v if isinstance(v, int) and not isinstance(v, bool) else UNK
        if isinstance(e, ast.BoolOp):
            unknown = False
            for i, v in enumerate(e.values):
                x = self.ev(v, st)
                t = self.truth(x)
                final = i == len(e.values) - 1
                if t is None:
                    if final and not unknown:
                        return x                    # all earlier operands decided: the value is the last operand itself
                    unknown = True
                    continue
                if isinstance(e.op, ast.And) and not t:
                    return Sym('?falsy', truthy=False) if unknown else x
                if isinstance(e.op, ast.Or) and t:
                    return Sym('?truthy', truthy=True) if unknown else x
                if final:
                    return UNK if unknown else x
            return UNK
        if isinstance(e, ast.Compare):
            if len(e.ops) != 1:
                return UNK
            a, b = self.ev(e.left, st), self.ev(e.comparators[0], st)
            return self.compare(a, e.ops[0], b)
        if isinstance(e, ast.IfExp):
            t = self.truth(self.ev(e.test, st))
            if t is None:
                x, y = self.ev(e.body, st), self.ev(e.orelse, st)
                return x if self.same(x, y) else UNK
            return self.ev(e.body if t else e.orelse, st)
        if isinstance(e, ast.JoinedStr):
            out = ''
            for v in e.values:
                if isinstance(v, ast.Constant):
                    out += str(v.value)
                else:
                    x = self.ev(v.value, st)
                    if not isinstance(x, (str, int)) or isinstance(x, bool) or v.format_spec is not None or v.conversion != -1:
                        return self.fmt_of(e, st)
                    out += str(x)
            return out
        if isinstance(e, ast.BinOp):
            a, b = self.ev(e.left, st), self.ev(e.right, st)
            if isinstance(e.op, ast.Add) and isinstance(a, (list, tuple)) and type(a) is type(b):
                return a + b
            if isinstance(e.op, ast.Add) and isinstance(a, str) and isinstance(b, str):
                return a + b
            if isinstance(a, int) and isinstance(b, int) and not isinstance(a, bool) and not isinstance(b, bool):
                if isinstance(e.op, ast.Add):
                    return a + b
                if isinstance(e.op, ast.Sub):
                    return a - b
                if isinstance(e.op, ast.Mult):
                    return a * b
            if isinstance(e.op, ast.Mod) and isinstance(a, str):
                bb = b if isinstance(b, tuple) else (b,)
                if all(isinstance(x, (str, int)) and not isinstance(x, bool) for x in bb):
                    try:
                        return a % bb
                    except (TypeError, ValueError):
                        return UNK
                return self.fmt_of(e, st)
            return UNK
        if isinstance(e, ast.Call):
            return self.call(e, st)
        if isinstance(e, ast.Starred):
            return UNK
        if isinstance(e, ast.Lambda):
            fn = ast.FunctionDef(name='<lambda>', args=e.args, body=[ast.Return(value=e.body)], decorator_list=[], returns=None, type_comment=None, type_params=[])
            return Closure(ast.fix_missing_locations(fn))
        if isinstance(e, (ast.ListComp, ast.GeneratorExp, ast.SetComp, ast.DictComp, ast.Set)):
            return UNK
        return UNK

    def fmt_of(self, e, st):
        from .iface import str_template, PLACEHOLDER
        t = str_template(e)
        if t is None:
            return UNK
        nodes = [n for n in t[1]]
        return Fmt(t[0].replace(PLACEHOLDER, '§'), [self.ev(n, st) if n is not None else UNK for n in nodes], nodes)

    def same(self, x, y):
        if x is UNK or y is UNK:
            return False
        if isinstance(x, Cons) or isinstance(y, Cons):
            return x is y
        try:
            return type(x) is type(y) and x == y
        except Exception:
            return False

    def compare(self, a, op, b):
        conc = lambda v: v is None or isinstance(v, (str, int, bool, float, tuple, list, dict))
        if isinstance(op, (ast.Is, ast.IsNot)):
            pos = isinstance(op, ast.Is)
            if a is UNK or b is UNK:
                return UNK
            if isinstance(a, Cons) or isinstance(b, Cons):
                return (a is b) == pos
            if isinstance(a, Sym) or isinstance(b, Sym):
                if isinstance(a, Sym) and isinstance(b, Sym):
                    return pos if a == b else UNK
                s, o = (a, b) if isinstance(a, Sym) else (b, a)
                if o is None and s.truthy:
                    return not pos
                return UNK
            if a is None or b is None or isinstance(a, bool) or isinstance(b, bool):
                return (a is b) == pos
            return UNK
        if isinstance(op, (ast.Eq, ast.NotEq)):
            pos = isinstance(op, ast.Eq)
            if conc(a) and conc(b) and not self.has_unknown(a) and not self.has_unknown(b):
                return (a == b) == pos
            if isinstance(a, Sym) and isinstance(b, Sym) and a == b:
                return pos
            return UNK
        if isinstance(op, (ast.In, ast.NotIn)):
            pos = isinstance(op, ast.In)
            if isinstance(b, (tuple, list, str, dict)) and conc(a) and not self.has_unknown(b) and not self.has_unknown(a):
                try:
                    return (a in b) == pos
                except TypeError:
                    return UNK
            return UNK
        return UNK

    def has_unknown(self, v):
        if v is UNK or isinstance(v, (Sym, Cons, Closure)):
            return True
        if isinstance(v, (tuple, list)):
            return any(self.has_unknown(x) for x in v)
        if isinstance(v, dict):
            return any(self.has_unknown(x) for x in v.values())
        return False

    # ------------------------------------------------------------------ calls
    def call(self, c, st):
        f = c.func
        args = [self.ev(a, st) for a in c.args]
        kw = {k.arg: self.ev(k.value, st) for k in c.keywords if k.arg}
        name = f.id if isinstance(f, ast.Name) else (f.attr if isinstance(f, ast.Attribute) else None)
        if isinstance(f, ast.Name):
            fv = st.env.get(f.id)
            if isinstance(fv, Closure):
                return self.inline(fv, args, kw, st)
            if f.id == 'isinstance' and len(c.args) == 2:
                return self.isinstance_(c.args[0], c.args[1], st)
            if f.id == 'reduce' and len(args) == 2 and isinstance(args[0], Closure):
                seq = args[1]
                x = seq[0] if isinstance(seq, list) and seq else UNK
                return self.inline(args[0], [x, x], {}, st)
            if f.id in PRESERVING_FUNCS and len(args) == 1:
                return args[0]
            if f.id == 'range' and args and all(isinstance(a, int) and not isinstance(a, bool) for a in args) and not kw:
                return tuple(range(*args))
            if f.id == 'dict' and not args:
                return dict(kw)
            if f.id in ('list', 'tuple') and len(args) == 1 and isinstance(args[0], (Sym, list, tuple)) and not kw:
                return args[0]            # same elements
            if f.id == 'enumerate' and args and isinstance(args[0], (Sym, list, tuple)):
                return ('enumerate', args[0])
            if f.id in ('getattr',) and len(c.args) >= 2:
                return UNK
        if isinstance(f, ast.Attribute):
            recv = self.ev(f.value, st)
            if f.attr in PRESERVING and isinstance(recv, (Sym, Cons)):
                st.events.append(('call', f.attr, [recv] + args, kw, c))
                return recv
            if isinstance(recv, str) and f.attr in ('upper', 'lower', 'title', 'strip') and not args:
                return getattr(recv, f.attr)()
            if isinstance(recv, str) and f.attr == 'format' and all(isinstance(x, (str, int)) and not isinstance(x, bool) for x in list(args) + list(kw.values())):
                try:
                    return recv.format(*args, **kw)
                except (KeyError, IndexError, ValueError):
                    return UNK
            if f.attr == 'append' and isinstance(recv, list) and len(args) == 1:
                recv.append(args[0])
                return None
            if f.attr == 'extend' and isinstance(recv, list) and len(args) == 1 and isinstance(args[0], (list, tuple)):
                recv.extend(args[0])
                return None
            if isinstance(f.value, ast.Name) and f.value.id == 'self' and f.attr in self.preserving_self and len(args) == 1:
                return args[0]
            if isinstance(f.value, ast.Name) and f.value.id == 'self' and 'self.' + f.attr not in st.env:
                self.callno += 1
                st.events.append(('call', 'self.' + f.attr, args, kw, c))
                n = self.tuple_results.get(f.attr)
                if n:
                    return tuple(Sym('%s()#%d' % (f.attr, i)) for i in range(n))
                return UNK
        # constructor of a tree node
        if name and name[:1].isupper() and (name.endswith('Node') or name in ('TempHandle',)) and (
                isinstance(f, ast.Name) or isinstance(f.value, ast.Name)):
            obj = Cons(name, kw, args, c)
            st.events.append(('cons', obj))
            return obj
        st.events.append(('call', node_src(f), args, kw, c, self.ev(f.value, st) if isinstance(f, ast.Attribute) else None))
        return UNK

    def isinstance_(self, obj, cls, st):
        p = self.path_of(obj, st)
        want = self.classes.get(p)
        if want is None:
            return UNK
        names = []
        for x in (cls.elts if isinstance(cls, ast.Tuple) else [cls]):
            names.append(x.attr if isinstance(x, ast.Attribute) else (x.id if isinstance(x, ast.Name) else None))
        if None in names:
            return UNK
        return want in names

    def inline(self, clo, args, kw, st):
        fn = clo.fn
        params = [a.arg for a in fn.args.args]
        saved = {p: st.env.get(p, self) for p in params}
        defaults = dict(zip(params[len(params) - len(fn.args.defaults):], fn.args.defaults))
        bound = dict(zip(params, args))
        bound.update(kw)
        for p in params:
            if p not in bound and p in defaults:
                bound[p] = self.ev(defaults[p], st)
        for p, v in bound.items():
            st.env[p] = v
        outs = self.block(fn.body, st)
        result = UNK
        rets = [(sig, s, v) for sig, s, v in outs if sig == 'return']
        if len(outs) == 1 and len(rets) == 1 and rets[0][1] is st:
            result = rets[0][2]
        for p, v in saved.items():
            if v is self:
                st.env.pop(p, None)
            else:
                st.env[p] = v
        return result

    # ------------------------------------------------------------------ statements
    def bind(self, target, value, st):
        if isinstance(target, ast.Name):
            st.env[target.id] = value
            # bindings of paths rooted at this name are stale now, except the assumptions the caller quantifies over
            for k in [k for k in st.env if k.startswith(target.id + '.') and k not in self.init_env]:
                del st.env[k]
        elif isinstance(target, ast.Attribute):
            p = self.path_of(target, st)
            if p:
                st.env[p] = value
        elif isinstance(target, (ast.Tuple, ast.List)):
            if isinstance(value, (tuple, list)) and len(value) == len(target.elts) and not any(isinstance(t, ast.Starred) for t in target.elts):
                for t, v in zip(target.elts, value):
                    self.bind(t, v, st)
            else:
                for t in target.elts:
                    self.bind(t.value if isinstance(t, ast.Starred) else t, UNK, st)
        elif isinstance(target, ast.Subscript):
            pass

    def assigned_names(self, stmts):
        out = set()
        for s in stmts:
            for n in ast.walk(s):
                if isinstance(n, ast.Name) and isinstance(n.ctx, ast.Store):
                    out.add(n.id)
        return out

    def havoc(self, names, st):
        for n in names:
            v = st.env.get(n)
            if isinstance(v, list):
                continue            # accumulators keep what was appended (a list of such elements)
            if n in st.env:
                # names the caller's assumptions are rooted at keep their identity (the assumptions describe whatever object the name denotes when it is tested)
                st.env[n] = Sym(n) if any(k.startswith(n + '.') for k in self.init_env) or n in self.classes else UNK
            for k in [k for k in st.env if k.startswith(n + '.') and k not in self.init_env]:
                del st.env[k]

    def refine(self, test, truth, st):
        """Record what a forked test tells about the bindings."""
        if isinstance(test, ast.UnaryOp) and isinstance(test.op, ast.Not):
            return self.refine(test.operand, not truth, st)
        if isinstance(test, ast.BoolOp):
            if isinstance(test.op, ast.And) and truth or isinstance(test.op, ast.Or) and not truth:
                for v in test.values:
                    if self.truth(self.ev(v, st)) is None:
                        self.refine(v, truth, st)
            else:
                undecided = [v for v in test.values if self.truth(self.ev(v, st)) is None]
                if len(undecided) == 1:
                    self.refine(undecided[0], truth, st)
            return
        if isinstance(test, ast.Compare) and len(test.ops) == 1:
            op = test.ops[0]
            p = self.path_of(test.left, st)
            b = self.ev(test.comparators[0], st)
            if p is not None and not self.has_unknown(b):
                if isinstance(op, (ast.Eq, ast.Is)) and truth or isinstance(op, (ast.NotEq, ast.IsNot)) and not truth:
                    st.env[p] = b
                elif b is None and (isinstance(op, (ast.IsNot, ast.NotEq)) and truth or isinstance(op, (ast.Is, ast.Eq)) and not truth):
                    v = st.env.get(p)
                    if v is None or v is UNK or isinstance(v, Sym):
                        st.env[p] = Sym(v.path if isinstance(v, Sym) else p, truthy=True)
            return
        if isinstance(test, (ast.Name, ast.Attribute)):
            p = self.path_of(test, st)
            if p is not None:
                v = st.env.get(p)
                if truth:
                    if v is None or v is UNK or isinstance(v, Sym) or p not in st.env:
                        st.env[p] = Sym(v.path if isinstance(v, Sym) else p, truthy=True)
                else:
                    st.env['%s@falsy' % p] = True

    def block(self, stmts, st):
        """-> list of (signal, state, value); signal in next/return/break/continue/raise"""
        live = [st]
        done = []
        for s in stmts:
            nxt = []
            for cur in live:
                for sig, s2, v in self.stmt(s, cur):
                    if sig == 'next':
                        nxt.append(s2)
                    else:
                        done.append((sig, s2, v))
            live = nxt
            if not live:
                break
        self.paths = max(self.paths, len(live) + len(done))
        if len(live) + len(done) > MAX_PATHS:
            raise AnalysisError('%s: more than %d paths in the partial evaluation' % (self.fn.name, MAX_PATHS))
        return [('next', s, None) for s in live] + done

    def branch(self, test, st):
        """-> [(truth, state)]"""
        t = self.truth(self.ev(test, st))
        if t is not None:
            return [(t, st)]
        out = []
        for truth in (True, False):
            s2 = st.fork()
            s2.facts.append((node_src(test, 200), truth))
            self.refine(test, truth, s2)
            out.append((truth, s2))
        return out

    def stmt(self, s, st):
        if isinstance(s, ast.Expr):
            if not isinstance(s.value, ast.Constant):
                self.ev(s.value, st)
            return [('next', st, None)]
        if isinstance(s, ast.Assign):
            v = self.ev(s.value, st)
            for t in s.targets:
                self.bind(t, v, st)
            st.events.append(('bind', s.targets, v, s))
            return [('next', st, None)]
        if isinstance(s, ast.AnnAssign):
            if s.value is not None:
                self.bind(s.target, self.ev(s.value, st), st)
            return [('next', st, None)]
        if isinstance(s, ast.AugAssign):
            self.ev(s.value, st)
            self.bind(s.target, UNK, st)
            return [('next', st, None)]
        if isinstance(s, ast.Return):
            v = self.ev(s.value, st) if s.value is not None else None
            return [('return', st, v)]
        if isinstance(s, ast.If):
            out = []
            for truth, s2 in self.branch(s.test, st):
                out += self.block(s.body if truth else s.orelse, s2)
            return out
        if isinstance(s, (ast.For, ast.While)):
            names = self.assigned_names(s.body) | (self.assigned_names([s.target]) if isinstance(s, ast.For) else set())
            out = []
            entries = [(True, st)]
            if isinstance(s, ast.While):
                entries = self.branch(s.test, st)
            for enter, s1 in entries:
                if not enter:
                    out += self.block(s.orelse, s1)
                    continue
                self.havoc(names, s1)
                if isinstance(s, ast.For):
                    it = self.ev(s.iter, s1)
                    if isinstance(it, tuple) and len(it) == 2 and it[0] == 'enumerate':
                        inner = it[1]
                        el = (UNK, inner[0] if isinstance(inner, (list, tuple)) and inner else (Sym(inner.path + '[*]', truthy=True) if isinstance(inner, Sym) else UNK))
                    elif isinstance(it, (list, tuple)) and it:
                        el = it[0]
                    elif isinstance(it, Sym):
                        el = Sym(it.path + '[*]', truthy=True)
                    else:
                        el = UNK
                    self.bind(s.target, el, s1)
                for sig, s2, v in self.block(s.body, s1):
                    if sig in ('return', 'raise'):
                        out.append((sig, s2, v))
                        continue
                    # the state after the body stands for the last iteration (names bound in the body keep that binding)
                    if sig == 'break':
                        out.append(('next', s2, None))
                    else:
                        out += self.block(s.orelse, s2)
            return out
        if isinstance(s, ast.Break):
            return [('break', st, None)]
        if isinstance(s, ast.Continue):
            return [('continue', st, None)]
        if isinstance(s, ast.FunctionDef):
            st.env[s.name] = Closure(s)
            return [('next', st, None)]
        if isinstance(s, (ast.Pass, ast.Import, ast.ImportFrom, ast.Global, ast.Nonlocal, ast.Assert, ast.Delete)):
            return [('next', st, None)]
        if isinstance(s, ast.Raise):
            return [('raise', st, None)]
        if isinstance(s, ast.With):
            for it in s.items:
                self.ev(it.context_expr, st)
                if it.optional_vars is not None:
                    self.bind(it.optional_vars, UNK, st)
            return self.block(s.body, st)
        if isinstance(s, ast.Try):
            out = []
            for sig, s2, v in self.block(s.body, st.fork()):
                if sig == 'next':
                    out += self.block(s.orelse + s.finalbody, s2)
                else:
                    out.append((sig, s2, v))
            for h in s.handlers:
                s3 = st.fork()
                self.havoc(self.assigned_names(s.body), s3)
                s3.facts.append(('except %s' % (node_src(h.type) if h.type is not None else ''), True))
                for sig, s4, v in self.block(h.body, s3):
                    if sig == 'next':
                        out += self.block(s.finalbody, s4)
                    else:
                        out.append((sig, s4, v))
            return out
        raise AnalysisError('%s: statement %s is outside the fragment the partial evaluator understands' % (self.fn.name, node_src(s, 60)))

    def run(self):
        st = State(dict(self.init_env))
        for a in self.fn.args.args:
            if a.arg not in st.env and a.arg != 'self':
                st.env[a.arg] = Sym(a.arg)
        outs = self.block(self.fn.body, st)
        res = []
        for sig, s, v in outs:
            if sig == 'next':
                sig, v = 'return', None
            res.append((sig, s, v))
        return res


def root(v):
    """the symbolic object a value stands for (coercions are identity in PyEval)"""
    return v.path if isinstance(v, Sym) else None


def _method(c, name):
    fn = c.methods.get(name)
    if fn is None:
        raise AnalysisError('%s.%s vanished' % (c.qual, name))
    return fn


def _conses(st, cls):
    return [e[1] for e in st.events if e[0] == 'cons' and e[1].cls == cls]


def _calls(st, name):
    return [e for e in st.events if e[0] == 'call' and e[1] == name]


# ===================================================================================================== C19-POLAR
# What `not_in` must be for a comparison operator that may become a C switch (language reference 6.10: `x == c1 or x == c2` is
# `x in (c1, c2)`; `x != c1 and x != c2` is `x not in (c1, c2)`); any other operator cannot be expressed by case labels.
POLARITY = {'==': False, '!=': True, 'in': False, 'not_in': True}
CMP_OPERATORS = ('==', '!=', 'in', 'not_in', '<', '<=', '>', '>=', 'is', 'is_not')
# value selected when the condition holds / does not hold, for node classes whose visitor keeps two alternative values
VALUE_CHILDREN = {'CondExprNode': ('true_val', 'false_val')}


def _deep(v, seen=None):
    """every value reachable from v (through tuples, lists, constructed nodes)"""
    seen = seen if seen is not None else set()
    if id(v) in seen:
        return
    seen.add(id(v))
    yield v
    if isinstance(v, (tuple, list)):
        for x in v:
            yield from _deep(x, seen)
    elif isinstance(v, dict):
        for x in v.values():
            yield from _deep(x, seen)
    elif isinstance(v, Cons):
        for x in list(v.kw.values()) + list(v.args):
            yield from _deep(x, seen)


def polar_analysis(methods, child_attrs, qual='Optimize.SwitchTransform', extractor='extract_conditions', common='extract_common_conditions', no_match='NO_MATCH', no_match_value=(None, None, None)):
    """-> (instances [(key, sample)], problems [(key, line, text)])"""
    inst, prob = [], []
    K = lambda what: '%s.%s' % (qual, what)
    ext = methods.get(extractor)
    com = methods.get(common)
    if ext is None or com is None:
        raise AnalysisError('%s: %s / %s vanished' % (qual, extractor, common))
    eparams = [a.arg for a in ext.args.args]
    if len(eparams) < 3:
        raise AnalysisError('%s.%s lost its (cond, allow_not_in) parameters' % (qual, extractor))
    p_cond, p_allow = eparams[1], eparams[2]
    base = {'self.' + no_match: no_match_value}
    # ---- (1) the extractor on a single comparison: operator x allow_not_in -> polarity
    for op in CMP_OPERATORS:
        for allow in (True, False):
            env = dict(base)
            env[p_cond + '.operator'] = op
            env[p_allow] = allow
            pe = PyEval(ext, env, tuple_results={extractor: 3, 'extract_in_string_conditions': 0}, classes={p_cond: 'PrimaryCmpNode'})
            matches = 0
            for sig, st, v in pe.run():
                if sig != 'return':
                    continue
                if not isinstance(v, tuple) or len(v) != 3:
                    raise AnalysisError('%s.%s returns %r for a single comparison: not a (polarity, variable, values) triple' % (qual, extractor, v))
                if v[1] is None:
                    continue
                matches += 1
                pol = v[0]
                key = K('%s:%s' % (extractor, op))
                want = POLARITY.get(op)
                if want is None:
                    prob.append((key, ext.lineno, '%s reports a switchable condition for a comparison with operator %r: only ==/in and !=/not in can be expressed by case labels' % (extractor, op)))
                    continue
                if not isinstance(pol, bool):
                    raise AnalysisError('%s.%s: the polarity returned for operator %r is not decidable (%r)' % (qual, extractor, op, pol))
                if pol != want:
                    prob.append((key, ext.lineno, '%s reports operator %r with not_in=%r: the case bodies built from this flag select the opposite outcome (`x %s c` runs the body of `x %s c`)'
                                 % (extractor, op, pol, op.replace('_', ' '), {'==': '!=', '!=': '==', 'in': 'not in', 'not_in': 'in'}[op])))
                if pol and not allow:
                    prob.append((K('%s:%s:gate' % (extractor, op)), ext.lineno,
                                 '%s returns a negated match (operator %r) although the caller passed %s=False: callers that cannot represent negation (an if/elif chain maps each clause to the '
                                 'case labels of ITS body) would run the body exactly for the excluded values' % (extractor, op, p_allow)))
                casc = st.env.get(p_cond + '.cascade', UNK)
                if casc is not None:
                    prob.append((K('%s:cascade' % extractor), ext.lineno,
                                 '%s returns a match for a comparison (operator %r) on a path that never established `%s.cascade is None`: the remaining links of a chained comparison '
                                 '(`x == 1 == y`) are dropped from the switch' % (extractor, op, p_cond)))
            if matches:
                inst.append((K('%s:%s:allow=%s' % (extractor, op, allow)), '%s(%s %s ..., %s=%s): %d matching path(s)' % (extractor, p_cond, op, p_allow, allow, matches)))
    # ---- (2) the common-variable wrapper forwards flag and polarity
    cparams = [a.arg for a in com.args.args]
    if len(cparams) < 4:
        raise AnalysisError('%s.%s lost its parameters' % (qual, common))
    c_allow = cparams[3]
    allow_idx = eparams.index(p_allow) - 1
    for allow in (True, False):
        env = dict(base)
        env[c_allow] = allow
        pe = PyEval(com, env, tuple_results={extractor: 3})
        n = 0
        for sig, st, v in pe.run():
            calls = _calls(st, 'self.' + extractor)
            for c in calls:
                a = c[2][allow_idx] if len(c[2]) > allow_idx else c[3].get(p_allow, UNK)
                if a is not allow:
                    prob.append((K('%s:forward' % common), c[4].lineno, '%s calls %s with %s=%r when its own caller asked for %r: the negation gate of the caller is lost'
                                 % (common, extractor, p_allow, a, allow)))
            if sig == 'return' and isinstance(v, tuple) and len(v) == 3 and v[1] is not None:
                n += 1
                want = tuple(Sym('%s()#%d' % (extractor, i)) for i in range(3))
                for i, what in ((0, 'polarity'), (1, 'switch variable'), (2, 'case values')):
                    if v[i] != want[i]:
                        prob.append((K('%s:result' % common), com.lineno, '%s returns %r as %s instead of the value %s delivered' % (common, v[i], what, extractor)))
        inst.append((K('%s:allow=%s' % (common, allow)), '%s(.., %s=%s): %d matching path(s)' % (common, c_allow, allow, n)))
    # ---- (3) builders: which parameter becomes the body of the cases / of the default, per polarity
    builders = {}
    for name, fn in methods.items():
        if name.startswith('visit_') or name in (extractor, common):
            continue
        if any(isinstance(n, ast.Call) and (getattr(n.func, 'attr', None) or getattr(n.func, 'id', None)) == 'SwitchStatNode' for n in walk_no_nested(fn)):
            builders[name] = fn
    visitors = {name: fn for name, fn in methods.items() if name.startswith('visit_') and
                any(isinstance(n, ast.Call) and is_self_attr(n.func) and n.func.attr == common for n in walk_no_nested(fn))}
    if not visitors:
        raise AnalysisError('%s: no visitor calls %s' % (qual, common))
    res_syms = [Sym('%s()#%d' % (common, i)) for i in range(3)]
    site_calls = {}        # builder -> [(visitor, call event)]
    for vname, fn in sorted(visitors.items()):
        vparams = [a.arg for a in fn.args.args]
        p_node = vparams[1] if len(vparams) > 1 else 'node'
        cls_name = vname[len('visit_'):]
        # is the polarity (first element of the unpacked result) read anywhere?
        pol_names = set()
        for n in walk_no_nested(fn):
            if isinstance(n, ast.Assign) and isinstance(n.value, ast.Call) and is_self_attr(n.value.func) and n.value.func.attr == common:
                t = n.targets[0]
                if isinstance(t, ast.Tuple) and t.elts and isinstance(t.elts[0], ast.Name):
                    pol_names.add(t.elts[0].id)
                else:
                    raise AnalysisError('%s.%s does not unpack the result of %s' % (qual, vname, common))
        pol_used = any(isinstance(n, ast.Name) and isinstance(n.ctx, ast.Load) and n.id in pol_names for n in walk_no_nested(fn))
        pe = PyEval(fn, dict(base), tuple_results={common: 3})
        n_paths = 0
        for sig, st, v in pe.run():
            ecalls = _calls(st, 'self.' + common)
            for c in ecalls:
                a = c[2][2] if len(c[2]) > 2 else c[3].get(c_allow, UNK)
                if not pol_used and a is not False:
                    prob.append((K('%s:discarded-polarity' % vname), c[4].lineno,
                                 '%s discards the polarity returned by %s but passes %s=%r: a negated clause (`if x != 1: A`) would become `case 1: A`' % (vname, common, c_allow, a)))
            switches = _conses(st, 'SwitchStatNode')
            bcalls = [e for e in st.events if e[0] == 'call' and e[1].startswith('self.') and e[1][5:] in builders]
            if sig != 'return' or not (switches or bcalls):
                continue
            n_paths += 1
            material = [v] + [x for c in ecalls + bcalls for x in c[2]]
            reach = set()
            for m in material:
                for x in _deep(m):
                    if isinstance(x, Sym):
                        reach.add(x.path)
            # every child of the replaced node must reach the replacement (whole node handed to the extractor counts)
            whole = any(x == Sym(p_node) for c in ecalls for x in c[2])
            for attr in child_attrs(cls_name):
                pth = '%s.%s' % (p_node, attr)
                if whole or pth in reach or any(r.startswith(pth + '[*]') or r.startswith(pth + '.') for r in reach):
                    continue
                prob.append((K('%s:child:%s' % (vname, attr)), fn.lineno,
                             '%s replaces the %s by a switch that no longer contains its child `%s`: that part of the program is silently dropped' % (vname, cls_name, attr)))
            for sw in switches:
                t = sw.kw.get('test', UNK)
                if t != res_syms[1]:
                    prob.append((K('%s:test' % vname), sw.node.lineno, '%s switches on %r, not on the common variable returned by %s' % (vname, t, common)))
                cases = sw.kw.get('cases', UNK)
                if not isinstance(cases, list) or not cases:
                    raise AnalysisError('%s.%s: cases of the SwitchStatNode are not decidable (%r)' % (qual, vname, cases))
                for case in cases:
                    if not isinstance(case, Cons) or case.cls != 'SwitchCaseNode':
                        raise AnalysisError('%s.%s: a case of the SwitchStatNode is %r' % (qual, vname, case))
                    if case.kw.get('conditions', UNK) != res_syms[2]:
                        prob.append((K('%s:case-conditions' % vname), case.node.lineno, '%s builds a case from %r, not from the case values returned by %s' % (vname, case.kw.get('conditions'), common)))
                    body = case.kw.get('body', UNK)
                    conds = [c[2][1] for c in ecalls if len(c[2]) > 1]
                    ok = isinstance(body, Sym) and body.path.endswith('.body') and any(isinstance(x, Sym) and x.path == body.path[:-len('.body')] + '.condition' for x in conds)
                    if not ok:
                        prob.append((K('%s:case-body' % vname), case.node.lineno, '%s pairs the case labels extracted from %r with the body %r: not the body of the clause the condition belongs to'
                                     % (vname, conds, body)))
            for c in bcalls:
                site_calls.setdefault(c[1][5:], []).append((vname, cls_name, p_node, c))
        inst.append((K('%s:replacement' % vname), '%s: %d path(s) build a switch, polarity %s' % (vname, n_paths, 'used' if pol_used else 'discarded')))
    for bname, fn in sorted(builders.items()):
        bparams = [a.arg for a in fn.args.args][1:]
        calls = site_calls.get(bname, [])
        if not calls:
            continue
        # parameter roles from the call sites
        roles = {}
        for vname, cls_name, p_node, c in calls:
            for i, a in enumerate(c[2]):
                for j, what in enumerate(('pol', 'var', 'conds')):
                    if a == res_syms[j]:
                        roles.setdefault(what, set()).add(i)
        if any(len(roles.get(w, ())) != 1 for w in ('pol', 'var', 'conds')):
            for vname, cls_name, p_node, c in calls:
                prob.append((K('%s:%s:args' % (vname, bname)), c[4].lineno, '%s does not hand polarity, variable and case values of %s to %s in consistent positions (%r)' % (vname, common, bname, c[2])))
            continue
        i_pol, i_var, i_conds = (next(iter(roles[w])) for w in ('pol', 'var', 'conds'))
        table = {}
        for pol in (False, True):
            env = dict(base)
            env[bparams[i_pol]] = pol
            pe = PyEval(fn, env)
            outs = [(sig, st, v) for sig, st, v in pe.run() if sig == 'return']
            if len(outs) != 1:
                raise AnalysisError('%s.%s: %d paths for polarity %r (expected a straight-line builder)' % (qual, bname, len(outs), pol))
            st = outs[0][1]
            sws = _conses(st, 'SwitchStatNode')
            if len(sws) != 1:
                raise AnalysisError('%s.%s builds %d SwitchStatNodes' % (qual, bname, len(sws)))
            sw = sws[0]
            cases = sw.kw.get('cases', UNK)
            if not (isinstance(cases, list) and len(cases) == 1 and isinstance(cases[0], Cons)):
                raise AnalysisError('%s.%s: cases not decidable (%r)' % (qual, bname, cases))

            def source(body):
                if isinstance(body, Cons):
                    r = body.kw.get('rhs', UNK)
                    if isinstance(r, Sym) and r.path in bparams:
                        return r.path, body.kw.get('lhs', UNK)
                raise AnalysisError('%s.%s: body %r is not an assignment of one of the value parameters' % (qual, bname, body))
            table[pol] = (source(cases[0].kw.get('body', UNK)), source(sw.kw.get('else_clause', UNK)))
            if cases[0].kw.get('conditions', UNK) != Sym(bparams[i_conds]):
                prob.append((K('%s:conditions' % bname), sw.node.lineno, '%s builds its case from %r, not from its parameter %s' % (bname, cases[0].kw.get('conditions'), bparams[i_conds])))
            if sw.kw.get('test', UNK) != Sym(bparams[i_var]):
                prob.append((K('%s:test' % bname), sw.node.lineno, '%s switches on %r, not on its parameter %s' % (bname, sw.kw.get('test'), bparams[i_var])))
            (m, ml), (e, el) = table[pol]
            if ml is UNK or ml is not el:
                prob.append((K('%s:result' % bname), sw.node.lineno, '%s stores the two alternative values into different targets (%r / %r)' % (bname, ml, el)))
        (m0, _), (e0, _) = table[False]
        (m1, _), (e1, _) = table[True]
        inst.append((K('%s:bodies' % bname), '%s: match -> %s, default -> %s; negated: match -> %s, default -> %s' % (bname, m0, e0, m1, e1)))
        if m0 == e0 or not (m1 == e0 and e1 == m0):
            prob.append((K('%s:bodies' % bname), fn.lineno,
                         '%s: for %s=False the cases store %s and the default stores %s; for %s=True the cases store %s and the default %s - a negated condition (`x != 1 and x != 2`, '
                         '`x not in ...`) must exchange exactly these two' % (bname, bparams[i_pol], m0, e0, bparams[i_pol], m1, e1)))
            continue
        i_match, i_else = bparams.index(m0), bparams.index(e0)
        for vname, cls_name, p_node, c in calls:
            am = c[2][i_match] if len(c[2]) > i_match else UNK
            ae = c[2][i_else] if len(c[2]) > i_else else UNK
            key = K('%s:%s:values' % (vname, bname))
            inst.append((key, '%s -> %s(%s=%r, %s=%r)' % (vname, bname, m0, am, e0, ae)))
            if cls_name in VALUE_CHILDREN:
                tv, fv = VALUE_CHILDREN[cls_name]
                if am != Sym('%s.%s' % (p_node, tv)) or ae != Sym('%s.%s' % (p_node, fv)):
                    prob.append((key, c[4].lineno, '%s hands %r as the value of the matching cases and %r as the default value; a %s yields `%s` when its condition holds and `%s` otherwise'
                                 % (vname, am, ae, cls_name, tv, fv)))
            else:
                ok = isinstance(am, Cons) and am.cls == 'BoolNode' and am.kw.get('value') is True and isinstance(ae, Cons) and ae.cls == 'BoolNode' and ae.kw.get('value') is False
                if not ok:
                    prob.append((key, c[4].lineno, '%s replaces a boolean expression by a switch whose matching cases yield %r and whose default yields %r instead of True / False' % (vname, am, ae)))
    return inst, prob


POLAR_CONTROL = '''
class T:
    NO_MATCH = (None, None, None)
    def extract_conditions(self, cond, allow_not_in):
        if isinstance(cond, ExprNodes.PrimaryCmpNode):
            if cond.operator == '==':
                not_in = False
            elif cond.operator == '!=':
                not_in = True
            else:
                return self.NO_MATCH
            return not_in, cond.operand1, [cond.operand2]
        return self.NO_MATCH
    def extract_common_conditions(self, common_var, condition, allow_not_in):
        not_in, var, conditions = self.extract_conditions(condition, True)
        if var is None:
            return self.NO_MATCH
        return not_in, var, conditions
    def visit_CondExprNode(self, node):
        not_in, common_var, conditions = self.extract_common_conditions(None, node.condition, True)
        if common_var is None:
            return node
        return self.build(node, common_var, conditions, not_in, node.false_val, node.true_val)
    def build(self, node, common_var, conditions, not_in, true_val, false_val):
        r = UtilNodes.ResultRefNode(node)
        a = Nodes.SingleAssignmentNode(node.pos, lhs=r, rhs=true_val)
        b = Nodes.SingleAssignmentNode(node.pos, lhs=r, rhs=false_val)
        cases = [Nodes.SwitchCaseNode(pos=node.pos, conditions=conditions, body=a)]
        return Nodes.SwitchStatNode(pos=node.pos, test=common_var, cases=cases, else_clause=b)
'''


def rule_polar(ctx):
    ix = ctx.index
    cls = ix.cls('Optimize', 'SwitchTransform')
    rel = cls.module.rel
    r = Rule('C19-POLAR', 'polarity protocol of the switch rewrite: extract_conditions reports ==/in as not_in=False and !=/not in as not_in=True (nothing else), negated matches only when the caller '
             'allows them, never for chained comparisons; the wrapper forwards flag and polarity; visitors that discard the polarity forbid negation, the others hand it to the builder, which '
             'exchanges the case body and the default body exactly for negated matches; every child of the replaced node reaches the switch', floor=13)

    def child_attrs(cname):
        for mod in ('Nodes', 'ExprNodes'):
            try:
                c = ix.cls(mod, cname)
            except Exception:
                c = None
            if c is not None:
                for attr in ('child_attrs', 'subexprs'):
                    got = ix.class_list_attr(c, attr)
                    if got is not None and got[1] is not None:
                        return list(got[1])
                raise AnalysisError('children of node class %s are not a literal list' % cname)
        raise AnalysisError('node class %s of a SwitchTransform visitor not found' % cname)
    nm = cls.attrs.get('NO_MATCH')
    nmv = tables.literal(nm) if nm is not None else None
    if not isinstance(nmv, tuple) or len(nmv) != 3:
        raise AnalysisError('SwitchTransform.NO_MATCH is not a literal triple')
    inst, prob = polar_analysis(cls.methods, child_attrs, no_match_value=nmv)
    for key, sample in inst:
        r.inst(key, sample=sample)
    seen = set()
    for key, line, text in prob:
        if key in seen:
            continue
        seen.add(key)
        r.violate(key, rel, line, text)
    pc = ast.parse(POLAR_CONTROL).body[0]
    _, cprob = polar_analysis({f.name: f for f in pc.body if isinstance(f, ast.FunctionDef)}, lambda c: ['condition', 'true_val', 'false_val'], qual='T')
    keys = {k for k, _, _ in cprob}
    r.positive_control({'T.extract_conditions:!=:gate', 'T.extract_conditions:cascade', 'T.extract_common_conditions:forward', 'T.build:bodies'} <= keys,
                       'extractor without negation gate / cascade test, wrapper that does not forward the flag, builder that ignores the polarity')
    return r


# ===================================================================================================== C19-CASE
def _emission_trace(fn):
    """-> list of paths; a path = (facts, [token]) with token = ('put', normalised C text with § for computed parts, call node)
    | ('gen', receiver value, method name, call node)"""
    from .iface import str_template, PLACEHOLDER
    pe = PyEval(fn, {})
    out = []
    for sig, st, v in pe.run():
        if sig == 'raise':
            continue
        toks = []
        for e in st.events:
            if e[0] != 'call':
                continue
            node = e[4]
            f = node.func
            if not isinstance(f, ast.Attribute):
                continue
            if f.attr in ('putln', 'put') and node.args:
                t = str_template(node.args[0])
                if t is None:
                    toks.append(('put', None, node))
                else:
                    toks.append(('put', ' '.join(t[0].replace(PLACEHOLDER, '§').split()), node))
            elif f.attr.startswith('generate_') and f.attr.endswith('_code'):
                toks.append(('gen', e[5] if len(e) > 5 else UNK, f.attr, node))
        out.append((st, toks))
    return out


def case_analysis(case_fn, stat_fn, case_children, qual_case='Nodes.SwitchCaseNode', qual_stat='Nodes.SwitchStatNode'):
    inst, prob = [], []
    # ---- SwitchCaseNode.generate_execution_code
    from .iface import str_template, PLACEHOLDER
    kc = lambda w: '%s.%s:%s' % (qual_case, case_fn.name, w)
    label_loops = []
    for n in walk_no_nested(case_fn):
        if isinstance(n, ast.For):
            for c in ast.walk(n):
                if isinstance(c, ast.Call) and isinstance(c.func, ast.Attribute) and c.func.attr in ('putln', 'put') and c.args:
                    t = str_template(c.args[0])
                    if t and re.match(r'\s*case\b', t[0]):
                        label_loops.append(n)
                        break
    if not label_loops:
        raise AnalysisError('%s.%s emits no `case` label inside a loop over the conditions' % (qual_case, case_fn.name))
    for lp in label_loops:
        it = lp.iter
        if isinstance(it, ast.Call) and isinstance(it.func, ast.Name) and it.func.id == 'enumerate' and it.args:
            it = it.args[0]
        inst.append((kc('labels'), 'case labels are emitted in a loop over %s' % node_src(it)))
        if not (is_self_attr(it) and it.attr in case_children):
            prob.append((kc('labels'), lp.lineno, '%s emits `case` labels for %s, not for every element of a condition list of the node (%s): values without a label fall to the default branch'
                         % (case_fn.name, node_src(it), ', '.join(case_children))))
    paths = _emission_trace(case_fn)
    n = 0
    for st, toks in paths:
        bodies = [i for i, t in enumerate(toks) if t[0] == 'gen' and t[2] == 'generate_execution_code' and t[1] == Sym('self.body')]
        if not bodies:
            prob.append((kc('body'), case_fn.lineno, '%s has a path that emits no code for the body of the case' % case_fn.name))
            continue
        n += 1
        b = bodies[-1]
        after = [t for t in toks[b + 1:] if t[0] == 'put']
        if not any(t[1] is not None and re.match(r'^break\s*;', t[1]) for t in after):
            prob.append((kc('break'), toks[b][3].lineno, '%s emits the case body without a following `break;`: execution falls through into the body of the next case (and of the default branch)' % case_fn.name))
        if any(t[1] is not None and re.match(r'^case\b', t[1]) for t in after):
            prob.append((kc('label-after-body'), toks[b][3].lineno, '%s emits a `case` label after the body: those values run no body of this case' % case_fn.name))
    inst.append((kc('break'), '%s: %d path(s) emit the body followed by break' % (case_fn.name, n)))
    # ---- SwitchStatNode.generate_execution_code
    ks = lambda w: '%s.%s:%s' % (qual_stat, stat_fn.name, w)
    paths = _emission_trace(stat_fn)
    if not paths:
        raise AnalysisError('%s.%s: no path' % (qual_stat, stat_fn.name))
    n = 0
    for st, toks in paths:
        opens = [i for i, t in enumerate(toks) if t[0] == 'put' and t[1] is not None and re.match(r'^switch \(.*\) \{$', t[1])]
        closes = [i for i, t in enumerate(toks) if t[0] == 'put' and t[1] == '}']
        if len(opens) != 1 or not closes or closes[-1] < opens[0]:
            prob.append((ks('braces'), stat_fn.lineno, '%s has a path on which `switch (...) {` is not opened exactly once and closed afterwards' % stat_fn.name))
            continue
        o, c = opens[0], closes[-1]
        n += 1
        ev_test = [i for i, t in enumerate(toks) if t[0] == 'gen' and t[2] == 'generate_evaluation_code' and t[1] == Sym('self.test')]
        if not ev_test or ev_test[0] > o:
            prob.append((ks('test'), toks[o][2].lineno, '%s opens the switch before the code that evaluates the switch variable was emitted' % stat_fn.name))
        cases = [i for i, t in enumerate(toks) if t[0] == 'gen' and t[2] == 'generate_execution_code' and isinstance(t[1], Sym) and t[1].path.startswith('self.cases')]
        if not cases or not all(o < i < c for i in cases):
            prob.append((ks('cases'), toks[o][2].lineno, '%s does not emit the code of the cases between `switch (...) {` and the closing brace' % stat_fn.name))
        elses = [i for i, t in enumerate(toks) if t[0] == 'gen' and t[2] == 'generate_execution_code' and t[1] == Sym('self.else_clause')]
        has_else = st.env.get('self.else_clause', UNK)
        if has_else is None:
            continue
        if not elses:
            prob.append((ks('else'), stat_fn.lineno, '%s has a path with an else clause on which no code is emitted for it' % stat_fn.name))
            continue
        e = elses[0]
        if not (o < e < c):
            prob.append((ks('else'), toks[e][3].lineno, '%s emits the else body outside the switch braces' % stat_fn.name))
            continue
        # the else body must directly follow a `default:` label (nothing but labels in between), and nothing may fall into / out of it
        before = [t for t in toks[o + 1:e]]
        last_label = None
        for j in range(e - 1, o, -1):
            t = toks[j]
            if t[0] == 'put' and t[1] is not None and re.match(r'^default\s*:$', t[1]):
                last_label = j
                break
            if t[0] == 'gen' or (t[0] == 'put' and t[1] is not None and re.match(r'^(break\s*;|\})', t[1])):
                break
        if last_label is None:
            prob.append((ks('default'), toks[e][3].lineno, '%s emits the else body without a `default:` label in front of it: after the `break;` of the last case the code is unreachable, '
                         'the else branch of the if/elif chain never runs' % stat_fn.name))
        later_cases = [i for i in cases if i > e]
        if later_cases and not any(t[0] == 'put' and t[1] is not None and re.match(r'^break\s*;', t[1]) for t in toks[e + 1:later_cases[0]]):
            prob.append((ks('default-break'), toks[e][3].lineno, '%s emits cases after the default body without a `break;` in between' % stat_fn.name))
    inst.append((ks('structure'), '%s: %d path(s): evaluation, switch (..) {, cases, default, }' % (stat_fn.name, n)))
    return inst, prob


CASE_CONTROL = '''
class C:
    def generate_execution_code(self, code):
        for cond in self.conditions[1:]:
            code.putln("case %s:" % cond.result())
        self.body.generate_execution_code(code)
class S:
    def generate_execution_code(self, code):
        self.test.generate_evaluation_code(code)
        code.putln("switch (%s) {" % self.test.result())
        for case in self.cases:
            case.generate_execution_code(code)
        if self.else_clause is not None:
            self.else_clause.generate_execution_code(code)
        code.putln("}")
'''


def rule_case(ctx):
    ix = ctx.index
    cc = ix.cls('Nodes', 'SwitchCaseNode')
    sc = ix.cls('Nodes', 'SwitchStatNode')
    r = Rule('C19-CASE', 'emitted C switch: a `case` label for every condition of a case, the body followed by `break;`, cases inside `switch (..) { }` opened after the switch variable was evaluated, '
             'the else body directly behind a `default:` label', floor=2)
    got = ix.class_list_attr(cc, 'child_attrs')
    children = [a for a in (got[1] if got and got[1] else []) if a != 'body']
    if not children:
        raise AnalysisError('SwitchCaseNode.child_attrs lists no condition list')
    inst, prob = case_analysis(_method(cc, 'generate_execution_code'), _method(sc, 'generate_execution_code'), children)
    for key, sample in inst:
        r.inst(key, sample=sample)
    seen = set()
    for key, line, text in prob:
        if key not in seen:
            seen.add(key)
            r.violate(key, cc.module.rel, line, text)
    pc = ast.parse(CASE_CONTROL).body
    _, cp = case_analysis(pc[0].body[0], pc[1].body[0], ['conditions'], 'C', 'S')
    keys = {k.split(':')[-1] for k, _, _ in cp}
    r.positive_control({'labels', 'break', 'default'} <= keys, 'labels for a slice of the conditions, body without break, else body without default label')
    return r


# ===================================================================================================== C19-CONN
MEMBERSHIP_OPS = ('in', 'not_in')


def _const_operator(c):
    v = c.kw.get('operator', UNK)
    return v if isinstance(v, str) else None


def _nots(v):
    """(number of NotNode wrappers, innermost value)"""
    n = 0
    while isinstance(v, Cons) and v.cls == 'NotNode':
        n += 1
        v = v.kw.get('operand', v.args[1] if len(v.args) > 1 else UNK)
    return n, v


def _is_emptiness_path(st):
    for src, truth in st.facts:
        s = src.replace(' ', '')
        if truth and re.match(r'^len\(.*\)==0$', s):
            return True
        if not truth and re.match(r'^len\(.*\)(>0|!=0)?$', s):
            return True
    return any(k.endswith('@falsy') for k in st.env)


def _bool_const(v):
    if isinstance(v, Cons) and v.cls == 'BoolNode' and isinstance(v.kw.get('value'), bool):
        return v.kw['value']
    return None


def membership_rewrite_table(fn, p_node, chain_guard=None):
    """Partial evaluation of a transform method for node.operator in / not_in
    -> {op: [dict(kind='flat'|'loop'|'const', ...)]} describing every replacement it can return"""
    table = {}
    for op in MEMBERSHIP_OPS:
        pe = PyEval(fn, {p_node + '.operator': op})
        pe.preserving_self = {'visit'}
        rows = []
        for sig, st, v in pe.run():
            if sig != 'return' or v == Sym(p_node) or v is UNK and not st.events:
                continue
            neg, inner = _nots(v)
            k = _bool_const(inner)
            chain_free = st.env.get(p_node + '.cascade', UNK) is None
            if not chain_free and chain_guard is not None:
                # predicates of the node that hold on this path and for which type analysis rejects a chained comparison
                for src, truth in st.facts:
                    src = src.strip()
                    while src.startswith('not '):
                        src, truth = src[4:].strip(), not truth
                        if src.startswith('(') and src.endswith(')'):
                            src = src[1:-1].strip()
                    mm = re.match(r'^%s\.(\w+)\(\)$' % re.escape(p_node), src)
                    if mm and truth and chain_guard(mm.group(1)):
                        chain_free = True
            if k is not None:
                rows.append(dict(kind='const', value=(k != bool(neg % 2)), empty=_is_emptiness_path(st), line=inner.node.lineno, chain_free=chain_free))
                continue
            loops = _conses(st, 'ForInStatNode')
            cmps = [c for c in _conses(st, 'PrimaryCmpNode') if _const_operator(c) in ('==', '!=')]
            conns = [c for c in _conses(st, 'BoolBinopNode')]
            if loops:
                lp = loops[-1]
                row = dict(kind='loop', neg=neg % 2, line=lp.node.lineno, found=None, absent=None, brk=False, eq=None, chain_free=chain_free)
                body = lp.kw.get('body', UNK)
                clauses = body.kw.get('if_clauses', UNK) if isinstance(body, Cons) and body.cls == 'IfStatNode' else UNK
                if isinstance(clauses, list) and len(clauses) == 1 and isinstance(clauses[0], Cons):
                    cond = clauses[0].kw.get('condition', UNK)
                    row['eq'] = _const_operator(cond) if isinstance(cond, Cons) else None
                    for x in _deep(clauses[0].kw.get('body', UNK)):
                        if isinstance(x, Cons) and x.cls == 'BreakStatNode':
                            row['brk'] = True
                        if isinstance(x, Cons) and x.cls == 'SingleAssignmentNode' and _bool_const(x.kw.get('rhs', UNK)) is not None:
                            row['found'] = _bool_const(x.kw['rhs'])
                els = lp.kw.get('else_clause', UNK)
                if isinstance(els, Cons) and els.cls == 'SingleAssignmentNode':
                    row['absent'] = _bool_const(els.kw.get('rhs', UNK))
                rows.append(row)
            elif cmps and (conns or not isinstance(inner, Cons) or True):
                ops = {_const_operator(c) for c in cmps}
                cops = {_const_operator(c) for c in conns}
                rows.append(dict(kind='flat', neg=neg % 2, eq=ops, conn=cops, line=cmps[0].node.lineno, chain_free=chain_free))
        table[op] = rows
    return table


def conn_membership_problems(name, fn, p_node, chain_guard=None):
    inst, prob = [], []
    table = membership_rewrite_table(fn, p_node, chain_guard)
    for op in MEMBERSHIP_OPS:
        want_in = (op == 'in')
        for row in table[op]:
            key = '%s:%s:%s' % (name, op, row['kind'])
            inst.append(('%s:cascade' % name, '%s replaces the membership test only when it is not the head of a chain' % name))
            if not row['chain_free']:
                prob.append(('%s:cascade' % name, row['line'], '%s replaces `x %s c` by a node built from its two operands on a path that never established `%s.cascade is None`: the remaining '
                             'links of a chained comparison (`x in (1, 2) == y`) are dropped' % (name, op.replace('_', ' '), p_node)))
            if row['kind'] == 'const':
                inst.append((key, '%s answers `x %s <empty>` with the constant %r' % (name, op.replace('_', ' '), row['value'])))
                if not row['empty']:
                    continue        # a constant answer not tied to an emptiness test is outside this obligation
                if row['value'] != (not want_in):
                    prob.append((key, row['line'], '%s answers `x %s <empty display>` with %r: nothing is in an empty container, so `in` must give False and `not in` True'
                                 % (name, op.replace('_', ' '), row['value'])))
            elif row['kind'] == 'flat':
                inst.append((key, '%s: %s -> %s%s joined by %s' % (name, op, 'not ' if row['neg'] else '', sorted(row['eq']), sorted(x or '?' for x in row['conn']))))
                if len(row['eq']) != 1 or len(row['conn']) > 1 or None in row['conn']:
                    prob.append((key, row['line'], '%s builds per-element comparisons with operators %s joined by %s for `%s`: not one decidable connective' % (name, sorted(row['eq']), row['conn'], op)))
                    continue
                eq = next(iter(row['eq']))
                conn = next(iter(row['conn'])) if row['conn'] else None
                # membership = exists e: x == e.   [not]^neg  CONN_e (x EQ e)
                if conn is None:
                    means_in = (eq == '==') != bool(row['neg'])
                    ok = means_in == want_in
                else:
                    is_exists = (eq == '==' and conn == 'or')
                    is_forall_ne = (eq == '!=' and conn == 'and')
                    if not (is_exists or is_forall_ne):
                        prob.append((key, row['line'], '%s rewrites `x %s (a, b)` into `x %s a %s x %s b`: membership is "some element equals x" (== joined by or), its negation "every element '
                                     'differs" (!= joined by and); this form is neither' % (name, op.replace('_', ' '), eq, conn, eq)))
                        continue
                    means_in = is_exists != bool(row['neg'])
                    ok = means_in == want_in
                if not ok:
                    prob.append((key, row['line'], '%s rewrites `x %s (a, b)` into %s`x %s a %s x %s b`, which is the meaning of `%s`' % (
                        name, op.replace('_', ' '), 'not ' if row['neg'] else '', eq, conn or '', eq, 'not in' if want_in else 'in')))
            else:
                inst.append((key, '%s: %s -> search loop (test %s, found -> %r%s, exhausted -> %r)%s' % (name, op, row['eq'], row['found'], ' + break' if row['brk'] else '', row['absent'], ', negated' if row['neg'] else '')))
                if row['eq'] != '==' or row['found'] is None or row['absent'] is None:
                    prob.append((key, row['line'], '%s replaces `x %s <C array>` by a search loop whose test is %r and whose results are %r / %r: membership needs an == test and two constant results'
                                 % (name, op.replace('_', ' '), row['eq'], row['found'], row['absent'])))
                    continue
                if not row['brk']:
                    prob.append((key + ':break', row['line'], '%s: the search loop stores %r on a hit but does not leave the loop; the for-else clause then overwrites the result with %r: the answer never depends on the elements'
                                 % (name, row['found'], row['absent'])))
                    continue
                found, absent = row['found'] != bool(row['neg']), row['absent'] != bool(row['neg'])
                if (found, absent) != (want_in, not want_in):
                    prob.append((key, row['line'], '%s: `x %s <C array>` yields %r when an element equals x and %r when none does' % (name, op.replace('_', ' '), found, absent)))
    return inst, prob


def _membership_rewriters(ix, modules=('Optimize',)):
    """(module, qualname, fn, node parameter) of visitor methods that test <node>.operator against in / not_in and build comparison nodes"""
    out = []
    for ms in modules:
        m = ix.mod(ms)
        for qn, owner, fn in ix.functions_of(m):
            params = [a.arg for a in fn.args.args]
            if len(params) < 2 or not fn.name.startswith('visit_'):
                continue
            p = params[1]
            tests = any(isinstance(n, ast.Compare) and isinstance(n.left, ast.Attribute) and n.left.attr == 'operator' and isinstance(n.left.value, ast.Name) and n.left.value.id == p and
                        any(tables.literal(c) in MEMBERSHIP_OPS for c in n.comparators) for n in walk_no_nested(fn))
            builds = any(isinstance(n, ast.Call) and (getattr(n.func, 'attr', None) or getattr(n.func, 'id', None)) == 'PrimaryCmpNode' and
                         any(k.arg == 'operator' and isinstance(k.value, (ast.Constant, ast.Name)) for k in n.keywords) for n in ast.walk(fn))
            if tests and builds:
                out.append((m, qn, fn, p))
    return out


CONN_CONTROL = '''
def visit_PrimaryCmpNode(self, node):
    if node.operator == 'in':
        joiner, test = 'and', '=='
    elif node.operator == 'not_in':
        joiner, test = 'and', '!='
    else:
        return node
    args = node.operand2.args
    if len(args) == 0:
        return ExprNodes.BoolNode(node.pos, value=node.operator == 'in')
    conds = []
    for arg in args:
        conds.append(ExprNodes.PrimaryCmpNode(pos=node.pos, operand1=node.operand1, operator=test, operand2=arg))
    def concat(a, b):
        return ExprNodes.BoolBinopNode(pos=node.pos, operator=joiner, operand1=a, operand2=b)
    return reduce(concat, conds)
'''


def rule_conn(ctx):
    ix = ctx.index
    r = Rule('C19-CONN', 'operator-dependent constants of the transforms that split a comparison: `in` on a display = == joined by or, `not in` = != joined by and; empty display -> False / True; '
             'C array search loop (== test, True + break on a hit, False when exhausted, negated for not in); split chains are joined by and; the ! prefix of the complex equality helper and the '
             'Eq/Ne token of the numeric helper and the op / c_op of the PyObjectCompare instantiation follow the operator', floor=19)
    from .iface import const_strs, local_env
    sites = _membership_rewriters(ix)
    if len(sites) < 2:
        raise AnalysisError('membership rewriting transforms not found (FlattenInListTransform / IterationTransform.visit_PrimaryCmpNode)')
    seen = set()

    counted = set()

    def report(rel, inst, prob):
        for key, sample in inst:
            if key not in counted:
                counted.add(key)
                r.inst(key, sample=sample)
        for key, line, text in prob:
            if key not in seen:
                seen.add(key)
                r.violate(key, rel, line, text)
    n_rows = 0
    pcmp_cls = ix.cls('ExprNodes', 'PrimaryCmpNode')
    analyse = _method(pcmp_cls, 'analyse_types')
    guard_cache = {}

    def chain_guard(pred):
        """True when PrimaryCmpNode.analyse_types reports a compile error on every path with self.<pred>() true and a cascade present"""
        if pred not in guard_cache:
            ok, n = True, 0
            for sig, st, v in PyEval(analyse, {}).run():
                facts = {(src.strip(), truth) for src, truth in st.facts}
                if ('self.%s()' % pred, True) in facts and isinstance(st.env.get('self.cascade'), Sym) and st.env['self.cascade'].truthy:
                    n += 1
                    if not any(e[0] == 'call' and e[1] == 'error' for e in st.events):
                        ok = False
            guard_cache[pred] = ok and n > 0
        return guard_cache[pred]
    for m, qn, fn, p in sites:
        inst, prob = conn_membership_problems('%s.%s' % (m.short, qn), fn, p, chain_guard)
        n_rows += len({k for k, _ in inst})
        report(m.rel, inst, prob)
    if n_rows < 5:
        raise AnalysisError('only %d membership replacement forms were decidable' % n_rows)
    # ---- chains split into several comparisons are joined by `and` (language reference 6.10: a op1 b op2 c == a op1 b and b op2 c)
    m = ix.mod('Optimize')
    for qn, owner, fn in ix.functions_of(m):
        walks_chain = any(isinstance(n, ast.While) for n in walk_no_nested(fn)) and any(isinstance(n, ast.Attribute) and n.attr == 'cascade' for n in walk_no_nested(fn))
        builds_cmp = any(isinstance(n, ast.Call) and (getattr(n.func, 'attr', None) or getattr(n.func, 'id', None)) == 'PrimaryCmpNode' for n in walk_no_nested(fn))
        if not (walks_chain and builds_cmp):
            continue
        env = local_env(fn)
        for n in walk_no_nested(fn):
            if isinstance(n, ast.Call) and (getattr(n.func, 'attr', None) or getattr(n.func, 'id', None)) == 'BoolBinopNode':
                opk = [k.value for k in n.keywords if k.arg == 'operator']
                ops = const_strs(opk[0], env) if opk else None
                key = 'Optimize.%s:chain-join' % qn
                r.inst(key, sample='%s joins the comparisons split off a chain with %s' % (qn, sorted(ops) if ops else '?'))
                if ops != {'and'}:
                    r.violate(key, m.rel, n.lineno, '%s splits a chained comparison into separate comparisons and joins them with %s: `a < 1 < 2 < b` means `a < 1 and 2 < b`'
                              % (qn, sorted(ops) if ops else 'an operator that is not a constant'))
    # ---- constant folding of membership in an empty display, complex != negation, numeric helper token (ExprNodes.CmpNode)
    cmp = ix.cls('ExprNodes', 'CmpNode')
    pcmp = ix.cls('ExprNodes', 'PrimaryCmpNode')
    rel = cmp.module.rel
    fold = _method(cmp, 'calculate_cascaded_constant_result')
    n_empty = 0
    for op in MEMBERSHIP_OPS:
        for sig, st, v in PyEval(fold, {'self.operator': op}).run():
            k = st.env.get('self.constant_result', UNK)
            if sig == 'return' and isinstance(k, bool) and _is_emptiness_path(st):
                n_empty += 1
                key = 'ExprNodes.CmpNode.%s:%s:empty' % (fold.name, op)
                r.inst(key, sample='%s folds `x %s <empty>` to %r' % (fold.name, op, k))
                if k != (op == 'not_in') and key not in seen:
                    seen.add(key)
                    r.violate(key, rel, fold.lineno, '%s folds `x %s <empty container>` to %r: `in` must give False and `not in` True' % (fold.name, op.replace('_', ' '), k))
    if not n_empty:
        r.info('calculate_cascaded_constant_result has no constant answer for empty containers any more')
    # negation prefix in front of the complex equality helper
    n_neg = 0
    for c, fname, opvar in ((cmp, 'generate_operation_code', None), (pcmp, 'calculate_result_code', 'self.operator')):
        fn = c.methods.get(fname)
        if fn is None:
            continue
        params = [a.arg for a in fn.args.args]
        var = opvar or ('op' if 'op' in params else None)
        if var is None:
            continue
        got = {}
        for op in ('==', '!='):
            for sig, st, v in PyEval(fn, {var: op}).run():
                vals = [v] + [a for e in st.events if e[0] == 'call' for a in e[2]]
                for f in vals:
                    if not isinstance(f, Fmt):
                        continue
                    for i, nd in enumerate(f.nodes):
                        if isinstance(nd, ast.Call) and isinstance(nd.func, ast.Attribute) and nd.func.attr in ('unary_op', 'binary_op') and nd.args and \
                                tables.literal(nd.args[0]) in ('eq', '==') and i > 0:
                            # is the previous part glued to this one?
                            segs = f.text.split('§')
                            if segs[i] == '' and isinstance(f.parts[i - 1], str):
                                got.setdefault(op, set()).add(f.parts[i - 1])
        if got:
            n_neg += 1
            key = 'ExprNodes.%s.%s:complex-negation' % (c.name, fname)
            r.inst(key, sample='%s: prefix of the complex equality helper: %r' % (fname, {k: sorted(v) for k, v in got.items()}))
            if got.get('==') != {''} or got.get('!=') != {'!'}:
                r.violate(key, rel, fn.lineno, '%s emits the complex equality helper with prefix %r for `==` and %r for `!=`: `!` must negate exactly the `!=` comparison'
                          % (fname, sorted(got.get('==', [])), sorted(got.get('!=', []))))
    if not n_neg:
        r.info('no complex equality helper emission found in CmpNode')
    # Eq / Ne token handed to the numeric helper factory
    finder = _method(cmp, 'find_special_bool_compare_function')
    n_tok = 0
    for op, want in (('==', 'Eq'), ('!=', 'Ne')):
        toks = set()
        for sig, st, v in PyEval(finder, {'self.operator': op}).run():
            for e in st.events:
                if e[0] == 'call' and e[1].endswith('optimise_numeric_binop') and e[2]:
                    toks.add(e[2][0] if isinstance(e[2][0], str) else None)
        if toks:
            n_tok += 1
            key = 'ExprNodes.CmpNode.%s:numeric-helper:%s' % (finder.name, op)
            r.inst(key, sample='%s asks optimise_numeric_binop for %s when the operator is %s' % (finder.name, sorted(str(t) for t in toks), op))
            if toks != {want}:
                r.violate(key, rel, finder.lineno, '%s asks optimise_numeric_binop for the %s helper when the operator is `%s` (expected %s): `x %s 5` is answered by the opposite test'
                          % (finder.name, sorted(str(t) for t in toks), op, want, op))
    if not n_tok:
        r.info('find_special_bool_compare_function no longer calls optimise_numeric_binop')
    # operator token / C operator handed to the PyObjectCompare template (its fallback uses Py_<OP>, its value comparisons use c_op)
    cfinder = _method(cmp, 'find_compare_function')
    rc_node = tables.module_assign(ix.mod('ExprNodes').tree, 'richcmp_constants')
    rc = tables.literal(rc_node) if rc_node is not None else None
    if not isinstance(rc, dict):
        raise AnalysisError('ExprNodes.richcmp_constants is not a literal dict')
    n_ctx = 0
    for op in ('==', '!=', '<', '<=', '>', '>='):
        for sig, st, v in PyEval(cfinder, {'self.operator': op}).run():
            for e in st.events:
                if e[0] == 'call' and e[1].endswith('load_cached') and isinstance(e[3].get('context'), dict) and 'op' in e[3]['context']:
                    c = e[3]['context']
                    n_ctx += 1
                    key = 'ExprNodes.CmpNode.%s:template-context:%s' % (cfinder.name, op)
                    if key not in counted:
                        counted.add(key)
                        r.inst(key, sample='%s instantiates PyObjectCompare with op=%r, c_op=%r for `%s`' % (cfinder.name, c.get('op'), c.get('c_op'), op))
                    tok = c.get('op')
                    bad = None
                    if c.get('c_op') != op:
                        bad = 'c_op=%r' % (c.get('c_op'),)
                    elif not isinstance(tok, str) or 'Py_' + tok.upper() != rc.get(op):
                        bad = 'op=%r (the template falls back to Py_%s, richcmp_constants[%r] is %s)' % (tok, str(tok).upper(), op, rc.get(op))
                    elif isinstance(v, Fmt) and tok not in [p for p in v.parts if isinstance(p, str)]:
                        bad = 'op=%r but a helper name %r that does not contain it' % (tok, v.text)
                    if bad and key not in seen:
                        seen.add(key)
                        r.violate(key, rel, e[4].lineno, '%s instantiates the object comparison template for operator `%s` with %s: the helper that is called computes a different relation' % (cfinder.name, op, bad))
    if not n_ctx:
        r.info('find_compare_function no longer instantiates the PyObjectCompare template')
    pc = ast.parse(CONN_CONTROL).body[0]
    _, cp = conn_membership_problems('T', pc, 'node')
    keys = {k for k, _, _ in cp}
    r.positive_control('T:in:flat' in keys and 'T:in:const' in keys and 'T:not_in:flat' not in keys, '`in` rewritten with and; empty display answered from the wrong operator')
    return r


# ===================================================================================================== C19-HAND
def hand_over_analysis(classes, callee_cls_name='CascadedCmpNode', method='generate_evaluation_code'):
    """classes: {class name: {method name: FunctionDef}}.  The link of a chained comparison receives the previous right operand
    together with a flag telling whether it still has to be evaluated."""
    inst, prob = [], []
    callee = classes[callee_cls_name].get(method)
    if callee is None:
        raise AnalysisError('%s.%s vanished' % (callee_cls_name, method))
    cparams = [a.arg for a in callee.args.args]
    # (operand parameter, flag parameter): the callee evaluates <operand>.generate_evaluation_code under `if <flag>`
    pair = None
    for n in walk_no_nested(callee):
        if isinstance(n, ast.If) and isinstance(n.test, ast.Name) and n.test.id in cparams:
            for c in ast.walk(n):
                if isinstance(c, ast.Call) and isinstance(c.func, ast.Attribute) and c.func.attr == method and isinstance(c.func.value, ast.Name) and c.func.value.id in cparams:
                    pair = (c.func.value.id, n.test.id)
    if pair is None:
        raise AnalysisError('%s.%s no longer evaluates a handed-over operand under a flag parameter' % (callee_cls_name, method))
    p_op, p_flag = pair
    i_op = cparams.index(p_op) - 1
    # callee: evaluation, disposal and release of the handed-over operand happen under the same flag values
    for flag in (True, False):
        for sig, st, v in PyEval(callee, {p_flag: flag}).run():
            if sig == 'raise':
                continue
            did = {m: any(e[0] == 'call' and e[4].func.attr == m and len(e) > 5 and e[5] == Sym(p_op) for e in st.events if isinstance(e[4].func, ast.Attribute) if e[0] == 'call')
                   for m in (method, 'generate_disposal_code', 'free_temps')}
            key = '%s.%s:%s=%s' % (callee_cls_name, method, p_flag, flag)
            inst.append((key, '%s(%s=%s): evaluates/disposes/frees %s: %s' % (method, p_flag, flag, p_op, did)))
            if did[method] != flag:
                prob.append((key, callee.lineno, '%s.%s %s the handed-over operand `%s` when %s=%s' % (callee_cls_name, method, 'does not evaluate' if flag else 'evaluates', p_op, p_flag, flag)))
            elif did['generate_disposal_code'] != flag or did['free_temps'] != flag:
                prob.append((key + ':dispose', callee.lineno, '%s.%s: the handed-over operand `%s` is evaluated %s but disposed %s / its temps freed %s (%s=%s)'
                             % (callee_cls_name, method, p_op, did[method], did['generate_disposal_code'], did['free_temps'], p_flag, flag)))
    # callers
    for cname, methods in sorted(classes.items()):
        fn = methods.get(method)
        if fn is None:
            continue
        n_calls = 0
        for co in (None, Sym('self.coerced_operand2', truthy=True)):
            for sig, st, v in PyEval(fn, {'self.coerced_operand2': co}).run():
                evaluated = []
                for e in st.events:
                    if e[0] != 'call' or not isinstance(e[4].func, ast.Attribute) or e[4].func.attr != method:
                        continue
                    recv = e[5] if len(e) > 5 else UNK
                    if recv == Sym('self.cascade'):
                        n_calls += 1
                        args, kw = e[2], e[3]
                        val = args[i_op] if len(args) > i_op else kw.get(p_op, UNK)
                        flag = kw.get(p_flag, args[cparams.index(p_flag) - 1] if len(args) > cparams.index(p_flag) - 1 else False)
                        key = '%s.%s:hand-over' % (cname, method)
                        inst.append((key, '%s hands %r to the next link with %s=%r (coerced copy %s)' % (cname, val, p_flag, flag, 'present' if co is not None else 'absent')))
                        if not isinstance(flag, bool) or not isinstance(val, Sym):
                            raise AnalysisError('%s.%s: operand / flag handed to the next link are not decidable (%r, %r)' % (cname, method, val, flag))
                        if flag and val in evaluated:
                            prob.append((key, e[4].lineno, '%s.%s hands %s to the next link with %s=True although it already emitted its evaluation: the middle operand of a chained comparison '
                                         'is evaluated twice' % (cname, method, val.path, p_flag)))
                        if not flag and val not in evaluated:
                            prob.append((key, e[4].lineno, '%s.%s hands %s to the next link with %s=False although no evaluation code was emitted for it: the next comparison reads an '
                                         'operand that was never computed' % (cname, method, val.path, p_flag)))
                    elif isinstance(recv, Sym):
                        evaluated.append(recv)
        if not n_calls:
            raise AnalysisError('%s.%s no longer hands its right operand to self.cascade' % (cname, method))
    return inst, prob


HAND_CONTROL = '''
class PrimaryCmpNode:
    def generate_evaluation_code(self, code):
        self.operand1.generate_evaluation_code(code)
        self.operand2.generate_evaluation_code(code)
        if self.cascade:
            self.cascade.generate_evaluation_code(code, self.result(), self.operand2, needs_evaluation=self.coerced_operand2 is not None)
class CascadedCmpNode:
    def generate_evaluation_code(self, code, result, operand1, needs_evaluation=False):
        if needs_evaluation:
            operand1.generate_evaluation_code(code)
        self.operand2.generate_evaluation_code(code)
        if self.cascade:
            self.cascade.generate_evaluation_code(code, result, self.coerced_operand2 or self.operand2, needs_evaluation=self.coerced_operand2 is not None)
        if needs_evaluation:
            operand1.generate_disposal_code(code)
            operand1.free_temps(code)
'''


def rule_hand(ctx):
    ix = ctx.index
    r = Rule('C19-HAND', 'chained comparisons: the right operand handed to the next link is flagged "needs evaluation" exactly when no evaluation code was emitted for it; the link evaluates, '
             'disposes and frees a handed-over operand under the same flag', floor=3)
    classes = {}
    for n in ('PrimaryCmpNode', 'CascadedCmpNode'):
        c = ix.cls('ExprNodes', n)
        classes[n] = c.methods
    inst, prob = hand_over_analysis(classes)
    counted = set()
    for key, sample in inst:
        if key not in counted:
            counted.add(key)
            r.inst(key, sample=sample)
    seen = set()
    for key, line, text in prob:
        if key not in seen:
            seen.add(key)
            r.violate('ExprNodes.' + key, ix.cls('ExprNodes', 'PrimaryCmpNode').module.rel, line, text)
    pc = ast.parse(HAND_CONTROL).body
    _, cp = hand_over_analysis({c.name: {f.name: f for f in c.body} for c in pc})
    r.positive_control(any(k == 'PrimaryCmpNode.generate_evaluation_code:hand-over' for k, _, _ in cp) and not any(k.startswith('CascadedCmpNode') for k, _, _ in cp),
                       'evaluated operand handed over with needs_evaluation=True')
    return r


# ===================================================================================================== CRun
class CInvalid(Exception):
    """the interpreted C code used an API in a way its contract forbids (wrong argument, wrong string kind, ...)"""


class CUnsupported(Exception):
    pass


class _Goto(Exception):
    def __init__(self, label):
        self.label = label


class _Return(Exception):
    def __init__(self, value):
        self.value = value


C_CONSTANTS = {'NULL': 0, 'Py_LT': 0, 'Py_LE': 1, 'Py_EQ': 2, 'Py_NE': 3, 'Py_GT': 4, 'Py_GE': 5,          # object.h (checked against the headers by C19-TAB)
               'PyUnicode_1BYTE_KIND': 1, 'PyUnicode_2BYTE_KIND': 2, 'PyUnicode_4BYTE_KIND': 4, 'PY_SSIZE_T_MAX': 2 ** 63 - 1}


def cpp_variants(text, fixed=None):
    """Resolve the #if/#elif/#else/#endif lines of a C fragment for every assignment of the macros they test.
    -> [(config dict, text without preprocessor lines)]   (identical texts are merged, the first config is kept)"""
    fixed = fixed or {}
    lines = text.split('\n')
    conds = []
    for ln in lines:
        m = re.match(r'\s*#\s*(if|elif)\b(.*)$', ln)
        if m:
            conds.append(m.group(2))
        elif re.match(r'\s*#\s*(ifdef|ifndef)\b', ln):
            raise CUnsupported('#ifdef in helper body')
    macros = {}
    for c in conds:
        c2 = re.sub(r'defined\s*\(\s*(\w+)\s*\)', r'DEFINED_\1', c)
        try:
            e = cexpr.parse(c2)
        except cexpr.ParseError as ex:
            raise CUnsupported('preprocessor condition %r: %s' % (c, ex))
        for n in cexpr.walk(e):
            if n[0] == 'id' and n[1] not in fixed:
                macros.setdefault(n[1], {0, 1})
            if n[0] == 'bin' and n[1] in ('<', '<=', '>', '>=', '==', '!='):
                for a, b in ((n[2], n[3]), (n[3], n[2])):
                    if a[0] == 'id' and b[0] == 'num' and a[1] not in fixed:
                        macros[a[1]] = {b[1] - 1, b[1], b[1] + 1}
    names = sorted(macros)
    if len(names) > 6:
        raise CUnsupported('too many configuration macros')
    out, seen = [], set()
    for combo in itertools.product(*[sorted(macros[n]) for n in names]):
        cfg = dict(fixed)
        cfg.update(zip(names, combo))
        keep, stack = [], []          # stack of [taken already, currently active]
        for ln in lines:
            m = re.match(r'\s*#\s*(if|elif|else|endif)\b(.*)$', ln)
            if not m:
                if re.match(r'\s*#', ln):
                    continue          # other directives (#define inside a body etc.) are irrelevant here
                if all(f[1] for f in stack):
                    keep.append(ln)
                continue
            d, c = m.group(1), m.group(2)
            if d in ('if', 'elif'):
                c2 = re.sub(r'defined\s*\(\s*(\w+)\s*\)', r'DEFINED_\1', c)
                v = bool(cexpr.evaluate(cexpr.parse(c2), cfg))
            if d == 'if':
                stack.append([v, v])
            elif d == 'elif':
                f = stack[-1]
                f[1] = (not f[0]) and v
                f[0] = f[0] or f[1]
            elif d == 'else':
                f = stack[-1]
                f[1] = not f[0]
                f[0] = True
            else:
                stack.pop()
        t = '\n'.join(keep)
        if t not in seen:
            seen.add(t)
            out.append((cfg, t))
    return out


class CRun:
    """Interpreter for one small C function body: `api(name, values, asts)` supplies the results of every call."""

    _stmt_cache = {}
    _expr_cache = {}

    def __init__(self, body_text, env, api):
        st = CRun._stmt_cache.get(body_text)
        if st is None:
            if len(CRun._stmt_cache) > 4000:
                CRun._stmt_cache.clear()
            st = CRun._stmt_cache[body_text] = CP.parse_body(body_text)
        self.stmts = st
        self.env = dict(env)
        self.api = api
        self.steps = 0

    # ---- expressions
    def ev(self, e):
        k = e[0]
        if k in ('num', 'char'):
            v = e[1]
            if isinstance(v, str):
                import ast as _ast
                v = ord(_ast.literal_eval(v)) if v.startswith("'") else int(v, 0)
            return v
        if k == 'id':
            if e[1] in self.env:
                return self.env[e[1]]
            if e[1] in C_CONSTANTS:
                return C_CONSTANTS[e[1]]
            return self.api('id:' + e[1], [], [])
        if k == 'cast':
            v = self.ev(e[2])
            t = e[1].replace(' ', '')
            if isinstance(v, tuple) and v[:1] == ('ptr',):
                return self.api('cast', [t, v], [e])
            if isinstance(v, int) and not isinstance(v, bool):
                if t == 'unsignedchar':
                    return v & 0xFF
                if t == 'char':
                    v &= 0xFF
                    return v - 256 if v > 127 else v
            return v
        if k == 'un':
            if e[1] == '&' and e[2][0] == 'id':
                return ('&', e[2][1])
            v = self.ev(e[2])
            if e[1] == '!':
                return int(not self.truth(v))
            if e[1] == '-':
                return -v
            if e[1] == '+':
                return v
            if e[1] == '~':
                return ~v
            raise CUnsupported('unary %s' % e[1])
        if k == 'tern':
            return self.ev(e[2]) if self.truth(self.ev(e[1])) else self.ev(e[3])
        if k == 'call':
            if e[1] in ('likely', 'unlikely') and len(e[2]) == 1:
                return self.ev(e[2][0])
            if e[1] == '__index__' and len(e[2]) == 2:
                return self.api('[]', [self.ev(a) for a in e[2]], e[2])
            return self.api(e[1], [self.ev(a) for a in e[2]], e[2])
        if k == 'bin':
            op = e[1]
            if op == '&&':
                return int(self.truth(self.ev(e[2])) and self.truth(self.ev(e[3])))
            if op == '||':
                return int(self.truth(self.ev(e[2])) or self.truth(self.ev(e[3])))
            a, b = self.ev(e[2]), self.ev(e[3])
            if op == '[]':
                return self.api('[]', [a, b], [e[2], e[3]])
            if op in ('==', '!=') and not (isinstance(a, tuple) and a[:1] == ('dbl',) or isinstance(b, tuple) and b[:1] == ('dbl',)):
                return int((a == b) == (op == '=='))
            if not (isinstance(a, int) and isinstance(b, int)):
                return self.api('op:' + op, [a, b], [e[2], e[3]])
            return cexpr.evaluate(('bin', op, ('num', a), ('num', b)), {})
        raise CUnsupported('expression node %s' % k)

    def truth(self, v):
        if isinstance(v, int):
            return v != 0
        if v is None:
            raise CUnsupported('truth value of void')
        return True

    # ---- statements
    def run(self):
        pos = 0
        stmts = self.stmts
        try:
            while True:
                try:
                    self.exec_list(stmts[pos:])
                    return None
                except _Goto as g:
                    idx = [i for i, s in enumerate(stmts) if s.kind == 'label' and s.text == g.label]
                    if not idx:
                        raise CUnsupported('goto %s: label not at the top level' % g.label)
                    pos = idx[0] + 1
        except _Return as r:
            return r.value

    def exec_list(self, stmts):
        for s in stmts:
            self.exec(s)

    def exec(self, s):
        self.steps += 1
        if self.steps > 2000:
            raise CUnsupported('too many steps')
        if s.kind == 'block':
            return self.exec_list(s.body)
        if s.kind in ('label', 'pp'):
            return
        if s.kind == 'if':
            if self.truth(self.ev(self.parse(s.text))):
                self.exec(s.body)
            elif s.orelse is not None:
                self.exec(s.orelse)
            return
        if s.kind == 'simple':
            t = s.text.strip()
            if not t:
                return
            m = re.match(r'^return\b(.*)$', t)
            if m:
                raise _Return(self.ev(self.parse(m.group(1))) if m.group(1).strip() else None)
            m = re.match(r'^goto\s+(\w+)$', t)
            if m:
                raise _Goto(m.group(1))
            # top-level assignment / declaration with initialiser
            i = self._assign_pos(t)
            if i is not None:
                lhs, rhs = t[:i].strip(), t[i + 1:].strip()
                names = re.findall(r'[A-Za-z_]\w*', lhs)
                if not names or '[' in lhs or '->' in lhs:
                    raise CUnsupported('assignment target %r' % lhs)
                self.env[names[-1]] = self.ev(self.parse(rhs))
                return
            if re.match(r'^(?:const\s+|unsigned\s+|static\s+)*[A-Za-z_]\w*(?:\s*\*+\s*|\s+)\**\s*[A-Za-z_]\w*(?:\s*,\s*\**\s*[A-Za-z_]\w*)*$', t):
                return              # declaration without initialiser
            self.ev(self.parse(t))
            return
        raise CUnsupported('%s statement' % s.kind)

    @staticmethod
    def _assign_pos(t):
        depth = 0
        for i, ch in enumerate(t):
            if ch in '([':
                depth += 1
            elif ch in ')]':
                depth -= 1
            elif ch == '=' and depth == 0:
                if t[i + 1:i + 2] == '=' or t[i - 1:i] in ('=', '!', '<', '>', '+', '-', '*', '/', '|', '&', '^', '%'):
                    continue
                return i
        return None

    @staticmethod
    def _index_calls(text):
        """f(args)[i]  ->  __index__(f(args), i)    (the expression parser only indexes identifiers)"""
        while True:
            m = re.search(r'\)\s*\[', text)
            if not m:
                return text
            close = m.start()
            depth, i = 0, close
            while i >= 0:
                if text[i] == ')':
                    depth += 1
                elif text[i] == '(':
                    depth -= 1
                    if depth == 0:
                        break
                i -= 1
            j = i
            while j > 0 and (text[j - 1].isalnum() or text[j - 1] == '_'):
                j -= 1
            if i < 0:
                raise CUnsupported('unbalanced parentheses: %r' % text[:60])
            k = CP._match(text, m.end() - 1, '[', ']')
            text = text[:j] + '__index__(' + text[j:close + 1] + ', ' + text[m.end():k - 1] + ')' + text[k:]

    def parse(self, text):
        e = CRun._expr_cache.get(text)
        if e is not None:
            return e
        try:
            t2 = self._index_calls(text) if re.search(r'\)\s*\[', text) else text
            e = cexpr.parse(t2)
        except cexpr.ParseError as ex:
            raise CUnsupported('cannot parse %r: %s' % (text[:60], ex))
        if len(CRun._expr_cache) > 20000:
            CRun._expr_cache.clear()
        CRun._expr_cache[text] = e
        return e


# ===================================================================================================== Tempita
TPL_TOKEN = re.compile(r'\{\{(.*?)\}\}', re.S)
_TPL_EXPR = {}
_TPL_TOKS = {}


def tpl_expand(text, env):
    """Expand a Tempita template for one binding of its variables.  Expressions, `py:` blocks and the functions they define are
    evaluated by PyEval (the checker's own evaluator); an expression it cannot decide is written as TPL_UNKNOWN."""
    dummy = ast.parse('def template():\n    pass').body[0]
    pe = PyEval(dummy, {})
    st = State(dict(env))
    toks = _TPL_TOKS.get(text)
    pos = 0
    if toks is None:
        toks = _TPL_TOKS[text] = []
    else:
        text = ''
    for m in TPL_TOKEN.finditer(text):
        if m.start() > pos:
            toks.append(('text', text[pos:m.start()]))
        inner = m.group(1).strip()
        w = re.match(r'(if|elif|else|endif|for|endfor|py:|#)', inner)
        if w and (w.group(1) in ('py:', '#') or re.match(r'(if|elif|else|endif|for|endfor)\b', inner)):
            toks.append((w.group(1), inner[len(w.group(1)):].strip() if w.group(1) != 'py:' else m.group(1).split('py:', 1)[1]))
        else:
            toks.append(('expr', inner))
        pos = m.end()
    if text or not toks:
        toks.append(('text', text[pos:]))

    def expr(src):
        e = _TPL_EXPR.get(src)
        if e is None:
            try:
                e = _TPL_EXPR[src] = ast.parse(src.strip(), mode='eval').body
            except SyntaxError:
                raise AnalysisError('template expression %r is not Python' % src)
        return pe.ev(e, st)

    def truth(src):
        t = pe.truth(expr(src))
        if t is None:
            raise AnalysisError('template condition %r is not decidable' % src)
        return t

    def run(i, active, stop):
        out = []
        while i < len(toks):
            k, v = toks[i]
            if k in stop:
                return ''.join(out), i
            if k == 'text':
                if active:
                    out.append(v)
                i += 1
            elif k == 'expr':
                if active:
                    x = expr(v)
                    out.append(str(x) if isinstance(x, (str, int)) and not isinstance(x, bool) else ('1' if x is True else ('0' if x is False else 'TPL_UNKNOWN')))
                i += 1
            elif k == '#':
                i += 1
            elif k == 'py:':
                if active:
                    body = _TPL_EXPR.get(('py', v))
                    if body is None:
                        import textwrap
                        try:
                            body = _TPL_EXPR[('py', v)] = ast.parse(textwrap.dedent(v).strip()).body
                        except SyntaxError:
                            raise AnalysisError('template py: block is not Python')
                    res = pe.block(body, st)
                    if len(res) != 1 or res[0][1] is not st:
                        raise AnalysisError('template py: block is not straight-line code')
                i += 1
            elif k == 'if':
                taken = False
                cond = active and truth(v)
                i += 1
                while True:
                    body, i = run(i, active and cond and not taken, ('elif', 'else', 'endif'))
                    if active and cond and not taken:
                        out.append(body)
                        taken = True
                    if i >= len(toks):
                        raise AnalysisError('unterminated {{if}} in template')
                    nk, nv = toks[i]
                    i += 1
                    if nk == 'elif':
                        cond = active and not taken and truth(nv)
                    elif nk == 'else':
                        cond = True
                    else:
                        break
            elif k == 'for':
                m = re.match(r'(\w+)\s+in\s+(.*)$', v, re.S)
                if not m:
                    raise AnalysisError('unsupported template loop %r' % v)
                seq = expr(m.group(2)) if active else ()
                if not isinstance(seq, (tuple, list)):
                    raise AnalysisError('template loop over %r is not decidable' % m.group(2))
                start = i + 1
                _, end = run(start, False, ('endfor',))
                for x in seq:
                    st.env[m.group(1)] = x
                    body, _ = run(start, active, ('endfor',))
                    out.append(body)
                i = end + 1
            else:
                raise AnalysisError('unexpected template directive %s' % k)
        return ''.join(out), i
    res, _ = run(0, True, ())
    return res


# ===================================================================================================== C19-TF
# Result contracts of the C-API functions the contains / equals helpers are built on (CPython C-API reference):
#   *_Contains(container, item) -> 1 found, 0 not found, -1 error;   memchr -> pointer or NULL;
#   PyUnicode_FindChar -> index >= 0, -1 not found, -2 error;   size / data accessors fail (-1 / NULL) only without the SAFE assumptions
CONTAINS_APIS = {'PyDict_Contains', 'PySet_Contains', 'PySequence_Contains', 'PyUnicode_Contains'}
GENERIC_CONTAINER_APIS = {'PySequence_Contains'}          # accept any object as the container (None -> TypeError)
SELF_CONTAINING = {'PyUnicode_Contains'}                    # container types every instance of which contains itself (s in s)
MAXCHAR = {1: 0xFF, 2: 0xFFFF, 4: 0x10FFFF}
CHAR_CLASSES = (0x41, 0xFF, 0x100, 0x20AC, 0xFFFF, 0x10000, 0x10FFFF)      # both sides of every kind boundary
FALLIBLE_ONLY_WITHOUT = {'GET_SIZE': 'CYTHON_ASSUME_SAFE_SIZE', 'GET_LENGTH': 'CYTHON_ASSUME_SAFE_SIZE', 'AsString': 'CYTHON_ASSUME_SAFE_MACROS', 'AS_STRING': 'CYTHON_ASSUME_SAFE_MACROS'}
ITEM, CONTAINER = 1001, 2002


def _kind_of(ch):
    return 1 if ch <= 0xFF else (2 if ch <= 0xFFFF else 4)


class ContainsModel:
    """API results for one scenario of a `<item> in <container>` helper."""

    def __init__(self, sc, cfg):
        self.sc, self.cfg = sc, cfg
        self.failed = None           # name of the API that reported an error
        self.asked = False           # a membership API was consulted

    def fails(self, name):
        if self.sc['err'] == name:
            self.failed = name
            return True
        return False

    def __call__(self, name, vals, asts):
        sc = self.sc
        present = sc['truth'] == 'present'
        if name in CONTAINS_APIS or name == '__Pyx_PySet_ContainsUnhashable':
            if len(vals) != 2 or vals[0] != CONTAINER or vals[1] != ITEM:
                raise CInvalid('%s is called with (%s): the container comes first, the item second' % (name, ', '.join(cexpr_src(a) for a in asts)))
            if name == '__Pyx_PySet_ContainsUnhashable':
                # second chance for an unhashable set key: its own answer replaces the failed one
                self.failed = None
                if sc.get('err2'):
                    self.failed = name
                    return -1
                self.asked = True
                return int(present)
            if self.fails(name):
                return -1
            self.asked = True
            return int(present)
        if name == 'memchr':
            if len(vals) != 3:
                raise CInvalid('memchr with %d arguments' % len(vals))
            data, ch = vals[0], vals[1]
            if not (isinstance(data, tuple) and data[0] == 'data'):
                raise CInvalid('memchr searches %r, not the character data of the container' % (data,))
            if data[1] == 'unicode' and (sc.get('kind') != 1 or data[2] != 1):
                raise CInvalid('memchr over the 1-byte data of a string whose kind is %s' % sc.get('kind'))
            want = sc['character'] & 0xFF if data[1] != 'unicode' else sc['character']
            if ch != want:
                raise CInvalid('memchr searches for %#x, the character asked for is %#x (truncated by the cast to unsigned char?)' % (ch, sc['character']))
            self.asked = True
            return 7777 if present else 0
        if name == 'PyUnicode_FindChar':
            if vals[0] != CONTAINER or vals[1] != sc['character']:
                raise CInvalid('PyUnicode_FindChar(%s)' % ', '.join(cexpr_src(a) for a in asts))
            if len(vals) != 5 or vals[2] != 0 or vals[3] < 2 ** 31 or vals[4] not in (1, -1):
                raise CInvalid('PyUnicode_FindChar does not search the whole string (%s)' % ', '.join(cexpr_src(a) for a in asts[2:]))
            if self.fails(name):
                return -2
            self.asked = True
            return 3 if present else -1
        if name == 'PyUnicode_KIND':
            return sc['kind']
        if name in ('PyUnicode_GET_LENGTH', '__Pyx_PyUnicode_GET_LENGTH'):
            return 9
        if name == 'PyUnicode_1BYTE_DATA':
            return ('data', 'unicode', 1)
        if name == 'PyUnicode_2BYTE_DATA':
            return ('data', 'unicode', 2)
        if name == 'PyUnicode_4BYTE_DATA':
            return ('data', 'unicode', 4)
        if re.search(r'_GET_SIZE$', name):
            if vals != [CONTAINER]:
                raise CInvalid('%s(%s) does not measure the container' % (name, ', '.join(cexpr_src(a) for a in asts)))
            return -1 if self.fails(name) else 9
        if re.search(r'_(AsString|AS_STRING)$', name):
            if vals != [CONTAINER]:
                raise CInvalid('%s(%s) does not read the container' % (name, ', '.join(cexpr_src(a) for a in asts)))
            return 0 if self.fails(name) else ('data', 'bytes', 1)
        raise CUnsupported('call of %s' % name)


def cexpr_src(e):
    k = e[0]
    if k in ('num', 'char'):
        return str(e[1])
    if k == 'id':
        return e[1]
    if k == 'call':
        return '%s(%s)' % (e[1], ', '.join(cexpr_src(a) for a in e[2]))
    if k == 'un':
        return e[1] + cexpr_src(e[2])
    if k == 'cast':
        return '(%s)%s' % (e[1], cexpr_src(e[2]))
    if k == 'bin':
        return '%s %s %s' % (cexpr_src(e[2]), e[1], cexpr_src(e[3]))
    if k == 'tern':
        return '%s ? %s : %s' % tuple(cexpr_src(x) for x in e[1:4])
    return '?'


def _called(body):
    return set(re.findall(r'\b([A-Za-z_]\w*)\s*\(', body)) - {'if', 'return', 'sizeof', 'likely', 'unlikely', 'while', 'for', 'switch'}


def contains_helper_problems(name, params, body, statics=None):
    """Run a `(item, container, int eq)` helper over every scenario.  -> (number of scenarios, [problem text])"""
    pnames = [re.findall(r'[A-Za-z_]\w*', p)[-1] for p in params]
    ptypes = [p.rsplit(pnames[i], 1)[0].replace(' ', '') for i, p in enumerate(params)]
    if len(pnames) != 3:
        raise AnalysisError('%s has %d parameters' % (name, len(pnames)))
    called = _called(body)
    uses_kind = 'PyUnicode_KIND' in called
    char_item = 'PyObject' not in ptypes[0]
    n, problems = 0, []
    for cfg, text in cpp_variants(body):
        calls = _called(text)
        fallible = [None]
        for c in sorted(calls):
            if c in CONTAINS_APIS or c == 'PyUnicode_FindChar':
                fallible.append(c)
            for suffix, macro in FALLIBLE_ONLY_WITHOUT.items():
                if c.endswith(suffix) and not cfg.get(macro, 0):
                    fallible.append(c)
        kinds = (1, 2, 4) if uses_kind else (None,)
        chars = CHAR_CLASSES if uses_kind else ((0x41, 0xE9) if char_item else (None,))
        identical = (False, True) if not char_item and re.search(r'\b%s\s*[!=]=\s*%s\b|\b%s\s*[!=]=\s*%s\b' % (pnames[0], pnames[1], pnames[1], pnames[0]), text) else (False,)
        for eq, truth, err, kind, ch, same, err2 in itertools.product((2, 3), ('present', 'absent'), fallible, kinds, chars, identical,
                                                                       (False, True) if '__Pyx_PySet_ContainsUnhashable' in calls else (False,)):
            if kind is not None and truth == 'present' and ch > MAXCHAR[kind]:
                continue             # a string of this kind cannot contain the character
            if same and truth == 'absent' and calls & SELF_CONTAINING:
                continue             # a str always contains itself
            if err2 and err != 'PySet_Contains':
                continue
            sc = dict(eq=eq, truth=truth, err=err, kind=kind, character=ch, same=same, err2=err2)
            model = ContainsModel(sc, cfg)
            env = {pnames[0]: (ch if char_item else (CONTAINER if same else ITEM)), pnames[1]: CONTAINER, pnames[2]: eq}
            if char_item and ptypes[0] in ('char', 'signedchar') and ch is not None and ch > 127:
                env[pnames[0]] = ch - 256
                sc['character'] = ch
            if same:
                # the two operands are one object: model membership calls on (CONTAINER, CONTAINER)
                class _Same(ContainsModel):
                    def __call__(self2, nm, vals, asts):
                        if nm in CONTAINS_APIS and vals == [CONTAINER, CONTAINER]:
                            vals = [CONTAINER, ITEM]
                        return ContainsModel.__call__(self2, nm, vals, asts)
                model = _Same(sc, cfg)
            n += 1
            where = 'eq=%s, item %s%s%s%s [%s]' % ('Py_EQ' if eq == 2 else 'Py_NE', truth, ', %s reports an error' % err if err else '', ', string kind %s, character %#x' % (kind, ch) if kind else '',
                                                 ', item is the container' if same else '', ', '.join('%s=%s' % kv for kv in sorted(cfg.items())) or 'any configuration')
            try:
                res = CRun(text, env, model).run()
            except CInvalid as ex:
                problems.append('%s: %s (%s)' % (name, ex, where))
                continue
            except CUnsupported as ex:
                raise AnalysisError('%s: %s' % (name, ex))
            if not isinstance(res, int):
                problems.append('%s returns %r (%s)' % (name, res, where))
                continue
            if model.failed:
                if res >= 0:
                    problems.append('%s returns %d although %s reported an error: the exception is left pending and the comparison yields a value (%s)' % (name, res, model.failed, where))
                continue
            want = (truth == 'present') == (eq == 2)
            if res < 0:
                problems.append('%s returns %d (the error result) although nothing failed: the caller raises without an exception set (%s)' % (name, res, where))
            elif bool(res) != want:
                problems.append('%s returns %d, expected %d: `%s` is answered as `%s` (%s)' % (name, res, int(want), 'in' if eq == 2 else 'not in', 'not in' if eq == 2 else 'in', where))
    return n, problems


def equals_ucs4_problems(name, params, body):
    """`int f(PyObject* s, Py_UCS4 ch, int equals)`: s == <one-character literal ch>.  Every (length, kind, first character, ch, equals, failing API)."""
    pnames = [re.findall(r'[A-Za-z_]\w*', p)[-1] for p in params]
    if len(pnames) != 3:
        raise AnalysisError('%s has %d parameters' % (name, len(pnames)))
    S1 = 3003
    n, problems = 0, []
    for cfg, text in cpp_variants(body):
        calls = _called(text)
        fallible = [None] + [c for c in sorted(calls) if c.endswith('_READY') or (c.endswith('GET_LENGTH') and not cfg.get('CYTHON_ASSUME_SAFE_SIZE', 0))]
        for length, ch1, ch2, equals, err in itertools.product((0, 1, 2), CHAR_CLASSES, CHAR_CLASSES, (2, 3), fallible):
            kinds = [_kind_of(ch1)] if length == 1 else ([1] if length == 0 else [k for k in (1, 2, 4) if k >= _kind_of(ch1)])
            for kind in kinds:
                state = {'failed': None}

                def api(nm, vals, asts, state=state, kind=kind, ch1=ch1, length=length, err=err):
                    if nm.endswith('_READY'):
                        if err == nm:
                            state['failed'] = nm
                            return -1
                        return 0
                    if nm.endswith('GET_LENGTH'):
                        if err == nm:
                            state['failed'] = nm
                            return -1
                        return length
                    if nm == 'PyUnicode_KIND':
                        return kind
                    m = re.match(r'PyUnicode_([124])BYTE_DATA$', nm)
                    if m:
                        return ('data', int(m.group(1)))
                    if nm == '[]':
                        d, i = vals
                        if not (isinstance(d, tuple) and d[0] == 'data'):
                            raise CUnsupported('index into %r' % (d,))
                        if d[1] != kind:
                            raise CInvalid('reads the %d-byte character data of a string of kind %d' % (d[1], kind))
                        if i != 0 or length < 1:
                            raise CInvalid('reads character %s of a string of length %d' % (i, length))
                        return ch1
                    raise CUnsupported('call of %s' % nm)
                n += 1
                where = 'len(s)=%d, kind %d%s, literal %#x, equals=%s%s' % (length, kind, ', s[0]=%#x' % ch1 if length else '', ch2, 'Py_EQ' if equals == 2 else 'Py_NE', ', %s fails' % err if err else '')
                try:
                    res = CRun(text, {pnames[0]: S1, pnames[1]: ch2, pnames[2]: equals}, api).run()
                except CInvalid as ex:
                    problems.append('%s %s (%s)' % (name, ex, where))
                    continue
                except CUnsupported as ex:
                    raise AnalysisError('%s: %s' % (name, ex))
                if state['failed']:
                    if not isinstance(res, int) or res >= 0:
                        problems.append('%s returns %r although %s failed (%s)' % (name, res, state['failed'], where))
                    continue
                equal = length == 1 and ch1 == ch2
                want = equal == (equals == 2)
                if not isinstance(res, int) or res < 0 or bool(res) != want:
                    problems.append('%s returns %r, expected %d: the strings are %s (%s)' % (name, res, int(want), 'equal' if equal else 'different', where))
    return n, problems


def equals_macro_problems(name, params, body):
    """`M(s1, s2, ch2, equals, s1_is_str)` expression macro: s1 == s2 where s2 is the one-character str literal ch2."""
    if len(params) != 5:
        raise AnalysisError('%s has %d parameters' % (name, len(params)))
    A, B, NONE = 4004, 5005, 6006
    try:
        e = cexpr.parse(body.replace('\\\n', ' '))
    except cexpr.ParseError as ex:
        raise AnalysisError('%s: %s' % (name, ex))
    n, problems = 0, []
    for s1, same, equals, is_str, exact in itertools.product((A, NONE), (False, True), (2, 3), (0, 1), (0, 1)):
        if s1 == NONE and (same or exact):
            continue
        if is_str and not exact and s1 != NONE:
            continue                      # a value declared str is an exact str or None
        s2 = s1 if same else B
        if same and not (exact or is_str):
            continue                      # s2 is an exact str literal: an identical s1 is that str

        def api(nm, vals, asts):
            if nm == 'PyUnicode_CheckExact':
                return int(vals[0] == A and bool(exact))
            if nm.startswith('id:'):
                if nm == 'id:Py_None':
                    return NONE
                raise CUnsupported('identifier %s' % nm[3:])
            return (nm, tuple(vals))
        n += 1
        where = 's1 %s, %s, equals=%s, s1_is_str=%d' % ('is None' if s1 == NONE else ('is s2' if same else ('an exact str' if exact else 'some other object')), 'declared str' if is_str else 'declared object',
                                                      'Py_EQ' if equals == 2 else 'Py_NE', is_str)
        r = CRun('', dict(zip(params, (s1, s2, 0x41, equals, is_str))), api)
        try:
            res = r.ev(e)
        except (CInvalid, CUnsupported) as ex:
            raise AnalysisError('%s: %s' % (name, ex))
        if isinstance(res, tuple):
            fn, args = res
            if 'RichCompare' in fn:
                if args != (s1, s2, equals):
                    problems.append('%s calls %s with exchanged / wrong arguments (%s)' % (name, fn, where))
            elif 'Equals' in fn:
                if s1 == NONE or not (exact or is_str):
                    problems.append('%s hands %s to the character comparison %s, which reads it as a str (%s)' % (name, 'None' if s1 == NONE else 'an object that is not a str', fn, where))
                elif args != (s1, 0x41, equals):
                    problems.append('%s calls %s with wrong arguments (%s)' % (name, fn, where))
            else:
                raise AnalysisError('%s: unexpected call %s' % (name, fn))
            continue
        if same:
            want = equals == 2
        elif s1 == NONE:
            want = equals == 3
        else:
            problems.append('%s answers %r without comparing the strings (%s)' % (name, res, where))
            continue
        if not isinstance(res, int) or bool(res) != want or res < 0:
            problems.append('%s answers %r, expected %d (%s)' % (name, res, int(want), where))
    return n, problems


def _wrapper_problems(ctx, wname):
    """A converter `PyObject* W(long b)` applied to the int result of a helper that returns -1 on error: W(-1) must be NULL, W(0)/W(1) a bool object."""
    decls = [d for d in ctx.cat.lookup(wname) if d.kind == 'func' and d.body]
    if not decls:
        return None
    d = decls[0]
    pn = [re.findall(r'[A-Za-z_]\w*', p)[-1] for p in d.params]
    if len(pn) != 1:
        return ['%s takes %d parameters' % (wname, len(pn))]
    out = []
    for b in (-1, 0, 1):
        def api(nm, vals, asts):
            if nm.startswith('id:'):
                return ('obj', nm[3:])
            if nm in ('__Pyx_NewRef', 'Py_NewRef'):
                return vals[0]
            if nm in ('__Pyx_PyBool_FromLong', 'PyBool_FromLong'):
                return ('obj', 'Py_True' if vals[0] else 'Py_False')
            raise CUnsupported('call of %s' % nm)
        try:
            txt = d.body.replace('Py_True:', 'Py_True :')
            res = CRun(txt, {pn[0]: b}, api).run()
        except (CUnsupported, CInvalid) as ex:
            raise AnalysisError('%s: %s' % (wname, ex))
        if b < 0:
            if res != 0:
                out.append('%s(%d) yields %s instead of NULL: the error result of the helper becomes a bool object and the exception stays pending' % (wname, b, res[1] if isinstance(res, tuple) else res))
        else:
            want = ('obj', 'Py_True' if b else 'Py_False')
            if res != want:
                out.append('%s(%d) yields %s instead of %s' % (wname, b, 'NULL' if res == 0 else (res[1] if isinstance(res, tuple) else res), want[1]))
    return out


TF_CONTROL = '''{
    int result = PySequence_Contains(seq, item);
    return (result == (eq == Py_EQ));
}'''


def rule_tf(ctx):
    ix = ctx.index
    cmp = ix.cls('ExprNodes', 'CmpNode')
    rel = cmp.module.rel
    r = Rule('C19-TF', 'contains / equals helpers bound by the comparison nodes, interpreted over every result class of the C-API calls they make: an error of the API is returned as a negative value, '
             'otherwise the result is (found == (eq == Py_EQ)); shortcut answers (string kind, identity, None) are right for every operand they cover; the object-result wrapper maps the error to NULL; '
             'the per-character macro passes the non-literal operand first', floor=15)
    finder = _method(cmp, 'find_special_bool_compare_function')
    fparams = [a.arg for a in finder.args.args]
    if len(fparams) < 3:
        raise AnalysisError('find_special_bool_compare_function lost its operand parameter')
    p_op1 = fparams[2]
    names, contexts = set(), []
    for op in ('in', 'not_in', '==', '!='):
        for sig, st, v in PyEval(finder, {'self.operator': op}).run():
            if sig != 'return' or not (isinstance(v, tuple) and len(v) == 2 and v[0] is True):
                continue
            nm = st.env.get('self.special_bool_cmp_function', UNK)
            if isinstance(nm, str):
                names.add(nm)
            for e in st.events:
                if e[0] == 'call' and e[1].endswith('load_cached') and isinstance(e[3].get('context'), dict) and 'REVERSE' in e[3]['context']:
                    contexts.append((st, e))
    from . import pC19
    for nms, cat_, line in pC19.special_function_bindings(finder):
        names |= set(nms or ())           # names chosen by a conditional expression the partial evaluator cannot decide
    if len(names) < 5:
        raise AnalysisError('only %d constant helper names are bound by find_special_bool_compare_function' % len(names))
    seen = set()
    counted = set()
    _inst = r.inst

    def inst_once(key=None, sample=None, nontrivial=True):
        if key not in counted:
            counted.add(key)
            _inst(key, sample=sample, nontrivial=nontrivial)
    r.inst = inst_once

    def report(key, n, problems, file, line):
        r.inst(key, sample='%s: %d scenarios' % (key, n))
        if problems and key not in seen:
            seen.add(key)
            r.violate(key, file, line, problems[0] + ('' if len(problems) == 1 else ' (+%d more scenarios)' % (len(problems) - 1)))
    for nm in sorted(names):
        decls = [d for d in ctx.cat.lookup(nm) if d.kind == 'func' and d.body]
        if not decls:
            r.info('%s has no C function body in the utility library (not decided)' % nm)
            continue
        for d in decls:
            if len(d.params) != 3:
                r.info('%s is not an (item, container, eq) helper' % nm)
                continue
            n, problems = contains_helper_problems(nm, d.params, d.body)
            report('%s:%s:%s' % (d.file, d.section.name, nm), n, problems, 'Cython/Utility/' + d.file, d.line)
    # ---- equality with a one-character literal
    macros = [d for d in ctx.cat.lookup('__Pyx_PyObject_Equals_uchar') if d.kind == 'macro']
    if not macros:
        raise AnalysisError('__Pyx_PyObject_Equals_uchar not found')
    inner = set()
    for i, d in enumerate(macros):
        n, problems = equals_macro_problems(d.name, d.params, d.body)
        variant = 'generic' if 'RichCompareBool' in d.body and 'EqualsUCS4' not in d.body else 'cpython'
        report('%s:%s:%s[%s]' % (d.file, d.section.name, d.name, variant), n, problems, 'Cython/Utility/' + d.file, d.line)
        inner |= {c for c in _called(d.body) if 'Equals' in c}
    for nm in sorted(inner):
        for d in ctx.cat.lookup(nm):
            if d.kind == 'func' and d.body:
                n, problems = equals_ucs4_problems(nm, d.params, d.body)
                report('%s:%s:%s' % (d.file, d.section.name, nm), n, problems, 'Cython/Utility/' + d.file, d.line)
    # ---- per-character macro template: which operand is the literal
    sec = ctx.cat.section('StringTools.c', 'UnicodeEquals_uchar', 'proto')
    if sec is None:
        raise AnalysisError('StringTools.c::UnicodeEquals_uchar.proto not found')
    for rev in (True, False):
        for is_str in (True, False):
            text = tpl_expand(strip_c_comments(sec.raw), {'REVERSE': rev, 'IS_STR': is_str, 'CHAR': 65})
            m = re.search(r'#\s*define\s+(\w+)\s*\(([^)]*)\)\s*(\w+)\s*\(([^)]*)\)', text)
            if not m:
                raise AnalysisError('UnicodeEquals_uchar.proto: macro definition not recognised for REVERSE=%s' % rev)
            mp = [x.strip() for x in m.group(2).split(',')]
            args = [x.strip() for x in m.group(4).split(',')]
            key = 'StringTools.c:UnicodeEquals_uchar:REVERSE=%s,IS_STR=%s' % (rev, is_str)
            r.inst(key, sample='%s(%s) -> %s(%s)' % (m.group(1), ', '.join(mp), m.group(3), ', '.join(args)))
            if len(mp) != 3 or len(args) != 5:
                r.violate(key, 'Cython/Utility/StringTools.c', sec.line, 'per-character macro %s no longer maps 3 arguments onto the 5 of %s' % (m.group(1), m.group(3)))
                continue
            lit, other = (mp[0], mp[1]) if rev else (mp[1], mp[0])
            if (args[0], args[1]) != (other, lit) and key not in seen:
                seen.add(key)
                r.violate(key, 'Cython/Utility/StringTools.c', sec.line,
                          'with REVERSE=%s the literal is macro argument `%s`, but %s receives (%s, %s) as (object, literal): the literal itself is compared with the character and the other operand is ignored'
                          % (rev, lit, m.group(3), args[0], args[1]))
            if args[2] != '65' or args[3] != mp[2] or args[4] != ('1' if is_str else '0'):
                if key not in seen:
                    seen.add(key)
                    r.violate(key, 'Cython/Utility/StringTools.c', sec.line, 'per-character macro passes (%s) as (character, equals, is_str)' % ', '.join(args[2:]))
    # ---- Python side: REVERSE / IS_STR of the template context describe the operand that is NOT the literal
    n_ctx = 0
    for st, e in contexts:
        c = e[3]['context']
        def holds(path):
            v = st.env.get(path)
            return v is True or isinstance(v, Sym) and v.truthy is True
        lit1 = holds(p_op1 + '.is_string_literal')
        lit2 = holds('self.operand2.is_string_literal')
        if lit1 == lit2:
            continue
        n_ctx += 1
        key = 'ExprNodes.CmpNode.%s:uchar-context:%s' % (finder.name, 'literal-left' if lit1 else 'literal-right')
        r.inst(key, sample='%s loads UnicodeEquals_uchar with REVERSE=%r, IS_STR=%r when the literal is operand%d' % (finder.name, c.get('REVERSE'), c.get('IS_STR'), 1 if lit1 else 2))
        want_str = Sym('self.operand2.type.is_pystr_type') if lit1 else Sym(p_op1 + '.type.is_pystr_type')
        if c.get('REVERSE') is not lit1 and key not in seen:
            seen.add(key)
            r.violate(key, rel, e[4].lineno, '%s instantiates the per-character macro with REVERSE=%r although the literal is the %s operand: the macro then treats the literal as the object to inspect'
                      % (finder.name, c.get('REVERSE'), 'left' if lit1 else 'right'))
        elif c.get('IS_STR') != want_str and key not in seen:
            seen.add(key)
            r.violate(key, rel, e[4].lineno, '%s passes IS_STR=%r; the flag must describe the operand that is not the literal (%r): an arbitrary object would be read as a str' % (finder.name, c.get('IS_STR'), want_str))
    if n_ctx < 2:
        raise AnalysisError('the two UnicodeEquals_uchar instantiations of find_special_bool_compare_function were not found')
    # ---- object-result wrapper and error test of the emitted call
    gen = _method(cmp, 'generate_operation_code')
    n_wr = 0
    for is_obj in (True, False):
        env = {'self.type.is_pyobject': is_obj, 'self.special_bool_cmp_function': Sym('self.special_bool_cmp_function', truthy=True)}
        for sig, st, v in PyEval(gen, env).run():
            for e in st.events:
                if e[0] != 'call' or not e[1].endswith('putln') or not e[2] or not isinstance(e[2][0], Fmt):
                    continue
                f = e[2][0]
                segs = f.text.split('§')
                for i in range(len(f.parts) - 1):
                    if segs[i + 1].strip() == '(' and f.parts[i + 1] == Sym('self.special_bool_cmp_function'):
                        w = f.parts[i]
                        n_wr += 1
                        key = 'ExprNodes.CmpNode.%s:special-result:%s' % (gen.name, 'object' if is_obj else 'bint')
                        ec = st.env.get('error_clause', UNK)
                        r.inst(key, sample='%s result: wrapper %r, error test %r' % ('object' if is_obj else 'bint', w, ec))
                        want_ec = Sym('code.error_goto_if_null' if is_obj else 'code.error_goto_if_neg')
                        if key in seen:
                            continue
                        if not isinstance(w, str):
                            raise AnalysisError('%s: the converter applied to the helper result is not decidable (%r)' % (gen.name, w))
                        if ec != want_ec:
                            seen.add(key)
                            r.violate(key, rel, e[4].lineno, '%s tests the %s result of a special compare helper with %r instead of %s: the helper\'s error value is not recognised'
                                      % (gen.name, 'object' if is_obj else 'C int', ec, want_ec.path))
                        elif is_obj:
                            problems = _wrapper_problems(ctx, w) if w else ['no converter is applied: the C int result is stored as an object pointer']
                            if problems is None:
                                r.info('%s: converter %s has no C body in the utility library (not decided)' % (gen.name, w))
                            elif problems:
                                seen.add(key)
                                r.violate(key, rel, e[4].lineno, '%s converts the int result of a special compare helper (negative = exception) with %s: %s' % (gen.name, w, problems[0]))
                        elif w != '':
                            seen.add(key)
                            r.violate(key, rel, e[4].lineno, '%s wraps the C int result in %s although the result type is a C integer' % (gen.name, w))
    if n_wr < 2:
        raise AnalysisError('generate_operation_code: emission of the special compare helper not found for both result types')
    n, problems = contains_helper_problems('control', ['PyObject* item', 'PyObject* seq', 'int eq'], TF_CONTROL)
    r.positive_control(bool(problems) and 'reported an error' in problems[0], 'contains helper that does not pass the error of PySequence_Contains through')
    return r


# ===================================================================================================== C19-NONE
def _container_apis(decl):
    """C functions / macros the helper applies to its container parameter (2nd parameter)"""
    pn = [re.findall(r'[A-Za-z_]\w*', p)[-1] for p in decl.params]
    if len(pn) < 2:
        return set()
    c = pn[1]
    out = set()
    for m in re.finditer(r'\b([A-Za-z_]\w*)\s*\(([^()]*)\)', decl.body or ''):
        if m.group(1) in ('if', 'return', 'likely', 'unlikely', 'sizeof'):
            continue
        if re.search(r'\b%s\b' % re.escape(c), m.group(2)):
            out.add(m.group(1))
    return out


def none_safety_problems(finder, specialised, attr='special_bool_cmp_function'):
    """find_special_bool_compare_function: a helper that applies type-specific C-API to its container may only be bound on paths where
    operand2 was wrapped in a None check (or is a C value that cannot be None).   specialised(name) -> set of type-specific APIs or None (unknown)"""
    inst, prob = [], []
    for op in MEMBERSHIP_OPS:
        for by in (True, False):
            env = {'self.operator': op, 'self.operand2.type.is_pybytearray_type': by}
            for sig, st, v in PyEval(finder, env).run():
                if sig != 'return' or not (isinstance(v, tuple) and len(v) == 2 and v[0] is True):
                    continue
                nm = st.env.get('self.' + attr, UNK)
                if not isinstance(nm, str):
                    continue
                apis = specialised(nm)
                if apis is None:
                    continue
                key = '%s:%s' % (finder.name, nm)
                guarded = any(e[0] == 'call' and e[1] == 'as_none_safe_node' and e[2] and e[2][0] == Sym('self.operand2') for e in st.events)
                # a C string / array converted to a Python object on this path is a fresh object, never None
                def holds(path):
                    v = st.env.get(path)
                    return v is True or isinstance(v, Sym) and v.truthy is True
                c_value = any(holds('self.operand2.type.is_' + k) for k in ('string', 'cpp_string', 'ptr', 'array')) and \
                    any(e[0] == 'call' and e[1] in ('coerce_to', 'coerce_to_pyobject') and e[2] and e[2][0] == Sym('self.operand2') for e in st.events)
                inst.append((key, '%s binds %s (%s): container %s' % (finder.name, nm, 'type-specific: ' + ', '.join(sorted(apis)) if apis else 'generic',
                                                                      'None-checked' if guarded else ('converted C value' if c_value else 'unchecked'))))
                if apis and not (guarded or c_value):
                    prob.append((key, finder.lineno, '%s binds %s, which applies %s to the container without a type check, on a path where operand2 was not wrapped by as_none_safe_node(): '
                                 '`x %s c` with c = None (allowed for a variable typed as this builtin) dereferences None instead of raising TypeError' % (finder.name, nm, ', '.join(sorted(apis)), op.replace('_', ' '))))
    return inst, prob


NONE_CONTROL = '''
def find_special_bool_compare_function(self, env, operand1, result_is_bool=False):
    if self.operator in ('in', 'not_in'):
        type2 = self.operand2.type
        if type2.is_pyanydict_type:
            self.special_bool_cmp_function = "__Pyx_PyDict_ContainsTF"
            return True, operand1.coerce_to_pyobject(env)
        self.special_bool_cmp_function = "__Pyx_PySequence_ContainsTF"
        return True, operand1.coerce_to_pyobject(env)
    return False, operand1
'''


def rule_none(ctx):
    ix = ctx.index
    cmp = ix.cls('ExprNodes', 'CmpNode')
    r = Rule('C19-NONE', 'a containment helper whose C body applies type-specific C-API (PyDict_Contains, PyUnicode_KIND, PyBytes_GET_SIZE, ...) to the container is only bound behind '
             'as_none_safe_node() on operand2 (or for a freshly converted C value): builtin-typed variables may hold None and `x in None` must raise TypeError', floor=6)
    finder = _method(cmp, 'find_special_bool_compare_function')

    def specialised(nm):
        decls = [d for d in ctx.cat.lookup(nm) if d.kind == 'func' and d.body]
        if not decls:
            return None
        apis = set()
        for d in decls:
            apis |= _container_apis(d)
        return {a for a in apis if a not in GENERIC_CONTAINER_APIS and not a.startswith('__Pyx_PySet_ContainsUnhashable')}
    inst, prob = none_safety_problems(finder, specialised)
    counted, seen = set(), set()
    for key, sample in inst:
        if key not in counted:
            counted.add(key)
            r.inst('ExprNodes.CmpNode.' + key, sample=sample)
    for key, line, text in prob:
        if key not in seen:
            seen.add(key)
            r.violate('ExprNodes.CmpNode.' + key, cmp.module.rel, line, text)
    pc = ast.parse(NONE_CONTROL).body[0]
    _, cp = none_safety_problems(pc, specialised)
    r.positive_control(any(k.endswith('__Pyx_PyDict_ContainsTF') for k, _, _ in cp) and not any(k.endswith('__Pyx_PySequence_ContainsTF') for k, _, _ in cp),
                       'dict helper bound without a None check (the generic sequence helper needs none)')
    return r


# ===================================================================================================== C19-MAIN
CMP_TYPES = ('object', 'int', 'float', 'str', 'bytes', 'bytearray')
CMP_OPS = {'Eq': '==', 'Ne': '!=', 'Lt': '<', 'Le': '<=', 'Gt': '>', 'Ge': '>='}
EXACT_CHECKS = {'PyFloat_CheckExact': 'float', 'PyLong_CheckExact': 'int', 'PyUnicode_CheckExact': 'str', 'PyBytes_CheckExact': 'bytes', 'PyByteArray_CheckExact': 'bytearray'}
ACCESSOR_KIND = ((r'^__Pyx_PyFloat_AS_DOUBLE$|^PyFloat_', 'float'), (r'^__Pyx_PyLong_|^PyLong_', 'int'), (r'^PyUnicode_|^__Pyx_PyUnicode_', 'str'),
                 (r'^(__Pyx_)?PyBytes_', 'bytes'), (r'^(__Pyx_)?PyByteArray_', 'bytearray'))
REFLEXIVE = {'Eq', 'Le', 'Ge'}
COMPARABLE_PAIRS = ({'int', 'float'}, {'bytes', 'bytearray'})
O1, O2, ONONE = 7001, 7002, 7009


def _c_functions(text):
    """[(name, [param names], body text)] of the function definitions in expanded C text"""
    out = []
    for m in re.finditer(r'\b(__Pyx_\w+)\s*\(([^()]*)\)\s*\{', text):
        end = CP._match(text, m.end() - 1, '{', '}')
        params = [re.findall(r'[A-Za-z_]\w*', p)[-1] for p in m.group(2).split(',') if p.strip()]
        out.append((m.group(1), params, text[m.end() - 1:end]))
    return out


def _certain(op, k1, k2, same):
    """The answer of `a op b` that holds for EVERY pair of objects of these classes (None if it depends on the values / raises)."""
    exact = ('int', 'float', 'str', 'bytes', 'bytearray')
    if same:
        if k1 is None:
            return {'Eq': True, 'Ne': False}.get(op)
        if k1 in ('int', 'str', 'bytes', 'bytearray'):
            return op in REFLEXIVE
        return None                      # float: nan;  other: user defined __eq__
    if (k1 is None) != (k2 is None):
        other = k2 if k1 is None else k1
        if other in exact:
            return {'Eq': False, 'Ne': True}.get(op)
        return None
    if k1 in exact and k2 in exact and k1 != k2 and {k1, k2} not in COMPARABLE_PAIRS:
        return {'Eq': False, 'Ne': True}.get(op)
    return None


def _helper_kinds(funcs):
    """{two-operand helper name: (class of operand 1, class of operand 2)} from the accessors applied to each parameter"""
    out = {}
    for hn, hp, hb in funcs:
        if len(hp) != 2:
            continue
        ks = []
        for p in hp:
            found = set()
            for m in re.finditer(r'\b([A-Za-z_]\w*)\s*\(((?:[^()]|\([^()]*\))*)\)', hb):
                if not re.search(r'(?<![\w>.])%s\b' % re.escape(p), m.group(2)):
                    continue
                for pat, kind in ACCESSOR_KIND:
                    if re.search(pat, m.group(1)):
                        found.add(kind)
                        break
            ks.append(found.pop() if len(found) == 1 else None)
        out[hn] = tuple(ks)
    return out


def main_compare_problems(section_raw, types=CMP_TYPES, ops=tuple(CMP_OPS), return_objs=(0, 1)):
    """-> (instances, problems) for the dispatching function of the PyObjectCompare template"""
    raw = strip_c_comments(section_raw)
    inst, prob = [], []
    # the dispatching function is the last definition with three parameters; only that part (and the py: definitions in front of it)
    # is expanded per type pair, the two-operand helpers are read off one full expansion per operator
    heads = [m for m in re.finditer(r'^[ \t]*static\b[^;{}()]*?(?:\{\{[^}]*\}\}[^;{}()]*?)*\(([^()]*)\)\s*\{', raw, re.M) if m.group(1).count(',') == 2]
    if not heads:
        raise AnalysisError('PyObjectCompare: no three-parameter function definition in the template')
    cut = heads[-1].start()
    prefix = ''.join(m.group(0) for m in TPL_TOKEN.finditer(raw[:cut]) if m.group(1).strip().startswith('py:'))
    segment = prefix + raw[cut:]

    def tidy(text):
        text = re.sub(r'\bPy_RETURN_TRUE\b', 'return 1', re.sub(r'\bPy_RETURN_FALSE\b', 'return 0', text))
        return re.sub(r'(?<![\w.])(\d+)\.0*(?![\w.])', r'\1', text)
    full, kinds_cache = {}, {}
    for t1, t2, op, robj in itertools.product(types, types, ops, return_objs):
        if (op, robj) not in full:
            full[(op, robj)] = _c_functions(tidy(tpl_expand(raw, {'type1': 'object', 'type2': 'object', 'op': op, 'c_op': CMP_OPS[op], 'return_obj': robj})))
        text = tidy(tpl_expand(segment, {'type1': t1, 'type2': t2, 'op': op, 'c_op': CMP_OPS[op], 'return_obj': robj}))
        funcs = _c_functions(text)
        mains = [f for f in funcs if len(f[1]) == 3 and f[0].endswith('_%s_%s' % (t1, t2))]
        if len(mains) != 1:
            raise AnalysisError('PyObjectCompare(%s, %s, %s): main function not found in the expansion' % (t1, t2, op))
        mname, mparams, mbody = mains[0]
        helper_kinds = kinds_cache.get((op, robj))
        if helper_kinds is None:
            helper_kinds = kinds_cache[(op, robj)] = _helper_kinds(full[(op, robj)])
        key = 'Optimize.c:PyObjectCompare:main:%s_%s:%s' % (t1, t2, op)
        n = 0
        kinds1 = (None, t1) if t1 != 'object' else (None, 'int', 'float', 'str', 'bytes', 'bytearray', 'other')
        kinds2 = (None, t2) if t2 != 'object' else (None, 'int', 'float', 'str', 'bytes', 'bytearray', 'other')
        for cfg, body in cpp_variants(mbody, fixed={'CYTHON_ASSUME_SAFE_MACROS': 1}):
            for k1, k2, same, outcome in itertools.product(kinds1, kinds2, (False, True), (False, True)):
                if same and k1 != k2:
                    continue
                if k1 is None and k2 is None and not same:
                    continue
                if outcome and not (k1 == k2 == 'float'):
                    continue              # the value comparison outcome only matters when doubles are compared
                a = ONONE if k1 is None else O1
                b = ONONE if k2 is None else (a if same else O2)
                kind_of = {a: k1, b: k2}
                log = {'cmp': None}

                def api(nm, vals, asts):
                    if nm == 'id:Py_None':
                        return ONONE
                    if nm in EXACT_CHECKS:
                        return int(kind_of.get(vals[0]) == EXACT_CHECKS[nm])
                    if nm == '__Pyx_PyFloat_AS_DOUBLE':
                        if kind_of.get(vals[0]) != 'float':
                            raise CInvalid('reads the double value of %s' % ('None' if vals[0] == ONONE else 'an object that is not a float'))
                        return ('dbl', 1 if vals[0] == a else 2) if not same else ('dbl', 1 if asts[0] == ('id', mparams[0]) else 2)
                    if nm.startswith('op:'):
                        log['cmp'] = (nm[3:], vals[0], vals[1])
                        return int(outcome)
                    if nm.startswith('CYTHON_') or nm == 'PyErr_Occurred':
                        return 0
                    if nm in helper_kinds:
                        return ('helper', nm, tuple(vals))
                    if 'RichCompare' in nm:
                        return ('rich', nm, tuple(vals))
                    raise CUnsupported('call of %s' % nm)
                n += 1
                where = '%s(%s %s, %s %s)%s' % (mname, t1, 'None' if k1 is None else ('a ' + k1 if k1 != 'other' else 'some object'), t2,
                                                 'None' if k2 is None else ('a ' + k2 if k2 != 'other' else 'some object'), ', op1 is op2' if same else '')
                try:
                    res = CRun(body, {mparams[0]: a, mparams[1]: b, mparams[2]: C_CONSTANTS['Py_' + op.upper()]}, api).run()
                except CInvalid as ex:
                    prob.append((key, '%s %s' % (where, ex)))
                    continue
                except CUnsupported as ex:
                    raise AnalysisError('%s: %s' % (mname, ex))
                if isinstance(res, tuple) and res[0] == 'rich':
                    if res[2] != (a, b, C_CONSTANTS['Py_' + op.upper()]):
                        prob.append((key, '%s falls back to %s with the arguments exchanged or the wrong operation: the generic comparison computes a different relation' % (where, res[1])))
                    continue
                if isinstance(res, tuple) and res[0] == 'helper':
                    hk = helper_kinds[res[1]]
                    if res[2] == (b, a) and a != b and hk == (k2, k1) and op in ('Eq', 'Ne'):
                        pass              # == / != of two builtin values is symmetric
                    elif res[2] != (a, b):
                        prob.append((key, '%s calls %s with the operands exchanged: `a %s b` is answered as `b %s a`' % (where, res[1], CMP_OPS[op], CMP_OPS[op])))
                    elif None in hk or hk != (k1, k2):
                        prob.append((key, '%s calls %s, which reads its operands as (%s, %s)' % (where, res[1], hk[0], hk[1])))
                    continue
                if not isinstance(res, int):
                    prob.append((key, '%s returns %r' % (where, res)))
                    continue
                if log['cmp'] is not None:
                    cop, l, r_ = log['cmp']
                    if (cop, l, r_) != (CMP_OPS[op], ('dbl', 1), ('dbl', 2)):
                        prob.append((key, '%s compares the doubles as `%s %s %s` instead of `op1 %s op2`' % (where, 'op%d' % l[1] if isinstance(l, tuple) else l, cop, 'op%d' % r_[1] if isinstance(r_, tuple) else r_, CMP_OPS[op])))
                    elif bool(res) != outcome:
                        prob.append((key, '%s returns %d when the comparison of the two doubles is %s' % (where, res, outcome)))
                    continue
                want = _certain(op, k1, k2, same)
                if want is None:
                    prob.append((key, '%s answers %d without looking at the values, but `a %s b` is not the same for all such operands (%s)' % (
                        where, res, CMP_OPS[op], 'nan != nan' if k1 == 'float' and same else ('user defined comparison' if 'other' in (k1, k2) else 'TypeError / value dependent'))))
                elif bool(res) != want:
                    prob.append((key, '%s answers %d, but `a %s b` is %s for all such operands' % (where, res, CMP_OPS[op], want)))
        inst.append((key, n))
    # ---- the str/str helper: PyUnicode_Compare gives the sign of the order, PyUnicode_Equal 1 / 0 (C-API reference)
    for (op, robj), funcs in sorted(full.items()):
        if robj:
            continue
        kinds = kinds_cache.get((op, robj)) or _helper_kinds(funcs)
        for hn, hp, hb in funcs:
            if kinds.get(hn) != ('str', 'str'):
                continue
            key = 'Optimize.c:PyObjectCompare:%s' % hn
            n = 0
            for cfg, body in cpp_variants(hb):
                for order, fails in itertools.product((-1, 0, 1), (False, True)):
                    state = {'failed': False}

                    def api(nm, vals, asts):
                        if nm in ('PyUnicode_Compare', 'PyUnicode_Equal'):
                            if vals != [O1, O2]:
                                raise CInvalid('%s(%s): operands exchanged' % (nm, ', '.join(cexpr_src(x) for x in asts)))
                            if fails:
                                state['failed'] = True
                                return -1
                            return order if nm == 'PyUnicode_Compare' else int(order == 0)
                        if nm == 'PyErr_Occurred':
                            return int(state['failed'])
                        raise CUnsupported('call of %s' % nm)
                    if fails and not cfg.get('CYTHON_COMPILING_IN_CPYTHON', 0) == 0 and 'PyUnicode_Equal' in body and 'PyUnicode_Compare' not in body:
                        continue          # PyUnicode_Equal cannot fail in CPython
                    n += 1
                    where = '%s with s1 %s s2%s [%s]' % (hn, '<=>'[order + 1], ', the C-API call fails' if fails else '', ', '.join('%s=%#x' % kv for kv in sorted(cfg.items())))
                    try:
                        res = CRun(body, {hp[0]: O1, hp[1]: O2}, api).run()
                    except CInvalid as ex:
                        prob.append((key, '%s: %s' % (where, ex)))
                        continue
                    except CUnsupported as ex:
                        raise AnalysisError('%s: %s' % (hn, ex))
                    if state['failed']:
                        if not isinstance(res, int) or res >= 0:
                            prob.append((key, '%s returns %r although the string comparison failed' % (where, res)))
                        continue
                    want = {'Eq': order == 0, 'Ne': order != 0, 'Lt': order < 0, 'Le': order <= 0, 'Gt': order > 0, 'Ge': order >= 0}[op]
                    if not isinstance(res, int) or res < 0 or bool(res) != want:
                        prob.append((key, '%s returns %r, expected %d' % (where, res, int(want))))
            inst.append((key, n))
    return inst, prob


MAIN_CONTROL = '''
static CYTHON_INLINE int __Pyx_PyObject_CompareBool{{op}}_{{type1}}_{{type2}}(PyObject *op1, PyObject *op2, int pyop) {
    if (op1 == op2) {{'return 1' if op in 'EqLeGe' else 'return 0'}};
    return __Pyx_PyObject_RichCompareBool(op2, op1, Py_{{op.upper()}});
}
'''


def rule_main(ctx):
    r = Rule('C19-MAIN', 'dispatching function of the PyObjectCompare template, expanded for every (type1, type2, op) and interpreted for every class of operands (None / int / float / str / bytes / '
             'bytearray / other, identical or not): constant answers only where every such pair compares that way (None and identity shortcuts; never for floats or foreign objects), helper calls '
             'with (op1, op2) in order and operand classes the helper reads, generic fallback with (op1, op2, Py_<op>)', floor=200)
    sec = ctx.cat.section('Optimize.c', 'PyObjectCompare', 'impl')
    if sec is None:
        raise AnalysisError('Optimize.c::PyObjectCompare not found')
    inst, prob = main_compare_problems(sec.raw, return_objs=(0,))
    # the object-returning variant differs only in how results are returned: one type pair per operator is enough to see that
    inst2, prob2 = main_compare_problems(sec.raw, types=('object',), return_objs=(1,))
    for key, n in inst:
        r.inst(key, sample='%s: %d operand classes' % (key, n))
    for key, n in inst2:
        r.inst(key + ':obj', sample='%s (object result): %d operand classes' % (key, n))
    seen = set()
    for key, text in prob + [(k + ':obj', t) for k, t in prob2]:
        if key not in seen:
            seen.add(key)
            more = sum(1 for k, _ in prob if k == key) - 1
            r.violate(key, 'Cython/Utility/Optimize.c', sec.line, text + (' (+%d more operand classes)' % more if more > 0 else ''))
    _, cp = main_compare_problems(MAIN_CONTROL, types=('object',), ops=('Lt', 'Eq'), return_objs=(0,))
    r.positive_control(any('without looking at the values' in t for _, t in cp) and any('arguments exchanged' in t for _, t in cp),
                       'identity shortcut for arbitrary objects; fallback with exchanged operands')
    return r


# ===================================================================================================== C19-PAIR
# Two-operand helpers of the PyObjectCompare template that compare VALUES (bytes / bytearray content, PyLong digits): interpreted on
# representatives of every class of operand pairs their tests can distinguish (length relation x first byte relation x signedness class of
# the first bytes x relation of the remaining common prefix x hash state; sign x digit count x digit relation).
BYTE_PAIRS = {'<': ((0x01, 0x02), (0x01, 0x80), (0x80, 0x81)), '=': ((0x41, 0x41), (0x80, 0x80)), '>': ((0x02, 0x01), (0x80, 0x01), (0x81, 0x80))}
HASH_FIELD = re.compile(r'\(\(\s*PyBytesObject\s*\*\s*\)\s*(\w+)\s*\)\s*->\s*ob_shash')


def _byte_string_pairs():
    """representative (bytes, bytes) pairs"""
    out = []
    for l1, l2 in itertools.product((0, 1, 2), repeat=2):
        common = min(l1, l2)
        firsts = [(0x41, 0x80)] if common == 0 else [p for rel in '<=>' for p in BYTE_PAIRS[rel]]
        for f1, f2 in firsts:
            rests = ['='] if common < 2 else ['<', '=', '>']
            for rest in rests:
                b1 = bytearray([f1] if l1 else []) + bytearray([0x30] * max(l1 - 1, 0))
                b2 = bytearray([f2] if l2 else []) + bytearray([0x30] * max(l2 - 1, 0))
                if common >= 2 and rest != '=':
                    b1[common - 1], b2[common - 1] = (0x31, 0x32) if rest == '<' else (0x32, 0x31)
                out.append((bytes(b1), bytes(b2)))
    return sorted(set(out))


def bytes_helper_problems(hn, hp, hb, op):
    n, problems = 0, []
    hb = HASH_FIELD.sub(lambda m: '__shash__(%s)' % m.group(1), hb)
    if '->' in hb:
        raise AnalysisError('%s reads an object field the model does not know' % hn)
    pairs = _byte_string_pairs()
    error_pairs = {pairs[0], pairs[len(pairs) // 2], pairs[-1]}
    for cfg, body in cpp_variants(hb):
        calls = _called(body)
        fallible = [None] + [c for c in sorted(calls) if (c.endswith('_GET_SIZE') and not cfg.get('CYTHON_ASSUME_SAFE_SIZE', 0) and c.startswith('__Pyx_')) or
                             (c.endswith('AsString') and not cfg.get('CYTHON_ASSUME_SAFE_MACROS', 0)) or c == 'PyBytes_AsStringAndSize']
        hashes = [(True, True, False)] if '__shash__' not in calls else [(h1, h2, col) for h1 in (True, False) for h2 in (True, False) for col in (False, True)]
        for (b1, b2), err, (hc1, hc2, collide) in itertools.product(pairs, fallible, hashes):
            if collide and b1 == b2:
                continue
            if err is not None and ((b1, b2) not in error_pairs or (hc1, hc2, collide) != hashes[0]):
                continue              # whether a C-API failure is passed on does not depend on the content
            data = {O1: b1, O2: b2}
            state = {'failed': None, 'count': {}}
            runner = [None]

            def api(nm, vals, asts):
                if nm == 'cast':
                    t, v = vals
                    if t.endswith('*'):
                        return ('ptr', v[1], 'uchar' if 'unsigned' in t else ('schar' if 'signed' in t else 'char'))
                    return v
                if nm.endswith('_GET_SIZE'):
                    if vals[0] not in data:
                        raise CInvalid('%s of %r' % (nm, vals[0]))
                    if err == nm:
                        state['count'][nm] = state['count'].get(nm, 0) + 1
                        state['failed'] = nm
                        return -1
                    return len(data[vals[0]])
                if nm.endswith('_AS_STRING') or nm.endswith('_AsString'):
                    if err == nm:
                        state['failed'] = nm
                        return 0
                    return ('ptr', vals[0], 'char')
                if nm == 'PyBytes_AsStringAndSize':
                    if err == nm:
                        state['failed'] = nm
                        return -1
                    if not (isinstance(vals[1], tuple) and vals[1][0] == '&' and isinstance(vals[2], tuple) and vals[2][0] == '&'):
                        raise CUnsupported('PyBytes_AsStringAndSize without output addresses')
                    runner[0].env[vals[1][1]] = ('ptr', vals[0], 'char')
                    runner[0].env[vals[2][1]] = len(data[vals[0]])
                    return 0
                if nm == '[]':
                    ptr, i = vals
                    if not (isinstance(ptr, tuple) and ptr[0] == 'ptr'):
                        raise CUnsupported('index into %r' % (ptr,))
                    # bytes and bytearray buffers are NUL terminated (C-API: PyBytes_AS_STRING / PyByteArray_AS_STRING), index == length reads 0
                    if not isinstance(i, int) or not 0 <= i <= len(data[ptr[1]]):
                        raise CInvalid('reads byte %s of a %d-byte operand' % (i, len(data[ptr[1]])))
                    b = (data[ptr[1]] + b'\0')[i]
                    return b if ptr[2] == 'uchar' else ((b - 256 if b > 127 else b) if ptr[2] == 'schar' else ('pchar', b))
                if nm.startswith('op:'):
                    raise CInvalid('orders or subtracts bytes read through plain `char`, whose signedness is implementation defined (memcmp and Python compare bytes as unsigned)')
                if nm == 'memcmp':
                    p1, p2, k = vals
                    if not all(isinstance(x, tuple) and x[0] == 'ptr' for x in (p1, p2)):
                        raise CUnsupported('memcmp of %r' % (vals,))
                    if not isinstance(k, int) or k > len(data[p1[1]]) or k > len(data[p2[1]]) or k < 0:
                        raise CInvalid('memcmp over %s bytes of operands of %d and %d bytes' % (k, len(data[p1[1]]), len(data[p2[1]])))
                    x, y = data[p1[1]][:k], data[p2[1]][:k]
                    return (x > y) - (x < y)
                if nm == '__shash__':
                    computed = hc1 if vals[0] == O1 else hc2
                    if not computed:
                        return -1
                    return 1234 if (b1 == b2 or collide or vals[0] == O1) else 5678
                raise CUnsupported('call of %s' % nm)
            n += 1
            where = '%s(%r, %r)%s%s [%s]' % (hn, b1, b2, ', %s fails' % err if err else '',
                                             '' if len(hashes) == 1 else ', hash of s1 %s, of s2 %s%s' % ('cached' if hc1 else 'not computed', 'cached' if hc2 else 'not computed', ', equal hashes' if collide else ''),
                                             ', '.join('%s=%s' % kv for kv in sorted(cfg.items())))
            run = CRun(body, {hp[0]: O1, hp[1]: O2}, api)
            runner[0] = run
            try:
                res = run.run()
            except CInvalid as ex:
                problems.append('%s %s' % (where, ex))
                continue
            except CUnsupported as ex:
                raise AnalysisError('%s: %s' % (hn, ex))
            if state['failed']:
                if not isinstance(res, int) or res >= 0:
                    problems.append('%s returns %r although the C-API call failed' % (where, res))
                continue
            want = {'Eq': b1 == b2, 'Ne': b1 != b2, 'Lt': b1 < b2, 'Le': b1 <= b2, 'Gt': b1 > b2, 'Ge': b1 >= b2}[op]
            if not isinstance(res, int) or res < 0 or bool(res) != want:
                problems.append('%s returns %r, but %r %s %r is %s' % (where, res, b1, CMP_OPS[op], b2, want))
    return n, problems


def intint_helper_problems(hn, hp, hb, op):
    """(int, int) helper: sign x digit count x digit relation; paths that need more than one digit are outside the model (digit loop)."""
    n, skipped, problems = 0, 0, []
    BIG = 1 << 80
    values = []          # (sign, digit count, first digit / value class)
    for sign in (-1, 1):
        for size, digit in ((1, 5), (1, 9), (2, 5)):
            values.append((sign, size, digit))
    for cfg, body in cpp_variants(hb):
        for v1, v2 in itertools.product(values, repeat=2):
            val = {}
            for o, (sg, size, dg) in ((O1, v1), (O2, v2)):
                val[o] = sg * (dg if size == 1 else BIG + dg)
            if val[O1] == val[O2] and False:
                continue
            info = {O1: v1, O2: v2}
            runner = [None]

            def api(nm, vals, asts):
                if nm == '__Pyx_PyLong_CompareSignAndSize':
                    return info[vals[0]][0] * info[vals[0]][1] - info[vals[1]][0] * info[vals[1]][1]
                if nm == '__Pyx_PyLong_DigitCount':
                    return info[vals[0]][1]
                if nm == '__Pyx_PyLong_Digits':
                    return ('digits', vals[0])
                if nm == '[]':
                    d, i = vals
                    if not (isinstance(d, tuple) and d[0] == 'digits'):
                        raise CUnsupported('index into %r' % (d,))
                    if info[d[1]][1] != 1 or i != 0:
                        raise CUnsupported('multi-digit comparison')
                    return info[d[1]][2]
                if nm == '__Pyx_PyLong_IsNeg':
                    return int(info[vals[0]][0] < 0)
                if nm == '__Pyx_PyLong_IsNonNeg':
                    return int(info[vals[0]][0] >= 0)
                if nm in ('PyLong_AsLongLongAndOverflow', 'PyLong_AsLongAndOverflow'):
                    if not (isinstance(vals[1], tuple) and vals[1][0] == '&'):
                        raise CUnsupported('%s without an overflow address' % nm)
                    v = val[vals[0]]
                    over = 0 if abs(v) < BIG else (1 if v > 0 else -1)
                    runner[0].env[vals[1][1]] = over
                    return -1 if over else v
                if 'RichCompare' in nm:
                    return ('rich', tuple(vals))
                if nm.startswith('id:TPL_UNKNOWN'):
                    raise CUnsupported('template part the expander does not know')
                raise CUnsupported('call of %s' % nm)
            run = CRun(body, {hp[0]: O1, hp[1]: O2}, api)
            runner[0] = run
            where = '%s(%s%s, %s%s) [%s]' % (hn, '-' if v1[0] < 0 else '', '%d' % v1[2] if v1[1] == 1 else '2**80+%d' % v1[2], '-' if v2[0] < 0 else '',
                                             '%d' % v2[2] if v2[1] == 1 else '2**80+%d' % v2[2], ', '.join('%s=%s' % kv for kv in sorted(cfg.items())))
            try:
                res = run.run()
            except CUnsupported:
                skipped += 1
                continue
            except CInvalid as ex:
                problems.append('%s %s' % (where, ex))
                continue
            n += 1
            if isinstance(res, tuple) and res[0] == 'rich':
                if res[1] != (O1, O2, C_CONSTANTS['Py_' + op.upper()]):
                    problems.append('%s falls back to the generic comparison with exchanged operands or the wrong operation' % where)
                continue
            a, b = val[O1], val[O2]
            want = {'Eq': a == b, 'Ne': a != b, 'Lt': a < b, 'Le': a <= b, 'Gt': a > b, 'Ge': a >= b}[op]
            if not isinstance(res, int) or res < 0 or bool(res) != want:
                problems.append('%s returns %r, but %d %s %d is %s' % (where, res, a, CMP_OPS[op], b, want))
    return n, skipped, problems


PAIR_CONTROL = '''
static int __Pyx_PyObject_ComparePyBytesPyBytesBoolLt(PyObject* s1, PyObject* s2) {
    Py_ssize_t cmp;
    Py_ssize_t length1, length2, short_length;
    const char *ps1, *ps2;
    length1 = __Pyx_PyBytes_GET_SIZE(s1);
    length2 = __Pyx_PyBytes_GET_SIZE(s2);
    short_length = (length1 < length2) ? length1 : length2;
    ps1 = PyBytes_AS_STRING(s1);
    ps2 = PyBytes_AS_STRING(s2);
    cmp = memcmp(ps1, ps2, (size_t)short_length);
    if (cmp == 0) cmp = (length2 - length1);
    if (cmp < 0) return 1; else return 0;
}
'''


def rule_pair(ctx):
    r = Rule('C19-PAIR', 'value-comparing helpers of the PyObjectCompare template (bytes/bytearray content, single-digit PyLong values), interpreted on a representative of every class of operand '
             'pairs their tests distinguish: the answer is the Python order of the operands, bytes are compared as unsigned, memcmp stays inside both operands, a hash shortcut needs both hashes '
             'computed, C-API failures are returned as errors', floor=24)
    sec = ctx.cat.section('Optimize.c', 'PyObjectCompare', 'impl')
    if sec is None:
        raise AnalysisError('Optimize.c::PyObjectCompare not found')
    raw = strip_c_comments(sec.raw)
    seen = set()
    n_bytes = n_int = 0
    for op in CMP_OPS:
        text = tpl_expand(raw, {'type1': 'object', 'type2': 'object', 'op': op, 'c_op': CMP_OPS[op], 'return_obj': 0})
        text = re.sub(r'(?<![\w.])(\d+)\.0*(?![\w.])', r'\1', text)
        funcs = _c_functions(text)
        kinds = _helper_kinds(funcs)
        for hn, hp, hb in funcs:
            k = kinds.get(hn)
            if k is None or len(hp) != 2:
                continue
            key = 'Optimize.c:PyObjectCompare:%s' % hn
            if set(k) <= {'bytes', 'bytearray'}:
                n, problems = bytes_helper_problems(hn, hp, hb, op)
                n_bytes += 1
            elif k == ('int', 'int'):
                n, skipped, problems = intint_helper_problems(hn, hp, hb, op)
                n_int += 1
                if skipped:
                    r.info('%s: %d operand classes need the multi-digit comparison (loop / pylong_join), which the model does not interpret' % (hn, skipped))
            else:
                continue
            r.inst(key, sample='%s: %d operand classes' % (hn, n))
            if problems and key not in seen:
                seen.add(key)
                r.violate(key, 'Cython/Utility/Optimize.c', sec.line, problems[0] + ('' if len(problems) == 1 else ' (+%d more operand classes)' % (len(problems) - 1)))
    if n_bytes < 12 or n_int < 4:
        raise AnalysisError('PyObjectCompare: only %d bytes and %d int helpers recognised' % (n_bytes, n_int))
    f = _c_functions(PAIR_CONTROL)[0]
    _, cp = bytes_helper_problems(f[0], f[1], f[2], 'Lt')
    r.positive_control(bool(cp), 'bytes ordering that breaks a common-prefix tie with length2 - length1')
    return r


# ===================================================================================================== C19-INTTYPE
def int_type_problems(fn, is_int_constant):
    """find_common_int_type: every non-None result is a type known to be a C integer type on that path (a type tested `.is_int`, or a constant int type)."""
    inst, prob = [], []
    for sig, st, v in PyEval(fn, {}).run():
        if sig != 'return' or v is None:
            continue
        if not isinstance(v, Sym):
            raise AnalysisError('%s returns %r: not a type expression the rule understands' % (fn.name, v))
        key = '%s:%s' % (fn.name, v.path)
        known = st.env.get(v.path + '.is_int')
        const = is_int_constant(v.path)
        inst.append((key, '%s returns %s (%s)' % (fn.name, v.path, 'tested .is_int' if isinstance(known, Sym) and known.truthy else ('constant int type' if const else 'NOT established'))))
        if not (isinstance(known, Sym) and known.truthy or known is True or const):
            prob.append((key, fn.lineno, '%s returns %s on a path that never established that it is a C integer type (the operand tested with .is_int is a different one): a comparison with a '
                         'character literal would then be carried out on the literal\'s Python/str type instead of on C integers' % (fn.name, v.path)))
    return inst, prob


INTTYPE_CONTROL = '''
def find_common_int_type(self, env, op, operand1, operand2):
    type1 = operand1.type
    type2 = operand2.type
    if type1.is_int:
        if operand2.is_string_literal:
            return type2
    return None
'''


def rule_inttype(ctx):
    ix = ctx.index
    cmp = ix.cls('ExprNodes', 'CmpNode')
    fn = _method(cmp, 'find_common_int_type')
    r = Rule('C19-INTTYPE', 'find_common_int_type (common type of `<C integer> == <character literal>`) returns only types established as C integer types on that path', floor=3)
    pt = ix.mod('PyrexTypes')

    def is_int_constant(path):
        m = re.match(r'^PyrexTypes\.(\w+)$', path)
        if not m:
            return False
        node = tables.module_assign(pt.tree, m.group(1))
        if not (isinstance(node, ast.Call) and isinstance(node.func, ast.Name)):
            return False
        try:
            c = ix.cls('PyrexTypes', node.func.id)
        except Exception:
            return False
        a = ix.find_class_attr(c, 'is_int')
        return a is not None and bool(tables.literal(a[1]))
    inst, prob = int_type_problems(fn, is_int_constant)
    counted, seen = set(), set()
    for key, sample in inst:
        if key not in counted:
            counted.add(key)
            r.inst('ExprNodes.CmpNode.' + key, sample=sample)
    for key, line, text in prob:
        if key not in seen:
            seen.add(key)
            r.violate('ExprNodes.CmpNode.' + key, cmp.module.rel, line, text)
    pc = ast.parse(INTTYPE_CONTROL).body[0]
    _, cp = int_type_problems(pc, is_int_constant)
    r.positive_control(bool(cp), 'type of the literal returned instead of the tested C integer type')
    return r


# ===================================================================================================== C19-DUPKEY   (pending finding)
def _value_kind(e, fn, scopes=()):
    """'int' | 'seq' | 'str' | 'unknown' for a small expression of fn; scopes = comprehension generators in whose scope e is evaluated"""
    if isinstance(e, ast.Constant):
        if isinstance(e.value, bool) or not isinstance(e.value, (int, str, bytes)):
            return 'unknown'
        return 'int' if isinstance(e.value, int) else 'str'
    if isinstance(e, ast.Call) and isinstance(e.func, ast.Name) and e.func.id in ('ord', 'int', 'len'):
        return 'int'
    if isinstance(e, ast.Subscript):
        return 'seq' if isinstance(e.slice, ast.Slice) else 'unknown'
    if isinstance(e, ast.Name):
        for g in scopes:
            if isinstance(g.target, ast.Name) and g.target.id == e.id:
                return _elem_kind(g.iter, fn, scopes)
        for n in walk_no_nested(fn):
            if isinstance(n, ast.For) and isinstance(n.target, ast.Name) and n.target.id == e.id:
                return _elem_kind(n.iter, fn, scopes)
        vals = [n.value for n in walk_no_nested(fn) if isinstance(n, ast.Assign) and any(isinstance(t, ast.Name) and t.id == e.id for t in n.targets)]
        kinds = {_value_kind(v, fn, scopes) for v in vals}
        return kinds.pop() if len(kinds) == 1 else 'unknown'
    return 'unknown'


def _elem_kind(it, fn, scopes=()):
    """kind of the elements of an iterable expression"""
    if isinstance(it, ast.Call) and isinstance(it.func, ast.Name):
        if it.func.id in ('sorted', 'set', 'list', 'tuple', 'reversed', 'frozenset') and it.args:
            return _elem_kind(it.args[0], fn, scopes)
        if it.func.id == 'map' and len(it.args) == 2:
            f = it.args[0]
            if isinstance(f, ast.Name) and f.id in ('ord', 'int', 'len'):
                return 'int'
            return 'unknown'
    if isinstance(it, (ast.SetComp, ast.ListComp, ast.GeneratorExp)):
        return _value_kind(it.elt, fn, tuple(it.generators) + tuple(scopes))
    if isinstance(it, ast.Name):
        defs = [n for n in walk_no_nested(fn) if isinstance(n, ast.Assign) and any(isinstance(t, ast.Name) and t.id == it.id for t in n.targets)]
        # the definition that reaches a use in straight-line code: the last one above it in the same statement list
        for blk in _blocks(fn.body):
            here = [d for d in defs if d in blk]
            use = [i for i, st in enumerate(blk) if any(x is it for x in ast.walk(st))]
            if here and use:
                before = sorted((d for d in here if blk.index(d) < use[0]), key=blk.index)
                if before:
                    return _elem_kind(before[-1].value, fn, scopes)
        kinds = {_elem_kind(d.value, fn, scopes) for d in defs}
        return kinds.pop() if len(kinds) == 1 else 'unknown'
    return 'unknown'


def _blocks(stmts):
    yield stmts
    for st in stmts:
        for fld in ('body', 'orelse', 'finalbody'):
            b = getattr(st, fld, None)
            if isinstance(b, list) and b and isinstance(b[0], ast.stmt):
                yield from _blocks(b)
        for h in getattr(st, 'handlers', []) or []:
            yield from _blocks(h.body)


def dupkey_problems(methods, dup_name='has_duplicate_values'):
    """Case values constructed by the switch rewrite carry an explicit constant_result; the duplicate detector compares exactly that attribute, so it must be the C integer value."""
    inst, prob = [], []
    dup = methods.get(dup_name)
    if dup is None or not any(isinstance(n, ast.Attribute) and n.attr == 'constant_result' for n in walk_no_nested(dup)):
        raise AnalysisError('%s no longer identifies case values by constant_result' % dup_name)
    for name, fn in sorted(methods.items()):
        for n in ast.walk(fn):
            if not isinstance(n, ast.Call):
                continue
            cname = getattr(n.func, 'attr', None) or getattr(n.func, 'id', None)
            kw = [k.value for k in n.keywords if k.arg == 'constant_result']
            if not (cname and cname.endswith('Node') and kw):
                continue
            # comprehension scopes enclosing the call
            scopes = []
            for c in ast.walk(fn):
                if isinstance(c, (ast.ListComp, ast.SetComp, ast.GeneratorExp)) and any(x is n for x in ast.walk(c.elt)):
                    scopes = list(c.generators) + scopes
            kind = _value_kind(kw[0], fn, tuple(scopes))
            key = '%s:%s:constant_result' % (name, cname)
            inst.append((key, '%s builds %s(constant_result=%s): %s' % (name, cname, node_src(kw[0]), kind)))
            if kind in ('seq', 'str'):
                prob.append((key, n.lineno, '%s builds a case value %s whose constant_result is %s (`%s`), not its C integer value: %s compares constant_result, so the case for %s is not recognised '
                             'as a duplicate of an integer / character case with the same value (`c == 97 or c in b"ab"` yields `case 97: case \'a\':` - the C compiler rejects the switch)'
                             % (name, cname, 'a sequence slice' if kind == 'seq' else 'a string', node_src(kw[0]), dup_name, node_src(kw[0]))))
    return inst, prob


def rule_dupkey(ctx):
    # pending finding (FINDING_C19_1): extract_in_string_conditions gives CharNodes the 1-byte `bytes` slice as constant_result; not registered in run()
    ix = ctx.index
    cls = ix.cls('Optimize', 'SwitchTransform')
    r = Rule('C19-DUPKEY', 'case values constructed by the switch rewrite carry their C integer value as constant_result (the key has_duplicate_values compares)', floor=1)
    inst, prob = dupkey_problems(cls.methods)
    for key, sample in inst:
        r.inst('Optimize.SwitchTransform.' + key, sample=sample)
    for key, line, text in prob:
        r.violate('Optimize.SwitchTransform.' + key, cls.module.rel, line, text)
    pc = ast.parse('class T:\n    def has_duplicate_values(self, vs):\n        return vs[0].constant_result in ()\n    def x(self, s):\n'
                   '        return [CharNode(p, value=c, constant_result=c) for c in sorted({s[i:i+1] for i in range(len(s))})]\n').body[0]
    _, cp = dupkey_problems({f.name: f for f in pc.body})
    r.positive_control(bool(cp), 'CharNode keyed by a one-byte slice')
    return r


# ===================================================================================================== C19-LONGCMP
LONGCMP_INTVALS = (0, 5, -5, (1 << 15) + 3, -((1 << 15) + 3), (1 << 30) - 1, -((1 << 30) - 1), 1 << 30, -(1 << 30))     # optimise_numeric_binop admits |constant| <= 2**30


def longcmp_problems(section_raw, orders=('CObj', 'ObjC'), ops=('Eq', 'Ne')):
    """`<object> == <int constant>` helper (PyLongCompare template): interpreted for every class of the object operand relative to the constant
    (same value / other sign / differs in the k-th digit / other digit count / zero / huge, float equal or not, nan, foreign object, the constant itself)."""
    raw = strip_c_comments(section_raw)
    inst, prob = [], []
    OBJ, CONST = 8001, 8002
    for op, order in itertools.product(ops, orders):
        text = tpl_expand(raw, {'op': op, 'order': order, 'ret_type.is_pyobject': False, 'ret_type': Sym('ret_type')})
        text = re.sub(r'(?<![\w.])(\d+)\.0*(?![\w.])', r'\1', text)
        funcs = [f for f in _c_functions(text) if len(f[1]) == 4]
        if len(funcs) != 1:
            raise AnalysisError('PyLongCompare(%s, %s): helper function not found in the expansion' % (op, order))
        hn, hp, hb = funcs[0]
        key = 'Optimize.c:PyLongCompare:%s' % hn
        n = 0
        for shift, sizeof_long in ((30, 8), (15, 8), (30, 4), (15, 4)):
            for cfg, body in cpp_variants(hb, fixed={'PyLong_SHIFT': shift, 'SIZEOF_LONG': sizeof_long}):
                for intval in LONGCMP_INTVALS:
                    objs = [('int', intval, True), ('int', intval, False), ('int', -intval, False), ('int', intval + 1, False), ('int', intval - 1, False), ('int', intval + (1 << shift), False),
                            ('int', intval ^ (1 << (2 * shift)), False), ('int', 0, False), ('int', 1 << 100, False), ('int', -(1 << 100), False),
                            ('float', float(intval), False), ('float', intval + 0.5, False), ('float', float('nan'), False), ('other', None, False)]
                    for kind, value, same in objs:
                        if same and (kind != 'int' or value != intval):
                            continue
                        po = CONST if same else OBJ
                        a, b = (CONST, po) if order == 'CObj' else (po, CONST)
                        info = {CONST: ('int', intval), po: (kind, value) if not same else ('int', intval)}

                        def digits(v):
                            v, out = abs(v), []
                            while v:
                                out.append(v & ((1 << shift) - 1))
                                v >>= shift
                            return out

                        def api(nm, vals, asts):
                            if nm in ('PyLong_CheckExact', 'PyFloat_CheckExact'):
                                return int(info[vals[0]][0] == ('int' if 'Long' in nm else 'float'))
                            if nm.startswith('CYTHON_'):
                                return 0
                            if nm.startswith('__Pyx_PyLong_') or nm == '__Pyx_PyFloat_AS_DOUBLE':
                                k, v = info[vals[0]]
                                want = 'float' if 'Float' in nm else 'int'
                                if k != want:
                                    raise CInvalid('%s is applied to a %s operand' % (nm, 'foreign' if k == 'other' else k))
                                if nm == '__Pyx_PyFloat_AS_DOUBLE':
                                    return ('dbl', v)
                                if nm == '__Pyx_PyLong_DigitCount':
                                    return len(digits(v))
                                if nm == '__Pyx_PyLong_Digits':
                                    return ('digits', vals[0])
                                if nm == '__Pyx_PyLong_IsZero':
                                    return int(v == 0)
                                if nm == '__Pyx_PyLong_IsNeg':
                                    return int(v < 0)
                                if nm == '__Pyx_PyLong_IsNonNeg':
                                    return int(v >= 0)
                                if nm == '__Pyx_PyLong_IsPos':
                                    return int(v > 0)
                            if nm == '[]':
                                d, i = vals
                                if not (isinstance(d, tuple) and d[0] == 'digits'):
                                    raise CUnsupported('index into %r' % (d,))
                                ds = digits(info[d[1]][1])
                                if not isinstance(i, int) or not 0 <= i < max(len(ds), 1):
                                    raise CInvalid('reads digit %s of a PyLong with %d digit(s)' % (i, len(ds)))
                                return ds[i] if ds else 0
                            if nm in ('op:==', 'op:!='):
                                x, y = [v[1] if isinstance(v, tuple) else v for v in vals]
                                return int((x == y) == (nm == 'op:=='))
                            if 'RichCompare' in nm:
                                return ('rich', tuple(vals))
                            raise CUnsupported('call of %s' % nm)
                        n += 1
                        what = 'the constant object itself' if same else ('a foreign object' if kind == 'other' else '%s %r' % (kind, value))
                        where = '%s(constant %d, object operand %s) [PyLong_SHIFT=%d, %d-bit long, %s]' % (hn, intval, what, shift, 8 * sizeof_long, ', '.join('%s=%s' % kv for kv in sorted(cfg.items()) if kv[0] not in ('PyLong_SHIFT', 'SIZEOF_LONG')))
                        env = {hp[0]: a, hp[1]: b, hp[2]: intval, hp[3]: 0, 'PyLong_SHIFT': shift, 'PyLong_MASK': (1 << shift) - 1}
                        try:
                            res = CRun(body, env, api).run()
                        except CInvalid as ex:
                            prob.append((key, '%s %s' % (where, ex)))
                            continue
                        except CUnsupported as ex:
                            raise AnalysisError('%s: %s' % (hn, ex))
                        if isinstance(res, tuple) and res[0] == 'rich':
                            if res[1] != (a, b, C_CONSTANTS['Py_' + op.upper()]):
                                prob.append((key, '%s falls back to the generic comparison with exchanged operands or the wrong operation' % where))
                            continue
                        if kind == 'other':
                            prob.append((key, '%s answers %r without calling the object\'s comparison' % (where, res)))
                            continue
                        equal = (value == intval) if kind != 'other' else None
                        want = equal == (op == 'Eq')
                        if not isinstance(res, int) or res < 0 or bool(res) != want:
                            prob.append((key, '%s returns %r, but %r %s %d is %s' % (where, res, value, CMP_OPS[op], intval, want)))
        inst.append((key, n))
    return inst, prob


LONGCMP_CONTROL = '''
static CYTHON_INLINE int __Pyx_PyLong_Bool{{op}}{{order}}(PyObject *op1, PyObject *op2, long intval, long inplace) {
    {{py: pyval = 'op2' if order == 'CObj' else 'op1'}}
    if (likely(PyLong_CheckExact({{pyval}}))) {
        if (intval < 0) {
            if (__Pyx_PyLong_IsNeg({{pyval}})) return {{0 if op == 'Eq' else 1}};
        }
    }
    return __Pyx_PyObject_RichCompareBool(op1, op2, Py_{{op.upper()}});
}
'''


def rule_longcmp(ctx):
    r = Rule('C19-LONGCMP', '`<object> == / != <int constant>` helpers (Optimize.c::PyLongCompare, both operand orders), interpreted for every class of the object operand relative to the constant and '
             'PyLong_SHIFT 15/30 x 32/64-bit long: sign and digit shortcuts answer as Python does, floats are compared by value, foreign objects reach the generic comparison with the operands in order', floor=3)
    sec = ctx.cat.section('Optimize.c', 'PyLongCompare', 'impl')
    if sec is None:
        raise AnalysisError('Optimize.c::PyLongCompare not found')
    inst, prob = longcmp_problems(sec.raw)
    for key, n in inst:
        r.inst(key, sample='%s: %d operand classes' % (key, n))
    seen = set()
    for key, text in prob:
        if key not in seen:
            seen.add(key)
            more = sum(1 for k, _ in prob if k == key) - 1
            r.violate(key, 'Cython/Utility/Optimize.c', sec.line, text + (' (+%d more operand classes)' % more if more > 0 else ''))
    _, cp = longcmp_problems(LONGCMP_CONTROL, orders=('ObjC',), ops=('Eq',))
    r.positive_control(bool(cp), 'negative constant answered "unequal" for every negative object')
    return r
